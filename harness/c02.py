"""C02 — reported log-evidence is consistent and independent across seeded runs (PARTIAL: algebraic skeleton + pipeline tie)."""
import contextlib
import io
import warnings

import numpy as np

from . import common, pipeline, ensemble
from .common import Corr, hex2f
from .c01 import make_target

ID = "C02"
LEAN_MODULES = ["TempestVerif.Props.C02", "TempestVerif.Props.C02Stat", "TempestVerif.Props.C02X",
                "TempestVerif.Props.C03", "TempestVerif.Props.C06"]   # C03 / C06: kernel and resampler the pipeline composes
RULE = ("(a) evidence trace replay: real runs driven to termination with all randomness observed; the Lean pipeline model replays the "
        "tape and must reproduce every per-iteration logZ and the FINAL evidence (the beta = 1 mixture estimate over the whole history) "
        "within 1e-9; the real epilogue value (compute_logw_and_logz(1.0)) is what evidence() reports. (b) seed sensitivity predicted "
        "by the RNG dataflow model (no constant reseed): differently seeded runs, with clustering on and off, give different evidence "
        "values. Non-trivial = run with >= 2 annealing iterations / a clustering configuration. (c) evidence-of-run: real "
        "Sampler.run(n_total) calls over the lattice kernel x resampler x clustering x {ESS, volume-variation} x boundary kinds, recorded "
        "and replayed by the EXTENDED model (Model/PipelineX.lean: whole mutation loop, both reweighting modes, loop guard, epilogue): the "
        "model must stop where run() stops and its epilogue value must equal Sampler.evidence()[0] (1e-9), which must be the state's "
        "logz with error None. (d) run-isolation: a seeded run returns bit-identical evidence and posterior arrays whatever ran before "
        "it in the same process (the run is a function of its own random stream only).")
MODELLED = ["independence of runs: PROVED for the model (a run's reported value is a function of its own tape: C02_X_runs_independent, with "
            "C02_mean_of_runs_mse / C02_runs_variance_general the 1/sqrt(R) law) UNDER the idealisation that the random streams of "
            "differently seeded runs are independent (MT19937 is modelled, not verified) and that a real run reads no other entropy "
            "(C09: G3 table of RNG call sites; suite run-isolation)",
            "E[log Z_hat] <= log E[Z_hat] (C02_log_evidence_biased_low): an unbiased evidence gives a log-evidence biased LOW at finite N",
            "PARTIAL: consistency over the ensemble of seeds and the 1/sqrt(R) law are statements about a sampling distribution; proved are "
            "the unbiasedness identity of the mixture estimator under nominal batch laws, the identification of evidence() with the log mean "
            "weight at beta = 1, and the RNG dataflow (C09) that makes runs from different seeds use different innovations",
            "bias from adaptivity / estimated normalisers at finite N is allowed by the statement and not quantified"]
ASSUMPTIONS = ["user likelihood and prior transform are pure"]


def translators():
    from translate import g4_kernel, g3_rng
    return [g4_kernel.generate(), g3_rng.generate()]


def _quiet():
    return contextlib.redirect_stdout(io.StringIO())


def correspond(tier):
    drv = common.Driver()
    rng = common.rng_for("C02")
    c = Corr("evidence-trace-replay", "toleranced Float")
    n_runs = 16 if tier == "quick" else 100
    recs, lines = [], []
    for i in range(n_runs):
        kernel, resample = [("tpcn", "mult"), ("rwm", "syst"), ("tpcn", "syst"), ("rwm", "mult")][i % 4]
        d = rng.choice([1, 2])
        n = rng.choice([8, 16])
        prior, like = make_target(rng, d, rng.random() < 0.3)
        seed = rng.randrange(2 ** 31)
        np.random.seed(seed)
        rec = pipeline.Recorder(kernel, resample, n, d, like, prior, ess_ratio=2.0)
        rec.s._core._initialize_fresh()
        rec.s._core.n_total = 2 * n
        k = 0
        while rec.s._core._not_termination() and k < 40:
            rec.iteration()
            k += 1
        terminated = not rec.s._core._not_termination()
        recs.append((rec, {"kernel": kernel, "resample": resample, "d": d, "n": n, "seed": seed, "terminated": terminated}))
        lines.append(rec.model_line())
        c.case((kernel, resample, d, n, seed), sum(1 for it in rec.impl if it["beta"] > 0) >= 2)
        c.count("terminated" if terminated else "truncated")
    for (rec, cfg), line, ans in zip(recs, lines, drv.batch(lines)):
        prob, tie = pipeline.compare(rec, ans)
        if tie:
            c.near_ties += 1
            continue
        if prob is None:
            ev = ans.split("#")[2]
            _, z1 = rec.s.state.compute_logw_and_logz(1.0)
            if ev == "none" or not pipeline.close(hex2f(ev), float(z1)):
                prob = f"final evidence: implementation {float(z1)!r}, model {ev if ev == 'none' else hex2f(ev)!r}"
        if prob:
            c.disagree(input=cfg, impl=prob, model=ans[-200:])
        c.sample({"config": cfg, "logz_per_iteration": [round(it["logz"], 5) for it in rec.impl], "model_final": ans.split("#")[-1]})
    c2 = Corr("seed-sensitivity", "exact (inequality of evidence values across seeds)")
    from tempest import Sampler
    for clustering, kernel in ((True, "tpcn"), (False, "rwm"), (True, "rwm")):
        vals = []
        for seed in (11, 12, 13):
            np.random.seed(seed)
            with _quiet(), warnings.catch_warnings():
                warnings.simplefilter("ignore")
                s = Sampler(lambda u: 8.0 * u - 4.0, lambda x: -0.5 * float(np.sum(x ** 2)), 2, n_particles=24, clustering=clustering,
                            sample=kernel, n_steps=1, n_max_steps=2)
                s.run(n_total=48, progress=False)
            vals.append(float(s.evidence()[0]))
        c2.case((clustering, kernel), True)
        if len(set(vals)) != 3:
            c2.disagree(input={"clustering": clustering, "kernel": kernel, "seeds": [11, 12, 13]}, impl=vals,
                        model="runs from different seeds use different innovations (C09_no_reseed_injective)")
        c2.sample({"clustering": clustering, "kernel": kernel, "logZ by seed": vals})
    from . import pipelinex
    ce = pipelinex.suite_real_runs(tier, "C02.e", "evidence")
    # every run in volume-variation mode, half with tight targets: per-iteration logz where the dynamic mode HOLDS beta
    cv = pipelinex.suite_replay(tier, "C02.v", n_quick=12, n_thorough=60, force_vv=True, name="dynamic-mode-trace-replay")
    c3 = _isolation_suite(tier)
    from . import psoracles
    ct = psoracles.suite_same_temperature(tier, "C02")
    from .c01 import _dependency_suites
    return [c, ce, cv, c2, c3, ct] + _dependency_suites(tier)


def _isolation_suite(tier):
    """`run` is a function of its own random stream only: whatever other samplers did before in this process (other
    configuration, clustering on, other seed), a run seeded with b gives bit-identical evidence and posterior arrays"""
    from tempest import Sampler
    c = Corr("run-isolation", "exact (bit equality of evidence and of the posterior arrays)")
    rng = common.rng_for("C02.iso")

    def run(seed, clustering, kernel, n=24, d=2):
        with _quiet(), warnings.catch_warnings():
            warnings.simplefilter("ignore")
            s = Sampler(lambda u: 8.0 * u - 4.0, lambda x: float(np.logaddexp(-2.0 * np.sum((x - 1.5) ** 2), -2.0 * np.sum((x + 1.5) ** 2))),
                        d, n_particles=n, clustering=clustering, sample=kernel, n_steps=1, n_max_steps=2, random_state=seed)
            try:
                s.run(n_total=2 * n, progress=False)
            except np.linalg.LinAlgError as e:
                # known finding F24 occurring by itself on these small populations (the mode constructor refuses a degenerate
                # cluster): the run is still a function of its seed -- the two runs of a pair must then abort identically, at
                # the same iteration with the same particles
                c.count("run_aborted_by_F24(degenerate cluster refused; pair compared on the abort)")
                return ("raised", type(e).__name__, str(e), int(s.state.get_current("iter")), s.state.get_current("u").tobytes())
            x, w, l = s.posterior()
        return float(s.evidence()[0]), x.tobytes(), w.tobytes()
    for k in range(3 if tier == "quick" else 12):
        clustering, kernel = bool(k % 2), ("tpcn", "rwm")[(k // 2) % 2]
        b = rng.randrange(2 ** 31)
        first = run(b, clustering, kernel)
        run(rng.randrange(2 ** 31), not clustering, "rwm" if kernel == "tpcn" else "tpcn", n=16)   # something else in between
        np.random.seed(rng.randrange(2 ** 31))
        np.random.rand(17)
        second = run(b, clustering, kernel)
        c.case((clustering, kernel, b), True)
        c.count("clustering_on" if clustering else "clustering_off")
        if first != second:
            c.disagree(input={"seed": b, "clustering": clustering, "kernel": kernel}, impl=f"evidence {first[0]!r} then {second[0]!r}",
                       model="a seeded run is a function of its seed (Props.C02.C02_seed_independence_dataflow)")
    return c


def search(tier, hints):
    # 1. the exact contract of what evidence() reports (deterministic; cannot fire on correct code)
    from . import psoracles
    found = psoracles.search("evidence", tier)
    if found:
        return found
    # 2. the statement's own (statistical) oracle: ensemble mean error / identical values across seeds
    return ensemble.search_evidence(tier)


def replay(obj):
    f = obj.get("failing_input", obj)
    if "witness" in f.get("replay", {}):
        from . import witnesses
        return witnesses.ALL[f["replay"]["witness"]]()
    if "contract" in f.get("replay", {}):
        from . import psoracles
        r = f["replay"]
        return psoracles.replay(r["contract"], r["cell"], r["seed"])
    r = ensemble.run_cell(f["cell"], "evidence", f.get("R", 24))
    return {"fails": r["fails"], "detail": r}
