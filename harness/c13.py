"""C13 — likelihood evaluation strategy is transparent; calls are counted exactly."""
import contextlib
import io
import threading
import warnings

import numpy as np

from . import common
from .common import Corr

ID = "C13"
LEAN_MODULES = ["TempestVerif.Props.C13"]
RULE = ("(a) dispatch: the real SamplerCore._get_distribute_func/_log_like for every pool setting (None, 0, 1, 2 (thorough: real "
        "process pool), bool, pool-like objects) x vectorize vs the model interpreting the dispatch table regenerated from source "
        "(which strategy is used, or an error). (b) transparency: seeded real runs with the same pointwise likelihood evaluated "
        "scalar / vectorised / through pool-like objects whose map computes in reversed, shuffled or threaded order but returns in "
        "input order / pool=1 — histories, weights, evidence must be bit-identical (the model's C13_transparent). "
        "(c) calls: an instrumented likelihood counts evaluated points; after every iteration state['calls'] == counted == the "
        "model's accounting over the iteration sequence (warm-up / k steps). Non-trivial = strategy other than plain scalar map, "
        "or an iteration sequence containing both warm-up and mutation.")
MODELLED = ["a pool's map is assumed to return results in input order (contract of multiprocessing-style pools); the worker-side "
            "completion order is exercised (reversed/shuffled/threaded doubles) but a pool violating the contract is out of scope",
            "a user's vectorised likelihood is assumed pointwise identical to its scalar form (hypothesis hvec)"]
ASSUMPTIONS = ["likelihood is deterministic"]


def translators():
    from translate import g6_dispatch
    return [g6_dispatch.generate()]


def _quiet():
    return contextlib.redirect_stdout(io.StringIO())


class CountingLike:
    """pointwise identical scalar / vectorised likelihood with an evaluation counter (thread-safe)"""

    def __init__(self, blobs=False):
        self.n = 0
        self.blobs = blobs
        self.lock = threading.Lock()

    @staticmethod
    def f(x):
        return -0.5 * float(np.sum((x - 0.3) ** 2)) * 2.5

    def scalar(self, x):
        with self.lock:
            self.n += 1
        return (self.f(x), float(x[0]) * 2.0 + 1.0) if self.blobs else self.f(x)

    def vector(self, X):
        with self.lock:
            self.n += len(X)
        return np.array([self.f(r) for r in X])


class ReversedPool:
    def map(self, f, xs):
        xs = list(xs)
        out = [f(x) for x in reversed(xs)]
        return list(reversed(out))


class ShuffledPool:
    def __init__(self, seed=3):
        self.rng = np.random.RandomState(seed)     # private: must not disturb the global stream

    def map(self, f, xs):
        xs = list(xs)
        order = self.rng.permutation(len(xs))
        out = [None] * len(xs)
        for i in order:
            out[i] = f(xs[i])
        return out


class ThreadedPool:
    def map(self, f, xs):
        xs = list(xs)
        out = [None] * len(xs)

        def work(i):
            out[i] = f(xs[i])
        ts = [threading.Thread(target=work, args=(i,)) for i in range(len(xs))]
        for t in reversed(ts):
            t.start()
        for t in ts:
            t.join()
        return out


class GeneratorPool:
    """returns a lazy iterator, like imap-style pools / builtin map"""

    def map(self, f, xs):
        return (f(x) for x in xs)


class SizedPool(ReversedPool):
    """a pool-like object that advertises its number of workers the way multiprocessing / schwimmbad / executor pools do
    (a dispatch that splits work per worker must still evaluate — and count — exactly the requested points)"""
    size = 5
    _processes = 5
    _max_workers = 5


class NewestFirstExecutor(__import__("concurrent.futures").futures.Executor):
    """a concurrent.futures executor with one worker that always runs the most recently submitted task first: tasks of a
    batch COMPLETE in reverse order, while `Executor.map` (inherited) still yields results in submission order"""

    def __init__(self, delay=0.002):
        self._delay, self._lock, self._tasks, self._worker = delay, threading.Lock(), [], None

    def submit(self, fn, /, *args, **kwargs):
        from concurrent.futures import Future
        fut = Future()
        with self._lock:
            self._tasks.append((fut, fn, args, kwargs))
            if self._worker is None:
                self._worker = threading.Timer(self._delay, self._drain)
                self._worker.daemon = True
                self._worker.start()
        return fut

    def _drain(self):
        while True:
            with self._lock:
                if not self._tasks:
                    self._worker = None
                    return
                fut, fn, args, kwargs = self._tasks.pop()
            if not fut.set_running_or_notify_cancel():
                continue
            try:
                fut.set_result(fn(*args, **kwargs))
            except BaseException as exc:  # noqa
                fut.set_exception(exc)


def _thread_executor():
    from concurrent.futures import ThreadPoolExecutor
    return ThreadPoolExecutor(3)


def _thread_pool():
    from multiprocessing.pool import ThreadPool
    return ThreadPool(3)


STRATEGIES = {
    "scalar": dict(vectorize=False, pool=None),
    "vector+sized": dict(vectorize=True, pool=SizedPool),
    "vector+threadpool": dict(vectorize=True, pool=_thread_pool),
    "sized": dict(vectorize=False, pool=SizedPool),
    "executor-newest-first": dict(vectorize=False, pool=NewestFirstExecutor),
    "executor-threads": dict(vectorize=False, pool=_thread_executor),
    "vector": dict(vectorize=True, pool=None),
    "pool=1": dict(vectorize=False, pool=1),
    "reversed": dict(vectorize=False, pool=ReversedPool),
    "shuffled": dict(vectorize=False, pool=ShuffledPool),
    "threaded": dict(vectorize=False, pool=ThreadedPool),
    "generator": dict(vectorize=False, pool=GeneratorPool),
}


def _run(strategy, kernel, blobs, seed, n_iter=None, n_total=48):
    from tempest import Sampler
    st = STRATEGIES[strategy]
    like = CountingLike(blobs)
    pool = st["pool"]
    if isinstance(pool, type) or callable(pool) and not hasattr(pool, "map"):
        pool = pool()
    s = Sampler(lambda u: 6.0 * u - 3.0, like.vector if st["vectorize"] else like.scalar, 2, n_particles=16,
                clustering=False, sample=kernel, resample="mult", vectorize=st["vectorize"], pool=pool,
                blobs_dtype=("f8" if blobs else None), n_steps=1, n_max_steps=2)
    trace = []
    np.random.seed(seed)
    with _quiet(), warnings.catch_warnings():
        warnings.simplefilter("ignore")
        s._core._initialize_fresh()
        s._core.n_total = n_total
        k = 0
        while s._core._not_termination() and k < 40:
            cur = s.sample()
            k += 1
            trace.append((float(cur["beta"]), int(cur["steps"]), int(cur["calls"]), like.n))
    if hasattr(pool, "terminate"):
        pool.terminate()
    elif hasattr(pool, "shutdown") and not isinstance(pool, NewestFirstExecutor):
        pool.shutdown(wait=False)
    st_ = s.state
    fp = common.digest([st_.get_history("u", flat=True).tobytes().hex(), st_.get_history("logl", flat=True).tobytes().hex(),
                        np.asarray(st_.get_history("beta")).tobytes().hex(), np.asarray(st_.get_history("logz")).tobytes().hex(),
                        st_.compute_logw_and_logz(1.0)[0].tobytes().hex(), repr(st_.compute_logw_and_logz(1.0)[1])])
    return fp, trace


def suite_dispatch(drv, tier):
    from tempest import Sampler
    c = Corr("dispatch-table", "exact")
    pools = [("none", None), ("int:0", 0), ("int:1", 1), ("int:1", True), ("obj", ReversedPool()), ("obj", GeneratorPool()), ("obj", SizedPool())]
    if tier == "thorough":
        pools.append(("int:2", 2))
    lines, impl = [], []
    for vec in (False, True):
        for tag, pool in pools:
            like = CountingLike()
            try:
                s = Sampler(lambda u: u, like.vector if vec else like.scalar, 2, n_particles=4, clustering=False, vectorize=vec, pool=pool)
                X = np.array([[0.1, 0.2], [0.3, 0.4], [0.5, 0.6]])
                with warnings.catch_warnings():
                    warnings.simplefilter("ignore")
                    fn = s._core._get_distribute_func()
                    l, b = s._core._log_like(X)
                how = "direct" if vec else ("map" if fn is map else "poolMap")
                # (with a real process pool the counter is advanced in the workers, not here)
                ok_vals = np.array_equal(l, np.array([CountingLike.f(r) for r in X])) and (like.n == 3 or (isinstance(pool, int) and pool > 1))
                if not ok_vals:
                    how += ":wrong-values"
            except Exception as e:  # noqa
                how = "error"
            lines.append(f"disp.how vec={int(vec)} pool={tag}")
            impl.append(how)
    for line, i, m in zip(lines, impl, drv.batch(lines)):
        c.case(line + i, "none" not in line)
        c.count(i)
        if i != m:
            c.disagree(input=line, impl=i, model=m)
        c.sample({"op": line, "impl": i, "model": m})
    return c


def transparency_violations(cases):
    bad = []
    for kernel, blobs, seed in cases:
        ref_fp, ref_trace = _run("scalar", kernel, blobs, seed)
        for name in STRATEGIES:
            if name == "scalar" or (name.startswith("vector") and blobs):
                continue
            try:
                fp, tr = _run(name, kernel, blobs, seed)
            except Exception as e:  # noqa
                bad.append({"what": f"strategy `{name}` raised {type(e).__name__}: {e}", "strategy": name, "kernel": kernel, "blobs": blobs, "seed": seed})
                continue
            if fp != ref_fp:
                first = next((i for i, (a, b) in enumerate(zip(ref_trace, tr)) if a[:3] != b[:3]), None)
                bad.append({"what": f"strategy `{name}` and scalar evaluation give different histories/weights/evidence for the same seed "
                                    f"(first differing iteration: {first})", "strategy": name, "kernel": kernel, "blobs": blobs, "seed": seed})
    return bad


def calls_violations(drv, cases, corr=None):
    bad = []
    lines, recs = [], []
    for name, kernel, blobs, seed in cases:
        try:
            _, trace = _run(name, kernel, blobs, seed)
        except Exception as e:  # noqa
            bad.append({"what": f"run raised {type(e).__name__}: {e}", "strategy": name, "kernel": kernel, "blobs": blobs, "seed": seed})
            continue
        ops = []
        for k, (beta, steps, calls, counted) in enumerate(trace):
            ops.append("w" if beta == 0.0 else f"m:{steps}")
            if beta != 0.0 and not (min(1 * 2, 2 * 2) <= steps <= max(1, 2 * 2)):     # n_steps=1, n_max_steps=2, d=2 in _run
                bad.append({"what": f"iteration {k + 1}: {steps} accept/reject steps, outside the proved range [2, 4] (C13_steps_bounded_from_start)",
                            "strategy": name, "kernel": kernel, "blobs": blobs, "seed": seed})
            lines.append(f"calls.run np=16 nw=16 ops={';'.join(ops)}")
            recs.append((name, kernel, blobs, seed, k, calls, counted, len(ops) > 1 and "w" in ops and any(o != "w" for o in ops)))
    for (name, kernel, blobs, seed, k, calls, counted, nontriv), line, ans in zip(recs, lines, drv.batch(lines)):
        if corr is not None:
            corr.case(line + name + kernel, nontriv or name != "scalar")
            corr.count(name)
        toks = ans.split(" ")
        mcalls = int(toks[0]) if toks[0].isdigit() else None
        if not (mcalls == calls == counted):
            b = {"what": f"after iteration {k + 1}: state['calls']={calls}, likelihood actually evaluated at {counted} points, model accounting {ans}",
                 "strategy": name, "kernel": kernel, "blobs": blobs, "seed": seed}
            bad.append(b)
            if corr is not None:
                corr.disagree(input=line, impl={"calls": calls, "counted": counted}, model=ans, strategy=name)
    if corr is not None and recs:
        corr.sample({"op": lines[-1], "impl_calls": recs[-1][5], "counted": recs[-1][6]})
    return bad


def suite_steps(drv, tier):
    """the adaptive stopping rule of the mutation loop: real _calculate_adaptive_steps / _check_convergence vs the Float model (bit-exact),
    and the proved bounds min(n_steps d, n_max d) <= steps <= max(1, n_max d) on real mutations"""
    import tempest.mcmc as mcmc
    from tempest.modes import ModeStatistics
    c = Corr("adaptive-steps", "bit-exact Float")
    rng = common.rng_for("C13.steps")
    lines, impl = [], []
    for _ in range(400 if tier == "quick" else 6000):
        d = rng.randint(1, 5)
        K = rng.randint(1, 3)
        n = rng.randint(K, 12)
        ns, nm = rng.randint(1, 6), rng.randint(1, 30)
        ms = ModeStatistics(np.zeros((K, d)), np.array([np.eye(d)] * K), np.full(K, 3.0))
        assign = np.array([rng.randrange(K) for _ in range(n)])
        kind = rng.choice([mcmc.RWMRunner, mcmc.TPCNRunner])
        r = kind(np.full((n, d), 0.5), np.zeros((n, d)), np.zeros(n), None, assign, 0.5, ms, None, None, None, ns, nm, None, None, False)
        r.sigmas = np.array([rng.choice([rng.uniform(1e-8, 3.0), 1e-7, 0.99, r.sigma_0]) for _ in range(K)])
        r.iteration = rng.randint(1, nm * d + 2)
        acc = rng.choice([0.0, 0.005, 0.01, 0.234, 1.0, rng.random()])
        sizes = np.array([int(np.sum(assign == k)) for k in range(K) if np.sum(assign == k) > 0])
        ws = float(np.average(r.sigmas[: len(sizes)], weights=sizes))     # as the code computes it
        steps = r._calculate_adaptive_steps(acc)
        conv = bool(r._check_convergence(acc))
        lines.append(f"steps.F nsteps={ns} nmax={nm} d={d} iter={r.iteration} acc={common.f2hex(acc)} ws={common.f2hex(ws)} s0={common.f2hex(r.sigma_0)}")
        impl.append((steps, conv, ns, nm, d))
    for line, (steps, conv, ns, nm, d), ans in zip(lines, impl, drv.batch(lines)):
        c.case(line, True)
        c.count("converged" if conv else "continue")
        a, b = ans.split(" ")
        if common.hex2f(a) != float(steps) or (b == "1") != conv:
            c.disagree(input=line, impl=[steps, conv], model=ans)
        elif not (min(ns * d, nm * d) <= steps <= nm * d):
            c.disagree(input=line, impl=steps, model=f"bounds [{min(ns * d, nm * d)}, {nm * d}] (adaptiveRaw_bounds)")
    c.sample({"op": lines[0], "impl": impl[0][:2]})
    return c


def correspond(tier):
    drv = common.Driver()
    rng = common.rng_for("C13")
    out = [suite_dispatch(drv, tier), suite_steps(drv, tier)]
    c = Corr("strategy-transparency", "exact (bit-identical fingerprints of paired seeded runs)")
    cases = [("tpcn", False, rng.randrange(2 ** 31)), ("rwm", True, rng.randrange(2 ** 31))]
    if tier == "thorough":
        cases += [(k, b, rng.randrange(2 ** 31)) for k in ("tpcn", "rwm") for b in (False, True) for _ in range(4)]
    for case in cases:
        for name in STRATEGIES:
            if name != "scalar" and not (name.startswith("vector") and case[1]):
                c.case((case, name), True)
                c.count(name)
        for b in transparency_violations([case]):
            c.disagree(input=case, impl=b["what"], model="C13_transparent: identical values whatever the strategy")
    c.sample({"paired strategies": list(STRATEGIES), "case": cases[0]})
    out.append(c)
    c2 = Corr("call-accounting", "exact")
    ccases = [(n, k, b, rng.randrange(2 ** 31)) for n, k, b in
              [("scalar", "tpcn", False), ("vector", "rwm", False), ("threaded", "tpcn", True), ("pool=1", "rwm", True), ("generator", "tpcn", False),
               ("vector+sized", "tpcn", False), ("vector+threadpool", "rwm", False), ("sized", "rwm", True),
               ("executor-newest-first", "tpcn", True)]]
    if tier == "thorough":
        ccases += [(n, k, b, rng.randrange(2 ** 31)) for n in STRATEGIES for k in ("tpcn", "rwm") for b in (False, True) if not (n.startswith("vector") and b)]
    calls_violations(drv, ccases, c2)
    out.append(c2)
    return out


def search(tier, hints):
    drv = common.Driver()
    rng = common.rng_for("C13.search")
    found = calls_violations(drv, [(n, k, False, rng.randrange(2 ** 31)) for n in ("scalar", "vector", "reversed", "vector+sized", "vector+threadpool") for k in ("tpcn", "rwm")])
    if len(found) < 3:
        found += transparency_violations([(k, b, rng.randrange(2 ** 31)) for k in ("tpcn", "rwm") for b in (False, True)])
    return found[:5]


def replay(obj):
    f = obj.get("failing_input", obj)
    if "witness" in f.get("replay", {}):
        from . import witnesses
        return witnesses.ALL[f["replay"]["witness"]]()
    drv = common.Driver()
    b = calls_violations(drv, [(f["strategy"], f["kernel"], f["blobs"], f["seed"])])
    if not b and f["strategy"] != "scalar":
        b = [x for x in transparency_violations([(f["kernel"], f["blobs"], f["seed"])]) if x["strategy"] == f["strategy"]]
    return {"fails": bool(b), "detail": b[:1]}
