"""C13 — likelihood evaluation strategy is transparent; calls are counted exactly."""
import contextlib
import io
import threading
import warnings

import numpy as np

from . import common
from .common import Corr

ID = "C13"
LEAN_MODULES = ["TempestVerif.Props.C13", "TempestVerif.Props.C13LogLike", "TempestVerif.Props.C13Run", "TempestVerif.Props.C13Pipeline",
                "TempestVerif.Props.C13Source", "TempestVerif.Props.C13SourceTie"]
RULE = ("(a) dispatch: the real SamplerCore._get_distribute_func/_log_like for every pool setting (None, 0, 1, 2 (thorough: real "
        "process pool), bool, pool-like objects) x vectorize vs the model interpreting the dispatch table regenerated from source "
        "(which strategy is used, or an error). (b) transparency: seeded real runs with the same pointwise likelihood evaluated "
        "scalar / vectorised / through pool-like objects whose map computes in reversed, shuffled or threaded order but returns in "
        "input order / pool=1 — histories, weights, evidence must be bit-identical (the model's C13_transparent). "
        "(c) calls: an instrumented likelihood counts evaluated points; after every iteration state['calls'] == counted == the "
        "model's accounting over the iteration sequence (warm-up / k steps). Non-trivial = strategy other than plain scalar map, "
        "or an iteration sequence containing both warm-up and mutation. "
        "(d) loglike-assembly: the real SamplerCore._log_like on batches of 0-6 points whose per-point results are drawn from "
        "{number, numpy scalar, int, -inf/nan, tuple or list with 1-3 blobs, 1-tuple, None, ragged, mixed} under every strategy "
        "(serial, pool=0/1/True/negative, pool=int>1 with multiprocess.Pool replaced by a recording pool that evaluates in shuffled "
        "order, reversed/shuffled/threaded/lazy/sized pool doubles, real ThreadPool and ThreadPoolExecutor, a newest-first executor, "
        "vectorised) vs Model.LLEval.logLike run with the OBSERVED evaluation order as the pool's completion order: outcome class, "
        "logl bits, blobs shape and cells, and the multiset of evaluated points must agree; the property's own oracle (values = serial "
        "reference, evaluations = batch size) is checked on every case. Non-trivial = not (serial and all numbers). "
        "(e) function-wrapper: FunctionWrapper built by Sampler from log_likelihood_args/kwargs in {None, empty, non-empty} called "
        "directly and through _log_like under 4 strategies vs Model.LLEval.Wrapper. (f) evaluate-likelihood: "
        "BaseMCMCRunner._evaluate_likelihood with / without blobs vs the model (counter increment, blobs handed on). "
        "(g) whole-run: Sampler.run() to completion (n_particles 15/16, n_steps/n_max_steps in {1..3}x{2..6}, both kernels, blobs, a "
        "likelihood with a -inf region so the warm-up replacement fires, every strategy), optionally resumed from a mid-run checkpoint "
        "written by save_every (also with the `calls` entry removed, as in an old state file): per-iteration history of `calls`, the "
        "row count of every batch handed to _log_like in order, and the instrumented likelihood's counter vs Model.CallsRun.runSampling "
        "on the scripted instance. Non-trivial = contains warm-up and annealing iterations. "
        "(h) pipeline-replay-under-strategies: C01's whole-pipeline trace replay (tape = pointwise likelihood values computed by the "
        "harness) with the traced real sampler evaluating through a pool / vectorised strategy: the Lean pipeline model must reproduce "
        "beta, ESS, logZ, resampled indices, accept masks and the committed batches (logl bit for bit).")
MODELLED = ["a pool's map is assumed to return results in input order (contract of multiprocessing-style pools); the worker-side "
            "completion order is exercised (reversed/shuffled/threaded doubles) but a pool violating the contract is out of scope",
            "a user's vectorised likelihood is assumed pointwise identical to its scalar form (hypothesis hvec); its return value is "
            "handed on unconverted (no float64 cast), which is part of that hypothesis",
            "a pool is modelled as: every task of the batch completes exactly once, in an arbitrary order, and map returns the result "
            "of task i in position i (Model.LLEval.poolMap; that this IS the serial map is proved, not assumed); pools that retry or drop "
            "tasks are outside the model",
            "blobs: plain dtypes only in the model (k cells per point, k = 1 squeezed); structured / sub-array / object dtypes are "
            "C07's real-run coherence suite; np.array / float() conversions are the identity on the tokens the model sees",
            "the numerical parts of the sampler are opaque functions in Model.CallsRun.Algo (they see states and likelihood values only); "
            "that the real sampler has no other path to the likelihood or to the counter is discharged statically by the regenerated "
            "source facts (C13_calls_frame, C13_source_one_evaluation_per_site) and dynamically by suite whole-run",
            "dill round trip of the `calls` entry through save/load (C08's theorems and suites); exercised here by real resumed runs"]
ASSUMPTIONS = ["likelihood is deterministic (a pure function of the point and the extra arguments)",
               "neither the likelihood nor the pool draws from or reseeds numpy's global generator (the sampler's own stream is then the same "
               "under every strategy; the pool doubles that randomise their evaluation order use private generators)",
               "a pool's map evaluates the function exactly once per element and returns the results in input order (checked on every pool "
               "double, on multiprocessing.pool.ThreadPool and on concurrent.futures executors in suites loglike-assembly / whole-run)"]


def translators():
    from translate import g6_dispatch, g21_loglike
    return [g6_dispatch.generate(), g21_loglike.generate()]


def _quiet():
    return contextlib.redirect_stdout(io.StringIO())


TARGETS = ("gauss", "hole", "corner", "tiny", "nan", "posinf", "mixed")       # all need n_dim = 2
# ensemble shapes (n_dim, n_particles or None = the package default 2*n_dim, n_steps, n_max_steps); the first is the standard one
STD_SHAPE = (2, 16, 1, 2)
TINY_SHAPES = ((1, None, 2, 4), (2, None, 2, 4), (1, 3, 1, 2), (1, 4, 2, 4))
NONFINITE_TARGETS = ("nan", "posinf", "mixed")


class CountingLike:
    """pointwise identical scalar / vectorised likelihood with an evaluation counter (thread-safe).  Targets:
    `gauss` — interior Gaussian;  `hole` — a region of the prior has likelihood 0 (−inf), so the warm-up replacement branch fires;
    `corner` — a narrow Gaussian in a corner of the prior cube, so proposals leave the cube through its hard boundary;
    `tiny` — the likelihood is finite on ~2 % of the prior only, so most warm-up batches of 12-16 draws have NO finite draw and the
    warm-up branch redraws (`while np.all(np.isinf(logl))`);
    `nan` — NaN on a region of the prior (a log outside its domain);  `posinf` — +inf on a small region;  `mixed` — NaN, −inf and +inf
    regions.  With non-finite values a run degenerates (NaN weights / evidence, beta may stay 0) — but identically under every
    strategy, bit for bit, NaN positions included: the fault values are values like any other."""

    def __init__(self, blobs=False, target="gauss"):
        if target is True:
            target = "hole"
        elif target is False or target is None:
            target = "gauss"
        self.n = 0
        self.blobs = blobs
        self.target = target
        self.lock = threading.Lock()
        if target == "hole":
            self.f = self.f_hole
        elif target == "corner":
            self.f = self.f_corner
        elif target == "tiny":
            self.f = self.f_tiny
        elif target == "edge":
            self.f = self.f_edge
        elif target in NONFINITE_TARGETS:
            self.f = {"nan": self.f_nan, "posinf": self.f_posinf, "mixed": self.f_mixed}[target]

    @staticmethod
    def f(x):
        return -0.5 * float(np.sum((x - 0.3) ** 2)) * 2.5

    @staticmethod
    def f_hole(x):
        return -np.inf if x[0] < -1.2 else -0.5 * float(np.sum((x - 0.3) ** 2)) * 2.5

    @staticmethod
    def f_corner(x):
        return -0.5 * float(np.sum((x - 2.9) ** 2)) * 4.0

    @staticmethod
    def f_edge(x):
        """narrow Gaussian centred ON the corner u = 0 of the prior cube (any n_dim): with a tiny ensemble whole steps have every
        proposal outside the cube"""
        return -0.5 * float(np.sum((x + 3.0) ** 2)) / 0.09

    @staticmethod
    def f_nan(x):
        with np.errstate(all="ignore"):
            return float(-0.5 * np.sum((x - 0.3) ** 2) * 2.5 + 0.25 * np.log(x[0] + 2.0))      # NaN for x0 < -2 (1/6 of the prior)

    @staticmethod
    def f_posinf(x):
        return np.inf if (x[0] > 2.5 and x[1] > 2.0) else -0.5 * float(np.sum((x - 0.3) ** 2)) * 2.5

    @staticmethod
    def f_mixed(x):
        if x[0] < -2.2:
            return np.nan
        if x[1] < -2.0:
            return -np.inf
        if x[0] > 2.7 and x[1] > 2.5:
            return np.inf
        return -0.5 * float(np.sum((x - 0.3) ** 2)) * 2.5

    @staticmethod
    def f_tiny(x):
        return -0.5 * float(np.sum((x - 0.3) ** 2)) * 2.5 if (abs(x[0] - 0.3) < 0.45 and abs(x[1] - 0.3) < 0.45) else -np.inf

    def scalar(self, x):
        with self.lock:
            self.n += 1
        return (self.f(x), float(x[0]) * 2.0 + 1.0) if self.blobs else self.f(x)

    def vector(self, X):
        with self.lock:
            self.n += len(X)
        return np.array([self.f(r) for r in X])


class ReversedPool:
    def map(self, f, xs):
        xs = list(xs)
        out = [f(x) for x in reversed(xs)]
        return list(reversed(out))


class ShuffledPool:
    def __init__(self, seed=3):
        self.rng = np.random.RandomState(seed)     # private: must not disturb the global stream

    def map(self, f, xs):
        xs = list(xs)
        order = self.rng.permutation(len(xs))
        out = [None] * len(xs)
        for i in order:
            out[i] = f(xs[i])
        return out


class ThreadedPool:
    def map(self, f, xs):
        xs = list(xs)
        out = [None] * len(xs)

        def work(i):
            out[i] = f(xs[i])
        ts = [threading.Thread(target=work, args=(i,)) for i in range(len(xs))]
        for t in reversed(ts):
            t.start()
        for t in ts:
            t.join()
        return out


class GeneratorPool:
    """returns a lazy iterator, like imap-style pools / builtin map"""

    def map(self, f, xs):
        return (f(x) for x in xs)


class MPLikePool:
    """the API surface of multiprocessing.pool.Pool: `map` / `imap` keep input order, `imap_unordered` yields in completion order
    (here: reversed), `map_async(...).get()` keeps input order; work is done newest-first"""
    _processes = 3

    def map(self, f, xs, chunksize=None):
        xs = list(xs)
        return list(reversed([f(x) for x in reversed(xs)]))

    def imap(self, f, xs, chunksize=1):
        return iter(self.map(f, xs))

    def imap_unordered(self, f, xs, chunksize=1):
        return iter([f(x) for x in reversed(list(xs))])

    def map_async(self, f, xs, chunksize=None, callback=None, error_callback=None):
        out = self.map(f, xs)

        class _R:
            def get(self, timeout=None):
                return out

            def ready(self):
                return True

            def wait(self, timeout=None):
                return None
        return _R()

    def starmap(self, f, xs, chunksize=None):
        return self.map(lambda a: f(*a), xs)

    def apply_async(self, f, args=(), kwds=None, callback=None, error_callback=None):
        out = f(*args, **(kwds or {}))

        class _R:
            def get(self, timeout=None):
                return out
        return _R()

    def close(self):
        pass

    def join(self):
        pass


class SizedPool(ReversedPool):
    """a pool-like object that advertises its number of workers the way multiprocessing / schwimmbad / executor pools do
    (a dispatch that splits work per worker must still evaluate — and count — exactly the requested points)"""
    size = 5
    _processes = 5
    _max_workers = 5


class NewestFirstExecutor(__import__("concurrent.futures").futures.Executor):
    """a concurrent.futures executor with one worker that always runs the most recently submitted task first: tasks of a
    batch COMPLETE in reverse order, while `Executor.map` (inherited) still yields results in submission order"""

    def __init__(self, delay=0.002):
        self._delay, self._lock, self._tasks, self._worker = delay, threading.Lock(), [], None

    def submit(self, fn, /, *args, **kwargs):
        from concurrent.futures import Future
        fut = Future()
        with self._lock:
            self._tasks.append((fut, fn, args, kwargs))
            if self._worker is None:
                self._worker = threading.Timer(self._delay, self._drain)
                self._worker.daemon = True
                self._worker.start()
        return fut

    def _drain(self):
        while True:
            with self._lock:
                if not self._tasks:
                    self._worker = None
                    return
                fut, fn, args, kwargs = self._tasks.pop()
            if not fut.set_running_or_notify_cancel():
                continue
            try:
                fut.set_result(fn(*args, **kwargs))
            except BaseException as exc:  # noqa
                fut.set_exception(exc)


def _thread_executor():
    from concurrent.futures import ThreadPoolExecutor
    return ThreadPoolExecutor(3)


def _thread_pool():
    from multiprocessing.pool import ThreadPool
    return ThreadPool(3)


class RecordingIntPool:
    """stands in for `multiprocess.Pool` when `pool` is an int > 1 (the class is swapped in for the duration of a run): records
    every construction and evaluates the batch in a shuffled order, returning results in input order"""
    created = []

    def __init__(self, k):
        RecordingIntPool.created.append(k)
        self.rng = np.random.RandomState(1000 + len(RecordingIntPool.created))     # private stream

    def map(self, f, xs):
        xs = list(xs)
        out = [None] * len(xs)
        for i in self.rng.permutation(len(xs)):
            out[i] = f(xs[i])
        return out


@contextlib.contextmanager
def int_pool_patched():
    import multiprocess
    RecordingIntPool.created = []
    with common.patched(multiprocess, "Pool", RecordingIntPool):
        yield RecordingIntPool.created


STRATEGIES = {
    "scalar": dict(vectorize=False, pool=None),
    "pool=2": dict(vectorize=False, pool=2),
    "pool=3": dict(vectorize=False, pool=3),
    "pool=7": dict(vectorize=False, pool=7),
    "pool=True": dict(vectorize=False, pool=True),
    "pool=-2": dict(vectorize=False, pool=-2),
    "vector+pool=3": dict(vectorize=True, pool=3),
    "mp-like": dict(vectorize=False, pool=MPLikePool),
    "threadpool": dict(vectorize=False, pool=_thread_pool),
    "vector+sized": dict(vectorize=True, pool=SizedPool),
    "vector+threadpool": dict(vectorize=True, pool=_thread_pool),
    "sized": dict(vectorize=False, pool=SizedPool),
    "executor-newest-first": dict(vectorize=False, pool=NewestFirstExecutor),
    "executor-threads": dict(vectorize=False, pool=_thread_executor),
    "vector": dict(vectorize=True, pool=None),
    "pool=1": dict(vectorize=False, pool=1),
    "reversed": dict(vectorize=False, pool=ReversedPool),
    "shuffled": dict(vectorize=False, pool=ShuffledPool),
    "threaded": dict(vectorize=False, pool=ThreadedPool),
    "generator": dict(vectorize=False, pool=GeneratorPool),
}


def _run(strategy, kernel, blobs, seed, n_iter=None, n_total=48, hole="gauss", observe=False, shape=None):
    with int_pool_patched():
        return _run_inner(strategy, kernel, blobs, seed, n_iter, n_total, hole, observe, tuple(shape) if shape else STD_SHAPE)


def _run_inner(strategy, kernel, blobs, seed, n_iter=None, n_total=48, hole="gauss", observe=False, shape=STD_SHAPE):
    """One seeded run driven through the PUBLIC API only: the constructor, `Sampler.sample()`, `Sampler.state` (StateManager's public
    set_current / get_history / compute_logw_and_logz) and an instrumented USER likelihood.  The state is initialised the way a fresh run
    does (iter, calls, beta, logz) through the public StateManager; the loop is the harness's own fixed protocol (iterate until beta has
    reached 1 for three iterations, at most 40) — identical for every strategy, so it does not matter whether it is the sampler's own
    stopping rule.  Nothing private is called or wrapped, so the property oracles cannot be broken by a signature change.
    `observe=True` (correspondence suites ONLY) additionally wraps the mutator's likelihood hook, with pass-through of whatever
    arguments it is given, to count the batches per iteration."""
    from tempest import Sampler
    st = STRATEGIES[strategy]
    like = CountingLike(blobs, hole)
    pool = st["pool"]
    if isinstance(pool, type) or callable(pool) and not hasattr(pool, "map"):
        pool = pool()
    d_, n_, ns_, nm_ = shape
    s = Sampler(lambda u: 6.0 * u - 3.0, like.vector if st["vectorize"] else like.scalar, d_, n_particles=n_,
                clustering=False, sample=kernel, resample="mult", vectorize=st["vectorize"], pool=pool,
                blobs_dtype=("f8" if blobs else None), n_steps=ns_, n_max_steps=nm_)
    trace = []
    batches = []
    if observe:
        orig_ll = s._core.mutator.log_likelihood

        def rec_ll(x, *args, **kwargs):
            batches.append(len(x))
            return orig_ll(x, *args, **kwargs)
        s._core.mutator.log_likelihood = rec_ll
    np.random.seed(seed)
    with _quiet(), warnings.catch_warnings():
        warnings.simplefilter("ignore")
        for key, v0 in (("iter", 0), ("calls", 0), ("beta", 0.0), ("logz", 0.0)):
            s.state.set_current(key, v0)
        k = at_one = 0
        while k < 40 and at_one < 3:
            cur = s.sample()
            k += 1
            trace.append((float(cur["beta"]), int(cur["steps"]), int(cur["calls"]), like.n, len(batches) if observe else None))
            if 1.0 - float(cur["beta"]) < 1e-4:
                at_one += 1
    if hasattr(pool, "terminate"):
        pool.terminate()
        pool.join()
    elif hasattr(pool, "shutdown") and not isinstance(pool, NewestFirstExecutor):
        pool.shutdown(wait=False)
    st_ = s.state

    def bits(a):
        """bit pattern of a float array with every NaN mapped to ONE canonical NaN (NaN-aware exact comparison: positions of NaN
        matter, payload / sign of a NaN do not); -0.0 / 0.0, +-inf and all finite values are compared bit for bit"""
        a = np.array(a, dtype=float, copy=True)
        a[np.isnan(a)] = np.nan
        return a.tobytes().hex()
    with warnings.catch_warnings():
        warnings.simplefilter("ignore")
        logw1, logz1 = st_.compute_logw_and_logz(1.0)
    fp = common.digest([bits(st_.get_history("u", flat=True)), bits(st_.get_history("x", flat=True)), bits(st_.get_history("logl", flat=True)),
                        bits(st_.get_history("beta")), bits(st_.get_history("logz")), bits(st_.get_history("calls")),
                        bits(logw1), bits([logz1])])
    return fp, trace


def suite_dispatch(drv, tier):
    from tempest import Sampler
    c = Corr("dispatch-table", "exact")

    class NoMap:
        pass
    # (old model tag or None, new model tag, pool value)
    pools = [("none", "none", None), ("int:0", "int:0", 0), ("int:1", "int:1", 1), ("int:1", "int:1", True), (None, "int:0", False),
             (None, "int:-1", -1), (None, "int:-7", -7), (None, "int:2", 2), (None, "int:3", 3), (None, "int:64", 64),
             (None, "int:1000000", 10 ** 6), ("obj", "obj:1", ReversedPool()), ("obj", "obj:1", GeneratorPool()), ("obj", "obj:1", SizedPool()),
             (None, "obj:0", NoMap()), (None, "obj:0", 2.0), (None, "obj:0", "4"), (None, "obj:0", np.int64(3))]
    lines, impl = [], []
    for vec in (False, True):
        for old, new, pool in pools:
            like = CountingLike()
            with int_pool_patched() as created:
                try:
                    s = Sampler(lambda u: u, like.vector if vec else like.scalar, 2, n_particles=4, clustering=False, vectorize=vec, pool=pool)
                    X = np.array([[0.1, 0.2], [0.3, 0.4], [0.5, 0.6]])
                    with warnings.catch_warnings():
                        warnings.simplefilter("ignore")
                        l, b = s._core._log_like(X)
                    how = "direct" if vec else ("map" if not created and not hasattr(pool, "map") else
                                                (f"newPool:{created[0]}" if len(created) == 1 else ("objMap" if not created else f"pools{list(created)}")))
                    ok_vals = np.array_equal(l, np.array([CountingLike.f(r) for r in X])) and like.n == 3 and b is None
                    if not ok_vals:
                        how += ":wrong-values"
                except AttributeError:
                    how = "error"
                except Exception as e:  # noqa
                    how = f"raised {type(e).__name__}"
            for line in ([f"disp.how vec={int(vec)} pool={old}"] if old else []) + [f"disp.howV vec={int(vec)} pool={new}"]:
                lines.append(line)
                impl.append({"newPool": "poolMap", "objMap": "poolMap"}.get(how.split(":")[0], how) if line.startswith("disp.how ") else how)
    if tier == "thorough":
        # one real process pool (the counter is advanced in the workers, so only the values are compared)
        like = CountingLike()
        s = Sampler(lambda u: u, like.scalar, 2, n_particles=4, clustering=False, pool=2)
        X = np.array([[0.1, 0.2], [0.3, 0.4], [0.5, 0.6]])
        l, _ = s._core._log_like(X)
        lines.append("disp.howV vec=0 pool=int:2")
        impl.append("newPool:2" if np.array_equal(l, np.array([CountingLike.f(r) for r in X])) else "newPool:2:wrong-values")
    # the quantifier's `vectorize x blobs` corner: rejected at construction (C18_reject_vectorize_blobs), so it cannot reach _log_like
    try:
        Sampler(lambda u: u, CountingLike().vector, 2, n_particles=4, clustering=False, vectorize=True, blobs_dtype="f8")
        rejected = "accepted"
    except ValueError as e:
        rejected = "rejected" if "Cannot vectorize likelihood with blobs" in str(e) else f"ValueError {e}"
    c.case("vectorize+blobs", True)
    c.count("vectorize+blobs:" + rejected)
    if rejected != "rejected":
        c.disagree(input="Sampler(vectorize=True, blobs_dtype='f8')", impl=rejected, model="rejected (Props.C18.C18_reject_vectorize_blobs)")
    for line, i, m in zip(lines, impl, drv.batch(lines)):
        c.case(line + i, "none" not in line)
        c.count(i)
        if i != m:
            c.disagree(input=line, impl=i, model=m)
        c.sample({"op": line, "impl": i, "model": m})
    return c


def _case_target(case):
    t = case[3] if len(case) > 3 else "gauss"
    return {True: "hole", False: "gauss", None: "gauss"}.get(t, t)


def run_property_violations(cases, strategies=None, oracles=("calls", "transparency")):
    """THE PROPERTY ORACLES, on the real code only (no model involved).  cases: (kernel, blobs, seed, target).
      calls:         after every iteration state['calls'] == number of points at which the instrumented user likelihood was actually
                     evaluated (vectorised batches count their rows), under every strategy;
      transparency:  for the same seed the run under every strategy has the same histories / weights / evidence as under scalar
                     evaluation (bit-identical fingerprints)."""
    bad = []
    for case in cases:
        kernel, blobs, seed = case[:3]
        target = _case_target(case)
        shape = tuple(case[4]) if len(case) > 4 and case[4] else STD_SHAPE
        names = [n for n in (strategies or STRATEGIES) if not (n.startswith("vector") and blobs)]
        if "scalar" not in names:
            names = ["scalar"] + names
        names.sort(key=lambda n: n != "scalar")
        ref = None
        for name in names:
            base = {"strategy": name, "kernel": kernel, "blobs": blobs, "seed": seed, "target": target, "shape": list(shape)}
            try:
                fp, trace = _run(name, kernel, blobs, seed, hole=target, shape=shape)
            except Exception as e:  # noqa
                if name != "scalar" and ref is not None and "transparency" in oracles:
                    bad.append(dict(base, oracle="transparency", what=f"scalar evaluation runs, strategy `{name}` raised {type(e).__name__}: {e}"))
                continue
            if name == "scalar":
                ref = (fp, trace)
            if "calls" in oracles:
                for k, (beta, steps, calls, counted, _nb) in enumerate(trace):
                    if calls != counted:
                        bad.append(dict(base, oracle="calls", what=f"strategy `{name}`, after iteration {k + 1}: state['calls']={calls} but the "
                                        f"user's likelihood was actually evaluated at {counted} points"))
                        break
            if "transparency" in oracles and name != "scalar" and ref is not None and fp != ref[0]:
                first = next((i for i, (x, y) in enumerate(zip(ref[1], trace)) if repr(x[:3]) != repr(y[:3])), None)
                bad.append(dict(base, oracle="transparency", what=f"strategy `{name}` and scalar evaluation give different histories/weights/"
                                f"evidence for the same seed (first differing iteration: {first})"))
    return bad


def transparency_violations(cases, strategies=None):
    return run_property_violations(cases, strategies, oracles=("transparency",))


def calls_correspondence(drv, cases, corr):
    """MODEL vs CODE (never a failing input by itself): the accounting model over the observed iteration sequence against
    state['calls']; the adaptive step counts against the proved bounds; plus the property oracle, so that a violated property also
    breaks this obligation"""
    lines, recs = [], []
    for case in cases:
        name, kernel, blobs, seed = case[:4]
        target = case[4] if len(case) > 4 else "gauss"
        shape = tuple(case[5]) if len(case) > 5 else STD_SHAPE
        d_, n_, ns_, nm_ = shape
        n_ = 2 * d_ if n_ is None else n_
        try:
            _, trace = _run(name, kernel, blobs, seed, hole=target, observe=True, shape=shape)
        except Exception as e:  # noqa
            if target in NONFINITE_TARGETS or (shape != STD_SHAPE and type(e).__name__ == "LinAlgError"):
                # degenerate weights / a collapsed 2-4 particle ensemble may abort a run; not a statement of C13
                corr.count("degenerate case: run raised " + type(e).__name__)
            else:
                corr.disagree(input=case, impl=f"run raised {type(e).__name__}: {e}", model="runs")
            continue
        ops, nb_prev = [], 0
        for k, (beta, steps, calls, counted, nb) in enumerate(trace):
            # the op-list model counts per evaluated batch: a warm-up iteration with r redraws is r + 1 `w`
            ops += ["w"] * (nb - nb_prev) if beta == 0.0 else [f"m:{steps}"]
            if beta == 0.0 and nb - nb_prev > 1:
                corr.count("warmup_redraws", nb - nb_prev - 1)
            if beta != 0.0 and nb - nb_prev != steps:
                corr.disagree(input=case, impl=f"iteration {k + 1}: {nb - nb_prev} batches evaluated in {steps} steps", model="one batch per step")
            nb_prev = nb
            if beta != 0.0 and not (min(ns_ * d_, nm_ * d_) <= steps <= max(1, nm_ * d_)):
                corr.disagree(input=case, impl=f"iteration {k + 1}: {steps} accept/reject steps",
                              model=f"within [{min(ns_ * d_, nm_ * d_)}, {max(1, nm_ * d_)}] (C13_steps_bounded_from_start)")
            lines.append(f"calls.run np={n_} nw={n_} ops={';'.join(ops)}")
            recs.append((name, kernel, blobs, seed, k, calls, counted, len(ops) > 1 and "w" in ops and any(o != "w" for o in ops)))
            if k == 0:
                corr.count("target:" + target)
                corr.count(f"shape:d={d_} n={n_}{' (default)' if shape[1] is None else ''}")
    for (name, kernel, blobs, seed, k, calls, counted, nontriv), line, ans in zip(recs, lines, drv.batch(lines)):
        corr.case(line + name + kernel, nontriv or name != "scalar")
        corr.count(name)
        toks = ans.split(" ")
        mcalls = int(toks[0]) if toks[0].isdigit() else None
        if mcalls != calls:
            corr.disagree(input=line, impl={"calls": calls}, model=ans, strategy=name, kind="model-vs-code")
        if calls != counted:
            corr.disagree(input=line, impl={"calls": calls, "counted": counted}, model="calls == points evaluated", strategy=name, kind="property")
    if recs:
        corr.sample({"op": lines[-1], "impl_calls": recs[-1][5], "counted": recs[-1][6]})


def suite_steps(drv, tier):
    """the adaptive stopping rule of the mutation loop: real _calculate_adaptive_steps / _check_convergence vs the Float model (bit-exact),
    and the proved bounds min(n_steps d, n_max d) <= steps <= max(1, n_max d) on real mutations"""
    import tempest.mcmc as mcmc
    from tempest.modes import ModeStatistics
    c = Corr("adaptive-steps", "bit-exact Float")
    rng = common.rng_for("C13.steps")
    lines, impl = [], []
    for _ in range(400 if tier == "quick" else 6000):
        d = rng.randint(1, 5)
        K = rng.randint(1, 3)
        n = rng.randint(K, 12)
        ns, nm = rng.randint(1, 6), rng.randint(1, 30)
        ms = ModeStatistics(np.zeros((K, d)), np.array([np.eye(d)] * K), np.full(K, 3.0))
        assign = np.array([rng.randrange(K) for _ in range(n)])
        kind = rng.choice([mcmc.RWMRunner, mcmc.TPCNRunner])
        r = kind(np.full((n, d), 0.5), np.zeros((n, d)), np.zeros(n), None, assign, 0.5, ms, None, None, None, ns, nm, None, None, False)
        r.sigmas = np.array([rng.choice([rng.uniform(1e-8, 3.0), 1e-7, 0.99, r.sigma_0]) for _ in range(K)])
        r.iteration = rng.randint(1, nm * d + 2)
        acc = rng.choice([0.0, 0.005, 0.01, 0.234, 1.0, rng.random()])
        sizes = np.array([int(np.sum(assign == k)) for k in range(K) if np.sum(assign == k) > 0])
        ws = float(np.average(r.sigmas[: len(sizes)], weights=sizes))     # as the code computes it
        steps = r._calculate_adaptive_steps(acc)
        conv = bool(r._check_convergence(acc))
        lines.append(f"steps.F nsteps={ns} nmax={nm} d={d} iter={r.iteration} acc={common.f2hex(acc)} ws={common.f2hex(ws)} s0={common.f2hex(r.sigma_0)}")
        impl.append((steps, conv, ns, nm, d))
    for line, (steps, conv, ns, nm, d), ans in zip(lines, impl, drv.batch(lines)):
        c.case(line, True)
        c.count("converged" if conv else "continue")
        a, b = ans.split(" ")
        if common.hex2f(a) != float(steps) or (b == "1") != conv:
            c.disagree(input=line, impl=[steps, conv], model=ans)
        elif not (min(ns * d, nm * d) <= steps <= nm * d):
            c.disagree(input=line, impl=steps, model=f"bounds [{min(ns * d, nm * d)}, {nm * d}] (adaptiveRaw_bounds)")
    c.sample({"op": lines[0], "impl": impl[0][:2]})
    return c


# ----------------------------------------------------------------------------- value level: _log_like under every strategy
class _Shared:
    """pools that are expensive to create are shared by all cases of a suite"""
    tp = None
    ex = None

    @classmethod
    def thread_pool(cls):
        if cls.tp is None:
            cls.tp = _thread_pool()
        return cls.tp

    @classmethod
    def executor(cls):
        if cls.ex is None:
            cls.ex = _thread_executor()
        return cls.ex

    @classmethod
    def close(cls):
        if cls.tp is not None:
            cls.tp.terminate()
            cls.tp.join()
            cls.tp = None
        if cls.ex is not None:
            cls.ex.shutdown(wait=False)
            cls.ex = None


# name -> (vectorize, pool factory, how the model is told the batch was evaluated)
LL_STRATEGIES = {
    "serial": (False, lambda: None, "map"),
    "pool=0": (False, lambda: 0, "map"),
    "pool=1": (False, lambda: 1, "map"),
    "pool=True": (False, lambda: True, "map"),
    "pool=-4": (False, lambda: -4, "map"),
    "pool=2": (False, lambda: 2, "newPool:2"),
    "pool=5": (False, lambda: 5, "newPool:5"),
    "reversed": (False, ReversedPool, "objMap"),
    "shuffled": (False, ShuffledPool, "objMap"),
    "threaded": (False, ThreadedPool, "objMap"),
    "generator": (False, GeneratorPool, "objMap"),
    "sized": (False, SizedPool, "objMap"),
    "mp-like": (False, MPLikePool, "objMap"),
    "threadpool": (False, _Shared.thread_pool, "objMap"),
    "executor-threads": (False, _Shared.executor, "objMap"),
    "executor-newest-first": (False, NewestFirstExecutor, "objMap"),
    "vector": (True, lambda: None, "direct"),
    "vector+sized": (True, SizedPool, "direct"),
    "vector+pool=4": (True, lambda: 4, "direct"),
}


def _gen_results(rng, n):
    """per-point results of a batch of n points; returns (kind, [python objects])"""
    def num():
        v = rng.choice([rng.randint(-64, 64) / 8.0, rng.uniform(-50, 5), -0.0, 1e-300, -1e300])
        return rng.choice([float(v), float(v), np.float64(v), (np.float32(v) if abs(v) < 1e30 else np.float64(v)), int(v) if float(v).is_integer() and abs(v) < 1e6 else float(v)])
    kind = rng.choice(["vals", "vals", "vals-special", "blobs1", "blobs2", "blobs3", "blobs-list", "mixed-first-val", "mixed-first-blob",
                       "one-tuples", "none", "ragged", "blob-then-one-tuple"])
    if kind == "vals":
        return kind, [num() for _ in range(n)]
    if kind == "vals-special":
        return kind, [rng.choice([num(), -np.inf, np.nan, True, np.inf]) for _ in range(n)]
    if kind in ("blobs1", "blobs2", "blobs3"):
        k = int(kind[-1])
        return kind, [tuple([num()] + [rng.randint(-32, 32) / 4.0 for _ in range(k)]) for _ in range(n)]
    if kind == "blobs-list":
        k = rng.randint(1, 3)
        return kind, [[num()] + [rng.randint(-32, 32) / 4.0 for _ in range(k)] for _ in range(n)]
    if kind == "mixed-first-val":
        out = [num() for _ in range(n)]
        if n > 1:
            out[rng.randrange(1, n)] = (num(), 1.5)
        return kind, out
    if kind == "mixed-first-blob":
        out = [(num(), 2.5) for _ in range(n)]
        if n > 1:
            out[rng.randrange(1, n)] = num()
        return kind, out
    if kind == "one-tuples":
        return kind, [(num(),) for _ in range(n)]
    if kind == "none":
        out = [num() for _ in range(n)]
        if n:
            out[rng.randrange(n)] = None
        return kind, out
    if kind == "ragged":
        out = [(num(), 1.0, 2.0) for _ in range(n)]
        if n > 1:
            out[rng.randrange(1, n)] = (num(), 1.0)
        return kind, out
    out = [(num(), 3.0) for _ in range(n)]            # blob-then-one-tuple
    if n > 1:
        out[rng.randrange(1, n)] = (num(),)
    return kind, out


def _res_token(r):
    if isinstance(r, (tuple, list)):
        if len(r) == 0:
            return "b"
        return f"s:{common.f2hex(float(r[0]))}:{','.join(common.f2hex(float(b)) for b in r[1:])}"
    if r is None:
        return "b"
    return f"v:{common.f2hex(float(r))}"


def _ll_real(strategy, results, blobs_dtype):
    """run the REAL _log_like on a batch whose point i returns results[i]; returns (outcome string in the model's format, log)"""
    from tempest import Sampler
    vec, factory, _how = LL_STRATEGIES[strategy]
    n = len(results)
    log, lock = [], threading.Lock()

    def like(x):
        i = int(x[0])
        with lock:
            log.append(i)
        return results[i]

    def like_vec(X):
        with lock:
            log.extend(int(r[0]) for r in X)
        return np.array([float(results[int(r[0])]) for r in X])
    X = np.array([[float(i), 0.5] for i in range(n)]).reshape(n, 2)
    pool = factory()
    with int_pool_patched() as created, warnings.catch_warnings():
        warnings.simplefilter("ignore")
        s = Sampler(lambda u: u, like_vec if vec else like, 2, n_particles=4, clustering=False, vectorize=vec, pool=pool,
                    blobs_dtype=blobs_dtype)
        try:
            l, b = s._core._log_like(X)
        except Exception as e:  # noqa
            return "error", list(log), list(created), f"{type(e).__name__}: {e}"
        created = list(created)
    if not isinstance(l, np.ndarray) or l.dtype != np.float64 or l.shape != (n,):
        return f"ok-but-logl-is {type(l).__name__} {getattr(l, 'dtype', None)} {getattr(l, 'shape', None)}", list(log), created, ""
    if b is None:
        bs = "none"
    elif b.ndim == 1:
        bs = "single:" + common.flist(b, lambda v: common.f2hex(float(v)))
    elif b.ndim == 2:
        bs = f"rows:{b.shape[1]}:" + "|".join(common.flist(row, lambda v: common.f2hex(float(v))) for row in b)
    else:
        bs = f"shape{b.shape}"
    return f"ok logl={common.flist(l, common.f2hex)} blobs={bs}", list(log), created, ""


def suite_assembly(drv, tier):
    c = Corr("loglike-assembly", "exact (outcome class, logl bit patterns, blobs shape and cells, evaluated points)")
    rng = common.rng_for("C13.assembly")
    names = list(LL_STRATEGIES)
    lines, recs = [], []
    try:
        for k in range(700 if tier == "quick" else 6000):
            strategy = names[k % len(names)] if k < 4 * len(names) else rng.choice(names)
            vec, _f, how = LL_STRATEGIES[strategy]
            n = rng.choice([0, 1, 2, 3, 3, 4, 5, 6])
            kind, results = _gen_results(rng, n)
            if vec and kind not in ("vals", "vals-special"):
                kind, results = "vals", [rng.randint(-64, 64) / 8.0 for _ in range(n)]
            bd = rng.choice([None, "f8"]) if not vec else None
            got, log, created, err = _ll_real(strategy, results, bd)
            res = ";".join(_res_token(r) for r in results) if results else "-"
            vtok = common.flist([float(r) for r in results], common.f2hex) if vec else "-"
            sched = common.flist(log, str) if how in ("objMap",) or how.startswith("newPool") else "-"
            lines.append(f"ll.eval how={how} sched={sched} res={res} vec={vtok}")
            recs.append((strategy, kind, n, bd, got, log, created, err, results))
        answers = drv.batch(lines)
    finally:
        _Shared.close()
    for line, (strategy, kind, n, bd, got, log, created, err, results), ans in zip(lines, recs, answers):
        nontrivial = not (strategy == "serial" and kind == "vals")
        c.case((strategy, line, bd), nontrivial)
        c.count("strategy:" + strategy)
        c.count("results:" + kind)
        c.count(f"n={n}")
        c.count("outcome:" + ("error" if got == "error" else "ok"))
        expect = got if got == "error" else f"{got} log={common.flist(log, str)}"
        pools_expected = [int(strategy.split("=")[1])] if strategy.startswith("pool=") and strategy[5:].isdigit() and int(strategy[5:]) > 1 else []
        if ans != expect:
            c.disagree(input=line, impl=expect + (" " + err if err else ""), model=ans, strategy=strategy, blobs_dtype=bd)
        elif got != "error" and sorted(log) != list(range(n)):
            c.disagree(input=line, impl=f"evaluated at {sorted(log)}", model=f"C13_logLike_evaluates_batch: a permutation of 0..{n - 1}", strategy=strategy)
        elif created != pools_expected:
            c.disagree(input=line, impl=f"multiprocess.Pool constructed with {created}", model=f"C13_pools_created: {pools_expected}", strategy=strategy)
        if nontrivial:
            c.sample({"op": line, "strategy": strategy, "impl": expect, "model": ans})
    return c


def suite_wrapper(drv, tier):
    """FunctionWrapper as built by Sampler, called directly and through _log_like under four strategies"""
    from tempest import Sampler
    c = Corr("function-wrapper", "exact (arguments the user's function receives; values through _log_like)")
    lines, recs = [], []
    arg_forms = [("none", None), ("-", []), ("a1", [1.5]), ("a2", [0.25, 2.0]), ("a1", (1.5,))]
    kw_forms = [("none", None), ("-", {}), ("k1", {"scale": 2.0}), ("k2", {"scale": 0.5, "shift": 1.0})]
    for (atag, a) in arg_forms:
        for (ktag, kw) in kw_forms:
            for via in ("direct", "serial", "reversed", "pool=3", "vector"):
                seen = []

                def user(x, *args, **kwargs):
                    seen.append((tuple(float(v) for v in args), tuple(sorted((k, float(v)) for k, v in kwargs.items()))))
                    base = -np.sum(np.atleast_2d(x) ** 2, axis=-1) * kwargs.get("scale", 1.0) + sum(args) + kwargs.get("shift", 0.0)
                    return base if np.ndim(x) == 2 else float(base[0])
                vec = via == "vector"
                pool = {"reversed": ReversedPool(), "pool=3": 3}.get(via)
                with int_pool_patched(), warnings.catch_warnings():
                    warnings.simplefilter("ignore")
                    s = Sampler(lambda u: u, user, 2, n_particles=4, clustering=False, vectorize=vec, pool=pool,
                                log_likelihood_args=a, log_likelihood_kwargs=kw)
                    X = np.array([[0.5, 0.25], [1.0, -0.5], [0.0, 2.0]])
                    if via == "direct":
                        vals = np.array([s._core.config.log_likelihood(x) for x in X])
                    else:
                        vals, _ = s._core._log_like(X)
                want = np.array([user(x, *(a or []), **(kw or {})) for x in X])
                n_user = len(seen) - 3
                seen = seen[:n_user]
                margs = "none" if a is None else common.flist([common.f2hex(v) for v in a], str)
                mkw = "none" if kw is None else common.flist([f"{k}~{common.f2hex(v)}" for k, v in sorted(kw.items())], str)
                lines.append(f"wrap.call args={margs} kwargs={mkw}")
                recs.append((via, seen, vals, want, 1 if vec else 3))
    for line, (via, seen, vals, want, ncalls), ans in zip(lines, recs, drv.batch(lines)):
        c.case((line, via), "none" not in line or via != "direct")
        c.count("via:" + via)
        got = {f"args={common.flist([common.f2hex(v) for v in sa], str)} kwargs={common.flist([f'{k}~{common.f2hex(v)}' for k, v in sk], str)}"
               for sa, sk in seen}
        if got != {ans} or len(seen) != ncalls:
            c.disagree(input=line, impl={"received": sorted(got), "user_calls": len(seen)}, model={"received": ans, "user_calls": ncalls}, via=via)
        elif not np.array_equal(np.asarray(vals, dtype=float), want):
            c.disagree(input=line, impl=[float(v) for v in np.asarray(vals, dtype=float)], model=[float(v) for v in want], via=via)
        c.sample({"op": line, "via": via, "impl": sorted(got), "model": ans})
    return c


def suite_evaluate_likelihood(drv, tier):
    import tempest.mcmc as mcmc
    from tempest.modes import ModeStatistics
    c = Corr("evaluate-likelihood", "exact")
    rng = common.rng_for("C13.evlik")
    lines, recs = [], []
    for _ in range(60 if tier == "quick" else 600):
        d, n = rng.randint(1, 3), rng.randint(1, 9)
        have = rng.random() < 0.5
        ll_blobs = rng.random() < 0.6
        calls = []

        def ll(x, _b=ll_blobs):
            calls.append(len(x))
            return np.arange(len(x), dtype=float), (np.ones(len(x)) if _b else None)
        ms = ModeStatistics(np.zeros((1, d)), np.array([np.eye(d)]), np.full(1, 3.0))
        kind = rng.choice([mcmc.RWMRunner, mcmc.TPCNRunner])
        r = kind(np.full((n, d), 0.5), np.zeros((n, d)), np.zeros(n), (np.zeros(n) if have else None), np.zeros(n, dtype=int), 0.5, ms, ll,
                 None, None, 1, 2, None, None, False)
        r.n_calls = rng.randint(0, 1000)
        n0 = r.n_calls
        lp, bp = r._evaluate_likelihood(np.zeros((n, d)))
        lines.append(f"evlik hb={int(have)} n={n0} w={n} blobs={int(ll_blobs)}")
        recs.append((r.n_calls, bp is not None, calls, n, np.array_equal(lp, np.arange(n, dtype=float))))
    for line, (n1, kept, calls, n, okl), ans in zip(lines, recs, drv.batch(lines)):
        c.case(line, True)
        c.count("blobs" if "hb=1" in line else "no-blobs")
        if ans != f"{n1} {int(kept)}" or calls != [n] or not okl:
            c.disagree(input=line, impl={"n_calls": n1, "blobs_handed_on": kept, "log_likelihood_calls": calls, "logl_unchanged": okl}, model=ans)
    c.sample({"op": lines[0], "impl": recs[0][:2]})
    return c


# ----------------------------------------------------------------------------- whole runs: run() to completion, resumed runs
def _full_run(spec, workdir, observe=True):
    """Sampler.run() to completion under spec; one record per call of run(): history of `calls`, rows of every batch handed to
    _log_like, number of batches and the instrumented likelihood's counter at every commit and at the end, and which
    initialisation the real run_sampling performed.  spec["resume"]:
      None | "mid" (new sampler, run(resume_state_path=checkpoint)) | "mid-nocalls" (same, `calls` entry removed) |
      "load_state" (new sampler, load_state(checkpoint) then run()) | "second-run" (the same sampler's run() called again)"""
    from tempest import Sampler
    st = STRATEGIES[spec["strategy"]]

    def make():
        like = CountingLike(spec["blobs"], spec["target"])
        pool = st["pool"]
        if isinstance(pool, type) or callable(pool) and not hasattr(pool, "map"):
            pool = pool()
        s = Sampler(lambda u: 6.0 * u - 3.0, like.vector if st["vectorize"] else like.scalar, spec.get("d", 2),
                    n_particles=(None if spec.get("default_n") else spec["n"]), clustering=False,
                    sample=spec["kernel"], resample=spec.get("resample", "mult"), vectorize=st["vectorize"], pool=pool,
                    blobs_dtype=("f8" if spec["blobs"] else None), n_steps=spec["ns"], n_max_steps=spec["nm"],
                    output_dir=workdir, output_label="c13")
        obs = {"sizes": [], "counted_at": [], "nb_at": [], "init": []}
        orig = s._core.mutator.log_likelihood

        def rec(x, *args, **kwargs):
            obs["sizes"].append(len(x))
            return orig(x, *args, **kwargs)
        if observe:                                   # correspondence only: private hook, pass-through of any arguments
            s._core.mutator.log_likelihood = rec
        orig_commit = s.state.commit_current_to_history      # public StateManager method

        def commit(*a, **k):
            obs["counted_at"].append(like.n)
            obs["nb_at"].append(len(obs["sizes"]))
            return orig_commit(*a, **k)
        s.state.commit_current_to_history = commit
        for name in (("_initialize_fresh", "_initialize_from_resume") if observe else ()):
            def spy(*a, _o=getattr(s._core, name), _n=name, **k):
                obs["init"].append(_n)
                return _o(*a, **k)
            setattr(s._core, name, spy)
        return s, like, obs, pool

    def finish(pool):
        if hasattr(pool, "terminate"):
            pool.terminate()
            pool.join()
        elif hasattr(pool, "shutdown") and not isinstance(pool, NewestFirstExecutor):
            pool.shutdown(wait=False)

    def record(s, obs, t0, start, base, n0, b0, have_path, hist_before):
        """n0 / b0: likelihood counter / number of batches when this call of run() began (same sampler run twice)"""
        hist = s.state
        kind = "resume" if "_initialize_from_resume" in obs["init"] else ("fresh" if "_initialize_fresh" in obs["init"] else "continued")
        return {"start": start, "t0": t0, "base": base, "beta": [float(b) for b in hist.get_history("beta")],
                "steps": [int(v) for v in hist.get_history("steps")], "calls": [int(v) for v in hist.get_history("calls")],
                "final_calls": int(hist.get_current("calls")), "counted": obs["like"].n - n0,
                "counted_at": [c - n0 for c in obs["counted_at"][obs["c0"]:]], "nb_at": [v - b0 for v in obs["nb_at"][obs["c0"]:]],
                "sizes": list(obs["sizes"][b0:]), "start_kind": kind, "have_path": have_path, "hist_before": hist_before}
    out = []
    with int_pool_patched(), _quiet(), warnings.catch_warnings():
        warnings.simplefilter("ignore")
        s, like, obs, pool = make()
        obs["like"], obs["c0"] = like, 0
        np.random.seed(spec["seed"])
        s.run(n_total=spec["n_total"], progress=False, save_every=(spec["save_every"] if spec["resume"] in ("mid", "mid-nocalls", "load_state") else None))
        out.append(record(s, obs, 0, "fresh", 0, 0, 0, False, 0))
        if spec["resume"] == "second-run":
            n0, b0, t0 = like.n, len(obs["sizes"]), len(obs["counted_at"])
            obs["c0"], obs["init"] = t0, []
            c_before = int(s.state.get_current("calls"))
            s.run(n_total=3 * spec["n_total"], progress=False)
            out.append(record(s, obs, t0, f"cont:{c_before}", n0, n0, b0, False, t0))
        finish(pool)
        if spec["resume"] in ("mid", "mid-nocalls", "load_state"):
            import dill
            import os
            t = spec["save_every"]
            path = os.path.join(workdir, f"c13_{t}.state")
            if os.path.exists(path) and len(obs["counted_at"]) >= t:
                saved = out[0]["calls"][t - 1]
                base = obs["counted_at"][t - 1]           # points ACTUALLY evaluated by the first process up to the checkpoint
                start = f"resume:{saved}"
                if spec["resume"] == "mid-nocalls":
                    with open(path, "rb") as fh:
                        d = dill.load(fh)
                    d["_current"]["calls"] = None
                    path = os.path.join(workdir, "old.state")
                    with open(path, "wb") as fh:
                        dill.dump(d, fh)
                    start, base = "resume:none", None
                s2, like2, obs2, pool2 = make()
                obs2["like"], obs2["c0"] = like2, 0
                np.random.seed(spec["seed"] + 1)
                if spec["resume"] == "load_state":
                    s2.load_state(path)
                    start = f"cont:{saved}"
                    s2.run(n_total=spec["n_total"], progress=False)
                    out.append(record(s2, obs2, t, start, base, 0, 0, False, t))
                else:
                    s2.run(n_total=spec["n_total"], progress=False, resume_state_path=path)
                    out.append(record(s2, obs2, t, start, base, 0, 0, True, 0))
                finish(pool2)
    return out


def _kinds(rec):
    """iteration kinds of THIS call of run(): warm-up iterations carry their number of redraws (batches evaluated − 1)"""
    out, prev = [], 0
    betas, steps = rec["beta"][rec["t0"]:], rec["steps"][rec["t0"]:]
    for k, nb in enumerate(rec["nb_at"]):
        out.append(f"w:{nb - prev - 1}" if betas[k] == 0.0 else f"m:{steps[k]}")
        prev = nb
    return out


def _whole_runs(specs, observe=True):
    import shutil
    import tempfile
    for spec in specs:
        workdir = tempfile.mkdtemp(prefix="c13_")
        try:
            yield spec, _full_run(spec, workdir, observe), None
        except Exception as e:  # noqa
            yield spec, [], e
        finally:
            shutil.rmtree(workdir, ignore_errors=True)


def _whole_run_property(spec, recs):
    """PROPERTY ORACLE on complete runs (real code only): at every commit and at the end, reported calls == points actually
    evaluated — by this process plus, for a run resumed from a checkpoint, by the process that wrote it up to that checkpoint.
    (A checkpoint whose `calls` entry was removed by the harness is not a statement of the property: skipped.)"""
    bad = []
    for rec in recs:
        if rec["base"] is None:
            continue
        what = None
        for k, c_at in enumerate(rec["counted_at"]):
            if rec["t0"] + k < len(rec["calls"]) and rec["calls"][rec["t0"] + k] != rec["base"] + c_at:
                what = (f"{rec['start'].split(':')[0]} run under `{spec['strategy']}`, iteration {rec['t0'] + k + 1}: recorded calls="
                        f"{rec['calls'][rec['t0'] + k]} but the user's likelihood was actually evaluated at {rec['base'] + c_at} points "
                        f"({rec['base']} before the checkpoint + {c_at} since)")
                break
        if what is None and rec["final_calls"] != rec["base"] + rec["counted"]:
            what = (f"{rec['start'].split(':')[0]} run under `{spec['strategy']}` finished: state['calls']={rec['final_calls']} but the user's "
                    f"likelihood was actually evaluated at {rec['base'] + rec['counted']} points")
        if what:
            bad.append(dict(spec, what=what, oracle="calls", level="whole-run"))
    return bad


def whole_run_property_violations(specs):
    bad = []
    for spec, recs, _err in _whole_runs(specs, observe=False):      # public API + instrumented user likelihood only
        bad += _whole_run_property(spec, recs)
    return bad


def whole_run_correspondence(drv, specs, corr):
    """MODEL vs CODE (never a failing input by itself): Model.CallsRun.runSampling on the scripted instance against the history of
    `calls` and the rows of every batch handed to _log_like; the proved step bounds; plus the property oracle, so that a
    violated property also breaks this obligation"""
    lines, meta, start_lines = [], [], []
    for spec, recs, err in _whole_runs(specs):
        if err is not None:
            if spec.get("default_n") and type(err).__name__ == "LinAlgError":
                # a 2-4 particle ensemble can collapse onto one point (singular covariance): a limit of the sampler, not a statement of C13
                corr.count("tiny ensemble: run aborted with LinAlgError")
            else:
                corr.disagree(input=spec, impl=f"run raised {type(err).__name__}: {err}", model="runs")
            continue
        for b in _whole_run_property(spec, recs):
            corr.disagree(input=spec, impl=b["what"], model="calls == points evaluated (C13_run_calls_evaluated)", kind="property")
        for rec in recs:
            ops = _kinds(rec)
            d = spec.get("d", 2)
            start_lines.append((f"start.kind path={int(rec['have_path'])} hist={rec['hist_before']}", rec["start_kind"], spec))
            corr.count("warmup_redraws", sum(int(o[2:]) for o in ops if o.startswith("w:")))
            for k, op in enumerate(ops):
                if not op.startswith("w"):
                    steps = int(op[2:])
                    if not (min(spec["ns"] * d, spec["nm"] * d) <= steps <= max(1, spec["nm"] * d)):
                        corr.disagree(input=spec, impl=f"iteration {rec['t0'] + k + 1}: {steps} accept/reject steps",
                                      model=f"within [{min(spec['ns'] * d, spec['nm'] * d)}, {max(1, spec['nm'] * d)}] (C13_mutation_steps)")
                lines.append(f"crun np={spec['n']} nw={spec['n']} start={rec['start']} fuel={spec['nm'] * d + 2} ops={';'.join(ops[:k + 1])}")
                meta.append((spec, rec, k, len(ops)))
    for (spec, rec, k, nops), line, ans in zip(meta, lines, drv.batch(lines)):
        toks = ans.split(" ")
        mcalls = int(toks[0]) if toks[0].isdigit() else None
        msizes = common.parse_list(toks[1], int) if len(toks) > 1 else None
        calls_k = rec["calls"][rec["t0"] + k]
        nb = len(msizes) if msizes is not None else 0
        ops = line.split("ops=")[1]
        corr.case((line, spec["strategy"], spec["kernel"]), "w" in ops and "m:" in ops)
        corr.count("strategy:" + spec["strategy"])
        corr.count("start:" + rec["start"].split(":")[0] + (":none" if rec["start"].endswith("none") else "")
                   + (":" + str(spec["resume"]) if rec["start"].startswith("cont") else ""))
        if k == nops - 1:
            corr.count("runs")
            corr.count("target:" + spec["target"])
            corr.count(f"d={spec.get('d', 2)} n={spec['n']}{' (default)' if spec.get('default_n') else ''} ns={spec['ns']} nm={spec['nm']}")
        if mcalls != calls_k:
            corr.disagree(input=line, impl={"calls": calls_k}, model=ans, spec=spec, kind="model-vs-code")
        elif msizes != rec["sizes"][:nb] or (k == nops - 1 and len(rec["sizes"]) != nb):
            corr.disagree(input=line, impl={"rows of the batches handed to _log_like": rec["sizes"][:nb + 2]}, model=ans, spec=spec,
                          kind="model-vs-code")
    for (line, kind, spec), ans in zip(start_lines, drv.batch([x[0] for x in start_lines])):
        corr.case((line, kind), kind != "fresh")
        corr.count("start-kind:" + kind)
        if ans != kind:
            corr.disagree(input=line, impl=f"run_sampling initialised as `{kind}`", model=ans, spec=spec, kind="model-vs-code")
    if lines:
        corr.sample({"op": lines[-1], "impl_calls": meta[-1][1]["final_calls"], "counted": meta[-1][1]["counted"], "spec": meta[-1][0]})


def _whole_run_specs(rng, tier):
    specs = []
    base = [("scalar", "tpcn", False, "gauss", None), ("vector", "rwm", False, "hole", None), ("pool=3", "tpcn", True, "hole", "mid"),
            ("shuffled", "rwm", True, "corner", "mid"), ("threaded", "tpcn", False, "hole", "mid-nocalls"), ("generator", "rwm", False, "tiny", None),
            ("vector+sized", "tpcn", False, "corner", "mid"), ("executor-newest-first", "rwm", False, "hole", None),
            ("pool=True", "tpcn", True, "gauss", "mid-nocalls"), ("sized", "rwm", False, "tiny", "mid"), ("mp-like", "tpcn", True, "corner", "mid"),
            ("threadpool", "rwm", True, "hole", None), ("pool=7", "rwm", False, "corner", None), ("scalar", "rwm", True, "corner", "mid"),
            ("scalar", "tpcn", False, "tiny", "load_state"), ("vector", "rwm", False, "tiny", "second-run"),
            ("pool=2", "tpcn", True, "tiny", "second-run"), ("reversed", "rwm", True, "tiny", "load_state"),
            ("vector+pool=3", "tpcn", False, "tiny", "mid")]
    if tier == "thorough":
        base += [(n, k, b, h, r) for n in STRATEGIES for k in ("tpcn", "rwm") for b in (False, True) for h in TARGETS if h not in NONFINITE_TARGETS
                 for r in (None, "mid", "load_state", "second-run") if not (n.startswith("vector") and b)][::11]
    for i, (strategy, kernel, blobs, target, resume) in enumerate(base):
        ns = rng.choice([1, 1, 2, 3])
        specs.append({"strategy": strategy, "kernel": kernel, "blobs": blobs, "target": target, "resume": resume, "seed": rng.randrange(2 ** 31),
                      "n": rng.choice([15, 16, 12]), "ns": ns, "nm": rng.choice([ns, ns + 1, 2 * ns, 6]), "n_total": rng.choice([40, 64]),
                      "save_every": rng.choice([1, 2, 3]), "resample": rng.choice(["mult", "syst"])})
    # tiny ensembles (the package default n_particles = 2*n_dim), RWM, target on the corner: steps in which EVERY proposal leaves the cube
    for strategy, blobs, d, resume in [("scalar", False, 1, None), ("pool=3", True, 2, "mid"), ("vector", False, 1, "second-run"),
                                       ("mp-like", True, 1, "load_state")]:
        specs.append({"strategy": strategy, "kernel": "rwm", "blobs": blobs, "target": "edge", "resume": resume, "seed": rng.randrange(2 ** 31),
                      "d": d, "n": 2 * d, "default_n": True, "ns": 2, "nm": 4, "n_total": rng.choice([24, 48]), "save_every": rng.choice([2, 3]),
                      "resample": rng.choice(["mult", "syst"])})
    return specs


def suite_pipeline_strategies(drv, tier):
    """the composed pipeline model (Model/Pipeline.lean) consumes a tape holding the POINTWISE likelihood values (computed by the
    harness with the user's pure function); the real sampler producing the trace evaluates through a strategy.  Agreement of
    beta / ESS / logZ / resampled indices / accept masks / committed batches is the conclusion of C13_pipeline_transparent
    on real runs."""
    from . import pipeline, c01
    from tempest.tools import FunctionWrapper
    c = Corr("pipeline-replay-under-strategies", "toleranced Float (decisions exact, near-ties counted; committed logl bit for bit)")
    rng = common.rng_for("C13.pipeline")
    names = ["reversed", "shuffled", "vector", "pool=3", "threaded", "mp-like", "executor-newest-first", "vector+sized", "generator", "pool=True",
             "sized", "threadpool"]
    recs, lines = [], []
    for i in range(8 if tier == "quick" else 60):
        name = names[i % len(names)]
        st = STRATEGIES[name]
        kernel, resample = [(k, r) for k in ("tpcn", "rwm") for r in ("syst", "mult")][i % 4]
        d, n = rng.choice([1, 2, 3]), rng.choice([8, 16])
        hole = rng.random() < 0.5
        prior, like = c01.make_target(rng, d, hole)
        seed = rng.randrange(2 ** 31)
        cfgd = {"strategy": name, "kernel": kernel, "resample": resample, "d": d, "n": n, "seed": seed, "hole": hole}
        with int_pool_patched():
            np.random.seed(seed)
            rec = pipeline.Recorder(kernel, resample, n, d, like, prior, ess_ratio=rng.choice([1.5, 2.0]))
            cfg = rec.s._core.config
            pool = st["pool"]
            if isinstance(pool, type) or callable(pool) and not hasattr(pool, "map"):
                pool = pool()
            object.__setattr__(cfg, "pool", pool)          # the frozen dataclass is bypassed the way core.py itself does
            if st["vectorize"]:
                object.__setattr__(cfg, "vectorize", True)
                object.__setattr__(cfg, "log_likelihood", FunctionWrapper(lambda X, _l=like: np.array([_l(x) for x in X]), None, None))
            rec.s._core._initialize_fresh()
            rec.s._core.n_total = 3 * n
            try:
                k = 0
                while rec.s._core._not_termination() and k < 12:
                    rec.iteration()
                    k += 1
            except Exception as e:  # noqa
                c.disagree(input=cfgd, impl=f"raised {type(e).__name__}: {e}", model="runs")
                continue
        recs.append((rec, cfgd))
        lines.append(rec.model_line())
        c.case(cfgd, sum(1 for it in rec.impl if it["beta"] > 0) >= 1)
        c.count("strategy:" + name)
        c.count("iterations", len(rec.impl))
        c.count("mcmc_steps", sum(len(it["masks"]) for it in rec.impl))
    for (rec, cfgd), line, ans in zip(recs, lines, drv.batch(lines)):
        prob, tie = pipeline.compare(rec, ans)
        if tie:
            c.near_ties += 1
        if prob:
            c.disagree(input=cfgd, impl=prob, model=ans[:300])
        c.sample({"config": cfgd, "iterations": len(rec.impl), "betas": [round(it["beta"], 4) for it in rec.impl]})
    return c


def _guarded(name, fn, *args):
    """a suite that reaches into private methods may stop fitting the code (changed signature, moved hook): that is an abort of
    THAT correspondence suite — a broken obligation followed by the model-free search — not a crash of the whole check"""
    try:
        return fn(*args)
    except (common.LeanError, OSError, TimeoutError):
        raise
    except Exception as e:  # noqa
        import traceback
        tb = traceback.extract_tb(e.__traceback__)[-1]
        c = Corr(name, "aborted")
        c.case("abort", True)
        c.disagree(input="suite " + name, impl=f"the instrumented call no longer fits the code: {type(e).__name__}: {e} "
                   f"(at {tb.filename.rsplit('/', 1)[-1]}:{tb.lineno})", model="observable at the modelled points", kind="correspondence-abort")
        return c


def correspond(tier):
    drv = common.Driver()
    rng = common.rng_for("C13")
    out = [_guarded("dispatch-table", suite_dispatch, drv, tier), _guarded("adaptive-steps", suite_steps, drv, tier),
           _guarded("loglike-assembly", suite_assembly, drv, tier), _guarded("function-wrapper", suite_wrapper, drv, tier),
           _guarded("evaluate-likelihood", suite_evaluate_likelihood, drv, tier),
           _guarded("pipeline-replay-under-strategies", suite_pipeline_strategies, drv, tier)]
    c = Corr("strategy-transparency", "exact (bit-identical fingerprints of paired seeded runs; calls == points evaluated on every run)")
    cases = [("tpcn", False, rng.randrange(2 ** 31), "gauss"), ("rwm", True, rng.randrange(2 ** 31), "hole"),
             ("tpcn", False, rng.randrange(2 ** 31), "corner"), ("rwm", False, rng.randrange(2 ** 31), "tiny"),
             ("tpcn", False, rng.randrange(2 ** 31), "nan"), ("rwm", True, rng.randrange(2 ** 31), "mixed"),
             ("tpcn", rng.random() < 0.5, rng.randrange(2 ** 31), "posinf")]
    cases += [("rwm", b, rng.randrange(2 ** 31), "edge", sh) for b, sh in zip((False, True), TINY_SHAPES)]
    if tier == "thorough":
        cases += [(k, b, rng.randrange(2 ** 31), h) for k in ("tpcn", "rwm") for b in (False, True) for h in TARGETS][::2]
    subset = ["vector", "vector+sized", "vector+pool=3", "pool=3", "pool=True", "reversed", "shuffled", "threaded", "mp-like",
              "executor-newest-first", "threadpool"]
    for i, case in enumerate(cases):
        # quick tier: the first two cases pair EVERY strategy with scalar evaluation, the others a representative subset
        names = list(STRATEGIES) if (tier == "thorough" or i < 2) else (subset[:6] if len(case) > 4 else subset)
        for name in names:
            if name != "scalar" and not (name.startswith("vector") and case[1]):
                c.case((case, name), True)
                c.count(name)
        c.count("target:" + case[3])
        c.count("shape:" + (str(tuple(case[4])) if len(case) > 4 else "standard"))
        for b in run_property_violations([case], strategies=names):
            c.disagree(input=case, impl=b["what"], model="C13_run_strategy_independent / C13_run_calls_evaluated", kind="property")
    c.sample({"paired strategies": list(STRATEGIES), "case": cases[0]})
    out.append(c)
    c2 = Corr("call-accounting", "exact")
    ccases = [(n, k, b, rng.randrange(2 ** 31)) for n, k, b in
              [("scalar", "tpcn", False), ("vector", "rwm", False), ("threaded", "tpcn", True), ("pool=1", "rwm", True), ("generator", "tpcn", False),
               ("vector+sized", "tpcn", False), ("vector+threadpool", "rwm", False), ("sized", "rwm", True),
               ("executor-newest-first", "tpcn", True), ("pool=3", "rwm", True), ("vector+pool=3", "tpcn", False)]]
    ccases += [(n, k, b, rng.randrange(2 ** 31), "tiny") for n, k, b in
               [("scalar", "rwm", False), ("vector", "tpcn", False), ("pool=3", "tpcn", True), ("mp-like", "rwm", True), ("vector+sized", "rwm", False)]]
    ccases += [(n, k, b, rng.randrange(2 ** 31), t) for n, k, b, t in
               [("vector", "tpcn", False, "nan"), ("pool=3", "rwm", True, "mixed"), ("scalar", "tpcn", False, "posinf"), ("vector+sized", "rwm", False, "mixed")]]
    ccases += [(n, "rwm", b, rng.randrange(2 ** 31), "edge", sh) for (n, b), sh in
               zip([("scalar", False), ("vector", False), ("pool=3", True), ("reversed", True)], TINY_SHAPES)]
    if tier == "thorough":
        ccases += [(n, k, b, rng.randrange(2 ** 31)) for n in STRATEGIES for k in ("tpcn", "rwm") for b in (False, True) if not (n.startswith("vector") and b)]
    calls_correspondence(drv, ccases, c2)
    out.append(c2)
    c3 = Corr("whole-run", "exact (history of `calls`, rows of every batch handed to _log_like, instrumented counter)")
    whole_run_correspondence(drv, _whole_run_specs(rng, tier), c3)
    out.append(c3)
    return out


def search(tier, hints):
    """Failing inputs of the PROPERTY on the real code — nothing else.  Only two oracles are used, neither involves the model:
    (1) state['calls'] != number of points at which the instrumented user likelihood was actually evaluated;
    (2) histories / weights / evidence of a run under some strategy differ from the run under scalar evaluation for the same seed.
    A disagreement between model and code is NOT a failing input; it only triggers this exploration: every strategy (scalar,
    vectorised, vectorised+pool, int pools of several sizes, pool doubles, real thread pools / executors) x both kernels x blobs x
    targets {interior Gaussian, -inf region (warm-up replacement), narrow corner target (proposals leave the prior cube), tiny support
    (warm-up batches without a finite draw: the redraw loop), tiny ensembles (n_particles = the default 2*n_dim with n_dim = 1, 2; RWM; target on
    the corner: steps in which every proposal leaves the cube), and likelihoods with NON-FINITE values: a NaN region, a +inf region, NaN / -inf /
    +inf mixed — degenerate runs, but bit-identical under every strategy on correct code (NaN positions compared, payloads not)}, then complete runs incl. runs resumed from a checkpoint (by path and by
    load_state) and a second run() on the same sampler.  Nothing found => the verdict is `no-failing-input-found`."""
    rng = common.rng_for("C13.search")
    hinted = [h.get("strategy") or (h.get("spec") or {}).get("strategy") for h in hints if isinstance(h, dict)]
    order = [n for n in STRATEGIES if n in hinted] + [n for n in STRATEGIES if n not in hinted]
    found = []
    few = [n for n in order if n in ("scalar", "vector", "pool=3", "reversed", "vector+sized", "mp-like")]
    for shape in TINY_SHAPES:                     # tiny ensembles, RWM, mass on the corner: whole steps with every proposal out of the cube
        for blobs in (False, True):
            for _ in range(4):
                found += run_property_violations([("rwm", blobs, rng.randrange(2 ** 31), "edge", shape)], strategies=few)
            if len(found) >= 3:
                return found[:5]
    for target in ("tiny", "nan", "mixed", "corner", "hole", "posinf", "gauss"):
        combos = [("tpcn", False), ("rwm", True)] if target in NONFINITE_TARGETS else [(k, b) for k in ("tpcn", "rwm") for b in (False, True)]
        for kernel, blobs in combos:
            found += run_property_violations([(kernel, blobs, rng.randrange(2 ** 31), target)], strategies=order)
            if len(found) >= 3:
                return found[:5]
    specs = _whole_run_specs(rng, "quick")
    found += whole_run_property_violations(specs)
    return found[:5]


def replay(obj):
    f = obj.get("failing_input", obj)
    if "witness" in f.get("replay", {}):
        from . import witnesses
        return witnesses.ALL[f["replay"]["witness"]]()
    if f.get("level") == "whole-run":
        spec = {k: f[k] for k in ("strategy", "kernel", "blobs", "target", "resume", "seed", "n", "ns", "nm", "n_total", "save_every", "resample",
                                  "d", "default_n") if k in f}
        b = whole_run_property_violations([spec])
        return {"fails": bool(b), "detail": b[:1]}
    b = [x for x in run_property_violations([(f["kernel"], f["blobs"], f["seed"], f.get("target", "gauss"), f.get("shape"))], strategies=[f["strategy"]])
         if x["strategy"] == f["strategy"]]
    return {"fails": bool(b), "detail": b[:1]}
