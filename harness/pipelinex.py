"""Whole-run trace recording for the EXTENDED pipeline model (lean/TempestVerif/Model/PipelineX.lean; C01, C02).

Differences from harness/pipeline.py (which stays as it is: C05/C10/C11 depend on it):
  * clustering on or off, ESS mode or volume-variation mode, periodic / reflective / hard coordinates;
  * the tape carries the INNOVATIONS of the mutation (gamma draws, standard-normal vectors, Metropolis uniforms) and the user's
    log-likelihood at the evaluated points, plus what the trainer produced (modes) and the mode index of every resampled walker;
    the model computes the proposals (per mode, at the mode's adapted step size), folds, the hard-boundary rejection, the Hastings
    factor, accept/reject, the per-cluster step-size adaptation and the stopping rule itself;
  * in volume-variation mode the metric value of every beta the reweighter evaluates is tabulated on the tape;
  * a real `Sampler.run()` can be recorded (loop guard, epilogue, `evidence()`), and `Sampler.posterior()` is compared with
    the model's `posteriorX` on the final pool.
"""
import contextlib
import io
import math
import sys
import warnings

import numpy as np

from . import common
from .common import f2hex, hex2f


def _quiet():
    return contextlib.redirect_stdout(io.StringIO())


def _rows(mat):
    mat = np.atleast_2d(np.asarray(mat, dtype=float))
    return ";".join(",".join(f2hex(v) for v in row) for row in mat) if mat.size else "-"


def _optl(vals):
    return ",".join("x" if (np.isneginf(v) or np.isnan(v)) else f2hex(v) for v in vals) if len(vals) else "-"


class RecorderX:
    def __init__(self, *, kernel, resample, n, d, like, prior, ess_ratio=2.0, n_steps=1, n_max_steps=2, clustering=False,
                 volume_variation=None, periodic=None, reflective=None, cluster_every=1, random_state=None):
        from tempest import Sampler
        self.n, self.d = n, d
        self.kernel, self.resample = kernel, resample
        self.like_user, self.prior_user = like, prior
        self.s = Sampler(prior, like, d, n_particles=n, clustering=clustering, sample=kernel, resample=resample,
                         ess_ratio=ess_ratio, volume_variation=volume_variation, n_steps=n_steps, n_max_steps=n_max_steps,
                         periodic=periodic, reflective=reflective, cluster_every=cluster_every, random_state=random_state)
        self.tapes = []
        self.impl = []
        self.rec = None
        self.K_seen = []
        self.redrawn = False     # a warm-up batch was drawn again because no draw had a finite likelihood

    # ------------------------------------------------------------------ observation points
    def _new_rec(self):
        self.rec = {"draw": None, "choice": [], "resU": None, "idx": None, "mcmc": None, "steps": [], "metric": [],
                    "logz_rw": None, "weights": None}

    def _patches(self):
        import tempest.mcmc as mcmc
        import tempest.steps.resample as rsm
        import tempest.steps.mutate as mut
        me = self
        real_rand, real_random, real_randn, real_gamma = np.random.rand, np.random.random, np.random.randn, np.random.gamma
        real_sr = rsm.systematic_resample
        real_pm = mut.parallel_mcmc

        def rand(*shape):
            out = real_rand(*shape)
            fr = sys._getframe(1)
            if fr.f_code.co_name == "run" and fr.f_code.co_filename.endswith("mutate.py"):
                if me.rec["draw"] is not None:
                    me.redrawn = True      # `while np.all(np.isinf(logl))`: the batch is drawn again (fix of F8)
                me.rec["blocks"] = me.rec.get("blocks", 0) + 1
                me.rec["draw"] = np.array(out, dtype=float).copy()
            elif fr.f_code.co_name == "run" and fr.f_code.co_filename.endswith("mcmc.py"):
                me.rec["steps"][-1]["r"] = np.array(out, dtype=float).copy()
            return out

        def random(*a):
            out = real_random(*a)
            if sys._getframe(1).f_code.co_name == "systematic_resample" and me.rec.get("in_resampler"):
                me.rec["resU"] = [float(out)]
            return out

        def randn(*a):
            out = real_randn(*a)
            if sys._getframe(1).f_code.co_name == "_propose":
                me.rec["steps"][-1]["z"].append(np.array(out, dtype=float).copy())
            return out

        def gamma(*a, **kw):
            out = real_gamma(*a, **kw)
            if sys._getframe(1).f_code.co_name == "_propose":
                me.rec["steps"][-1]["g"].append(float(out))
            return out

        def choice(a, size=None, replace=True, p=None):
            a = np.asarray(a)
            if a.ndim == 0:
                a = np.arange(int(a))
            fr = sys._getframe(1)
            if p is None:
                pick = np.random.randint(0, len(a), size=size)
                out = a[pick]
                if fr.f_code.co_filename.endswith("mutate.py"):
                    me.rec["choice"].append([int(v) for v in np.atleast_1d(out)])
                return out
            us = np.random.random_sample(size)
            cdf = np.cumsum(p)
            cdf /= cdf[-1]
            idx = cdf.searchsorted(us, side="right")
            if fr.f_code.co_filename.endswith("resample.py"):
                me.rec["resU"] = [float(v) for v in np.atleast_1d(us)]
                me.rec["idx"] = [int(v) for v in np.atleast_1d(idx)]
            return a[idx]

        def spy_sr(size, weights=None, random_state=None):
            me.rec["in_resampler"] = True
            try:
                r = real_sr(size, weights=weights)
            finally:
                me.rec["in_resampler"] = False
            me.rec["idx"] = [int(v) for v in r]
            return r

        def spy_pm(**kw):
            ms = kw["mode_stats"]
            me.rec["mcmc"] = {"assign": [int(a) for a in np.asarray(kw["assignments"])],
                              "means": np.array(ms.means, dtype=float), "chol": np.array(ms.chol_covariances, dtype=float),
                              "inv": np.array(ms.inv_covariances, dtype=float), "nu": np.array(ms.degrees_of_freedom, dtype=float),
                              "beta": float(kw["beta"]), "u0": np.array(kw["u"], dtype=float), "l0": np.array(kw["logl"], dtype=float)}
            return real_pm(**kw)

        def wrap_propose(orig):
            def f(self_, k):
                if k == 0:
                    me.rec["steps"].append({"g": [], "z": [], "cand": [], "r": None, "lp": None, "alpha": None, "sig": None,
                                            "stop_raw": None, "iter": int(self_.iteration)})
                p = orig(self_, k)
                me.rec["steps"][-1]["cand"].append(np.array(p, dtype=float).copy())
                return p
            return f

        def wrap_factor(orig):
            def f(self_, u_prime, logl_prime):
                out = orig(self_, u_prime, logl_prime)
                st = me.rec["steps"][-1]
                st["lp"] = np.array(logl_prime, dtype=float).copy()
                st["u_prime"] = np.array(u_prime, dtype=float).copy()
                st["factor"] = np.array(out, dtype=float).copy()
                return out
            return f

        def wrap_pb(orig):
            def f(self_, alpha):
                st = me.rec["steps"][-1]
                st["alpha"] = np.array(alpha, dtype=float).copy()
                st["sig"] = np.array(self_.sigmas, dtype=float).copy()
                st["sigma0"] = float(self_.sigma_0)
                return orig(self_, alpha)
            return f

        def wrap_cas(orig):
            def f(self_, acc):
                out = orig(self_, acc)
                sizes = np.array([c for c in (int(np.sum(self_.assignments == k)) for k in range(self_.n_clusters)) if c > 0])
                ws = float(np.average(self_.sigmas[: len(sizes)], weights=sizes))
                nmin = self_.n_steps * self_.n_dim
                raw = min(max(nmin, nmin * (0.234 / max(0.01, acc)) * (self_.sigma_0 / max(1e-6, ws)) ** 2), self_.n_max * self_.n_dim)
                me.rec["steps"][-1]["stop_raw"] = float(raw)
                return out
            return f

        return [common.patched(np.random, "rand", rand), common.patched(np.random, "random", random),
                common.patched(np.random, "randn", randn), common.patched(np.random, "gamma", gamma),
                common.patched(np.random, "choice", choice), common.patched(rsm, "systematic_resample", spy_sr),
                common.patched(mut, "parallel_mcmc", spy_pm),
                common.patched(mcmc.TPCNRunner, "_propose", wrap_propose(mcmc.TPCNRunner._propose)),
                common.patched(mcmc.RWMRunner, "_propose", wrap_propose(mcmc.RWMRunner._propose)),
                common.patched(mcmc.TPCNRunner, "_compute_acceptance_factor", wrap_factor(mcmc.TPCNRunner._compute_acceptance_factor)),
                common.patched(mcmc.RWMRunner, "_compute_acceptance_factor", wrap_factor(mcmc.RWMRunner._compute_acceptance_factor)),
                common.patched(mcmc.BaseMCMCRunner, "_update_progress_bar", wrap_pb(mcmc.BaseMCMCRunner._update_progress_bar)),
                common.patched(mcmc.BaseMCMCRunner, "_calculate_adaptive_steps", wrap_cas(mcmc.BaseMCMCRunner._calculate_adaptive_steps))]

    @contextlib.contextmanager
    def _observed(self):
        core = self.s._core
        me = self
        orig_res, orig_cmw = core.resampler.run, core.reweighter._compute_metric_and_weights

        def res_run(w):
            me.rec["logz_rw"] = float(me.s.state.get_current("logz"))
            me.rec["weights"] = np.array(w, dtype=float)
            return orig_res(w)

        def cmw(beta, *a, **kw):
            # (extra arguments are passed through: the observation point is "what the reweighter evaluated at beta")
            out = orig_cmw(beta, *a, **kw)
            me.rec["metric"].append((float(beta), float(out[2]), float(out[1])))
            return out
        with contextlib.ExitStack() as st, _quiet(), warnings.catch_warnings():
            warnings.simplefilter("ignore")
            for p in self._patches():
                st.enter_context(p)
            core.resampler.run = res_run
            core.reweighter._compute_metric_and_weights = cmw
            try:
                yield
            finally:
                del core.resampler.run
                del core.reweighter._compute_metric_and_weights

    # ------------------------------------------------------------------ driving the real sampler
    def iteration(self):
        self._new_rec()
        with self._observed():
            cur = self.s.sample()
        self._digest(cur)
        return cur

    def run(self, n_total):
        """a real `Sampler.run(n_total)`, every iteration of it recorded"""
        core = self.s._core
        orig = core.execute_iteration
        me = self

        def exe(save_every=None, t0=0):
            me._new_rec()
            cur = orig(save_every=save_every, t0=t0)
            me._digest(cur)
            return cur
        core.execute_iteration = exe
        try:
            self._new_rec()
            with self._observed():
                self.s.run(n_total=n_total, progress=False)
        finally:
            del core.execute_iteration

    def _digest(self, cur):
        rec = self.rec
        beta = float(cur["beta"])
        vv = self.s._core.config.volume_variation is not None
        tbl = {}
        for b, m, _e in rec["metric"]:
            tbl.setdefault(f2hex(b), f2hex(m))
        if beta == 0.0:
            U = rec["draw"]
            X = np.array([self.prior_user(u) for u in U])
            L = [float(self.like_user(x)) for x in X]
            picks = rec["choice"][0] if rec["choice"] else []
            # (a warm-up iteration after the first still runs the reweighter: in dynamic mode its metric look-ups are the 5th field)
            tb = ",".join(f"{b}:{mv}" for b, mv in tbl.items()) if (vv and tbl) else "-"
            disc = (rec.get("blocks", 1) - 1) * self.n
            self.tapes.append(f"D/{_rows(U)}/{_optl(L)}/{','.join(map(str, picks)) if picks else '-'}/{tb}/{disc}")
            self.impl.append({"beta": beta, "ess": float(cur["ess"]), "logz_rw": None, "logz": float(cur["logz"]), "idx": [],
                              "masks": [], "weights": None, "steps": [], "nsteps": int(cur["steps"]), "sig": None,
                              "acceptance": float(cur["acceptance"]), "efficiency": float(cur["efficiency"]),
                              "u": np.array(cur["u"]), "logl": np.array(cur["logl"], dtype=float), "tbl": tbl})
            return
        m = rec["mcmc"]
        K = len(m["nu"])
        self.K_seen.append(K)
        modes = "&".join(f"{','.join(f2hex(v) for v in m['means'][k])}~{_rows(m['chol'][k])}~{_rows(m['inv'][k])}~{f2hex(m['nu'][k])}"
                         for k in range(K))
        steps_s, masks = [], []
        for st in rec["steps"]:
            g = st["g"] if st["g"] else [1.0] * self.n
            steps_s.append(f"{','.join(f2hex(v) for v in g)}~{_rows(st['z'])}~{_optl(st['lp'])}~{','.join(f2hex(v) for v in st['r'])}")
            masks.append([bool(a) for a in (st["r"] < st["alpha"])])
            st["margin"] = float(np.min(np.abs(st["r"] - st["alpha"])))
        tb = ",".join(f"{b}:{mv}" for b, mv in tbl.items()) if (vv and tbl) else "-"
        self.tapes.append(f"A/{','.join(f2hex(v) for v in rec['resU'])}/{tb}/{modes}/{','.join(map(str, m['assign']))}/"
                          f"{'+'.join(steps_s) if steps_s else '-'}")
        self.impl.append({"beta": beta, "ess": float(cur["ess"]), "logz_rw": rec["logz_rw"], "logz": float(cur["logz"]),
                          "idx": rec["idx"] or [], "masks": masks, "weights": rec["weights"], "steps": rec["steps"],
                          "nsteps": int(cur["steps"]), "sig": rec["steps"][-1]["sig"] if rec["steps"] else None,
                          "acceptance": float(cur["acceptance"]), "efficiency": float(cur["efficiency"]),
                          "u": np.array(cur["u"]), "logl": np.array(cur["logl"], dtype=float), "tbl": tbl, "K": K,
                          "assign": m["assign"],
                          # conditioning of the quadratic forms the kernel evaluates (numerically singular modes: C18's F24 family)
                          "cond": max(float(np.linalg.cond(m["inv"][k])) for k in set(m["assign"]) if k < K) if K else 1.0})

    # ------------------------------------------------------------------ the model's input line
    def model_line(self, guard=False, n_total=0, posts=()):
        from tempest.config import BETA_TOLERANCE, ESS_TOLERANCE
        c = self.s._core.config
        vv = "none" if c.volume_variation is None else f2hex(c.volume_variation)
        per = [] if c.periodic is None else [int(i) for i in c.periodic]
        refl = [] if c.reflective is None else [int(i) for i in c.reflective]
        tapes = list(self.tapes)
        ps = "&".join(f"{int(p['trim'])}:{int(p['resample'])}:{f2hex(p['ess_trim'])}:{int(p['bins'])}:{f2hex(p['u0'])}" for p in posts) or "-"
        return (f"pipex.F ratio={f2hex(c.ess_ratio)} n={self.n} vv={vv} tolE={f2hex(ESS_TOLERANCE)} tolB={f2hex(BETA_TOLERANCE)} fuel=64 "
                f"syst={int(self.resample == 'syst')} kind={self.kernel} d={self.d} nsteps={int(c.n_steps)} nmax={int(c.n_max_steps)} "
                f"per={','.join(map(str, per)) or '-'} refl={','.join(map(str, refl)) or '-'} guard={int(guard)} tol={f2hex(1e-4)} "
                f"ntotal={f2hex(float(n_total))} post={ps} tapes={'|'.join(tapes)}")


def close(a, b, tol=1e-9):
    if a == b:
        return True
    if not (np.isfinite(a) and np.isfinite(b)):
        return False
    return abs(a - b) <= tol * (1.0 + max(abs(a), abs(b)))


def _parse_rows(s, sep=";"):
    if s == "-":
        return []
    return [[hex2f(t) for t in row.split(",")] for row in s.split(sep)]


def parse_answer(answer):
    its, hs, ev, ps = answer.split("#")
    out = []
    for m in (its.split("|") if its else []):
        beta, ess, zrw, z, idx, masks, branch, nsteps, sig, acc, eff, cands = m.split(";")
        out.append({"beta": hex2f(beta), "ess": hex2f(ess), "logz_rw": hex2f(zrw), "logz": hex2f(z),
                    "idx": [] if idx == "-" else [int(t) for t in idx.split(",")],
                    "masks": [] if masks == "-" else [[c == "1" for c in s_] for s_ in masks.split("+")],
                    "branch": branch, "nsteps": int(nsteps), "sig": [] if sig == "-" else [hex2f(t) for t in sig.split(",")],
                    "acceptance": hex2f(acc), "efficiency": hex2f(eff),
                    "cands": [] if cands == "-" else [_parse_rows(c, ":") for c in cands.split("+")]})
    batches = []
    for b in (hs.split("|") if hs else []):
        us, ls = b.split("/")
        batches.append((_parse_rows(us), [hex2f(t) for t in ls.split(",")]))
    posts = []
    for p in ([] if ps == "-" else ps.split("|")):
        if p == "none":
            posts.append(None)
        else:
            pos, w, lw = p.split("/")
            posts.append(([] if pos == "-" else [int(t) for t in pos.split(",")],
                          [] if w == "-" else [hex2f(t) for t in w.split(",")],
                          [] if lw == "-" else [hex2f(t) for t in lw.split(",")]))
    return out, batches, (None if ev == "none" else hex2f(ev)), posts


def _stop_tie(it):
    """was one of the stopping-rule decisions of this iteration within rounding of flipping?"""
    for st in it["steps"]:
        raw = st.get("stop_raw")
        if raw is not None and abs(raw - (st["iter"] + 1)) < 1e-9 * (1 + abs(raw)):
            return True
    return False


def _face_tie(rec, it):
    per = set([] if rec.s._core.config.periodic is None else [int(i) for i in rec.s._core.config.periodic])
    refl = set([] if rec.s._core.config.reflective is None else [int(i) for i in rec.s._core.config.reflective])
    strict = [i for i in range(rec.d) if i not in per and i not in refl]
    for st in it["steps"]:
        for cand in st["cand"]:
            for i in strict:
                if min(abs(cand[i]), abs(1.0 - cand[i])) < 1e-12:
                    return True
    return False


ILL = 1e9


def ill_conditioned(rec):
    """a mode whose inverse covariance has condition number > 1e9 makes `diff @ inv_cov @ diff` depend on the order of the floating-
    point operations by more than any tolerance (einsum vs. matmul differ in the first digit at 1e17): such runs are not comparable
    in regime T.  They come from degenerate clusters (few distinct particles; recorded finding F24 of C18 when numpy raises)."""
    return any(it.get("cond", 1.0) > ILL or not np.isfinite(it.get("cond", 1.0)) for it in rec.impl)


def compare(rec, answer, tol=1e-9):
    """(problem or None, near_tie) — the model's answer against the recorded implementation trace"""
    prob, tie = _compare(rec, answer, tol)
    if prob is not None and ill_conditioned(rec):
        return None, True
    return prob, tie


def _compare(rec, answer, tol=1e-9):
    if answer.startswith("error") or answer.startswith("guard") or answer == "bad-op":
        # a tape the model cannot follow: one cause is legitimate — the stopping rule decided within rounding (then the real run
        # made a different number of steps than the model predicts)
        if answer.startswith("error"):
            k = int(answer.split(":")[1])
            if k < len(rec.impl) and _stop_tie(rec.impl[k]):
                return None, True
        return f"model left its domain: {answer}", False
    its, batches, ev, posts = parse_answer(answer)
    if len(its) != len(rec.impl):
        return f"model ran {len(its)} iterations, implementation {len(rec.impl)}", False
    for k, (m, i) in enumerate(zip(its, rec.impl)):
        if not close(m["beta"], i["beta"], tol):
            return f"iteration {k + 1}: beta impl {i['beta']!r} model {m['beta']!r} ({m['branch']})", False
        if not close(m["ess"], i["ess"], 1e-7):
            return f"iteration {k + 1}: ESS impl {i['ess']!r} model {m['ess']!r}", False
        if i["logz_rw"] is not None and not close(m["logz_rw"], i["logz_rw"], tol):
            return f"iteration {k + 1}: logz after reweighting impl {i['logz_rw']!r} model {m['logz_rw']!r}", False
        if not close(m["logz"], i["logz"], tol):
            return f"iteration {k + 1}: committed logz impl {i['logz']!r} model {m['logz']!r}", False
        if m["idx"] != i["idx"]:
            if len(m["idx"]) == len(i["idx"]) and sum(1 for a, b in zip(m["idx"], i["idx"]) if a != b) <= 2 and \
                    all(abs(a - b) == 1 for a, b in zip(m["idx"], i["idx"]) if a != b):
                return None, True
            return f"iteration {k + 1}: resampled indices differ (impl {i['idx'][:8]}…, model {m['idx'][:8]}…)", False
        if i["beta"] == 0.0:
            continue
        if m["nsteps"] != i["nsteps"] or len(m["masks"]) != len(i["masks"]):
            if _stop_tie(i):
                return None, True
            return f"iteration {k + 1}: mutation made {i['nsteps']} steps, model predicts {m['nsteps']}", False
        for j, (st, mc) in enumerate(zip(i["steps"], m["cands"])):
            for w, (a, b) in enumerate(zip(st["cand"], mc)):
                if len(a) != len(b) or any(not close(x, y, tol) for x, y in zip(a, b)):
                    return (f"iteration {k + 1} step {j + 1} walker {w}: proposal impl {[float(x) for x in a]} model {b} "
                            f"(mode {i['assign'][w]} of {i['K']})"), False
        if m["masks"] != i["masks"]:
            if min(st["margin"] for st in i["steps"]) < 1e-9 or _face_tie(rec, i):
                return None, True
            return f"iteration {k + 1}: accept masks differ", False
        if len(m["sig"]) != len(i["sig"]) or any(not close(a, b, tol) for a, b in zip(m["sig"], i["sig"])):
            return f"iteration {k + 1}: adapted step sizes impl {[float(x) for x in i['sig']]} model {m['sig']}", False
        if not close(m["acceptance"], i["acceptance"], tol):
            return f"iteration {k + 1}: state['acceptance'] impl {i['acceptance']!r} model {m['acceptance']!r}", False
        if not close(m["efficiency"], i["efficiency"], tol):
            return f"iteration {k + 1}: state['efficiency'] impl {i['efficiency']!r} model {m['efficiency']!r}", False
    st = rec.s.state
    if len(batches) != st.get_history_length():
        return f"model committed {len(batches)} batches, implementation {st.get_history_length()}", False
    for k, (us, ls) in enumerate(batches):
        U = st.get_history("u", k)
        Lh = st.get_history("logl", k)
        if len(us) != len(U):
            return f"batch {k + 1}: {len(U)} stored particles, model {len(us)}", False
        for j in range(len(us)):
            if any(not close(a, float(b), tol) for a, b in zip(us[j], U[j])):
                return f"batch {k + 1} particle {j}: stored u {[float(x) for x in U[j]]} != model {us[j]}", False
            if f2hex(ls[j]) != f2hex(float(Lh[j])):
                return f"batch {k + 1} particle {j}: stored logl {float(Lh[j])!r} != model {ls[j]!r}", False
    return None, False


def compare_posterior(rec, spec, model_post, tol=1e-9):
    """real `Sampler.posterior(...)` (with `np.random.random` answering `u0`) against the model's (positions, weights, logw)"""
    s = rec.s
    with common.patched(np.random, "random", lambda *a: spec["u0"]):
        x, w, l, lw = s.posterior(resample=spec["resample"], trim_importance_weights=spec["trim"], return_logw=True,
                                  ess_trim=spec["ess_trim"], bins_trim=spec["bins"])
    if model_post is None:
        return "model: posterior() leaves the model (none)", False
    pos, mw, mlw = model_post
    X = s.state.get_history("x", flat=True)
    Lp = s.state.get_history("logl", flat=True)
    if len(pos) != len(w):
        # a trimming threshold decided within rounding?
        x0, w0, _l0 = s.posterior(resample=False, trim_importance_weights=False)
        return f"posterior{spec}: {len(w)} samples returned, model {len(pos)}", _trim_tie(w0, len(w), len(pos))
    for j, p in enumerate(pos):
        if p >= len(X) or X[p].tobytes() != np.asarray(x[j]).tobytes() or f2hex(float(Lp[p])) != f2hex(float(l[j])):
            return f"posterior{spec}: returned sample {j} is not pool particle {p} (x or logl differ)", False
        if not close(mw[j], float(w[j]), tol):
            return f"posterior{spec}: weight {j} impl {float(w[j])!r} model {mw[j]!r}", False
        if not close(mlw[j], float(lw[j]), tol):
            return f"posterior{spec}: logw {j} impl {float(lw[j])!r} model {mlw[j]!r}", False
    if not close(float(np.sum(w)), 1.0, 1e-12):
        return f"posterior{spec}: returned weights sum to {float(np.sum(w))!r}", False
    return None, False


def _trim_tie(w0, n_impl, n_model):
    ws = np.sort(np.asarray(w0, dtype=float))[::-1]
    a, b = min(n_impl, n_model), max(n_impl, n_model)
    if a == 0 or b > len(ws):
        return False
    return abs(ws[a - 1] - ws[b - 1]) <= 1e-9 * ws[a - 1]


# ====================================================================== suites shared by C01 and C02
def bimodal_target(rng, d):
    m = np.array([rng.uniform(1.5, 2.5) for _ in range(d)])
    s2 = rng.uniform(0.05, 0.2)

    def prior(u):
        return 8.0 * u - 4.0

    def like(x):
        a = -0.5 * float(np.sum((x - m) ** 2)) / s2
        b = -0.5 * float(np.sum((x + m) ** 2)) / s2
        return float(np.logaddexp(a, b))
    return prior, like


def plain_target(rng, d, with_hole):
    """as harness.c01.make_target but never the very narrow variant (a complete real run on it takes hundreds of iterations)"""
    mu = np.array([rng.uniform(-1.5, 1.5) for _ in range(d)])
    s2 = rng.uniform(0.3, 1.5)

    def prior(u):
        return 8.0 * u - 4.0

    def like(x):
        if with_hole and x[0] < -2.0:
            return -np.inf
        return -0.5 * float(np.sum((x - mu) ** 2)) / s2
    return prior, like


def thin_target(rng, d):
    """only 12.5 % of the prior mass has a finite likelihood: with small batches a whole warm-up batch without a finite draw is
    frequent, so the redraw loop of `Mutator.run` (repair of F8) is exercised"""
    mu = np.array([3.5] + [rng.uniform(-1.0, 1.0) for _ in range(d - 1)])
    s2 = rng.uniform(0.05, 0.3)

    def prior(u):
        return 8.0 * u - 4.0

    def like(x):
        if x[0] < 3.0:
            return -np.inf
        return -0.5 * float(np.sum((x - mu) ** 2)) / s2
    return prior, like


def weak_target(rng, d):
    """weakly informative likelihood (unit Gaussian under U(-2.5, 2.5)^d): the warm-up pool already has enough effective sample
    size at beta = 1, so the temperature goes 0 -> 1 in ONE step (`_find_beta_upper_limit` returns 1.0 on its early exit)"""
    mu = np.array([rng.uniform(-0.3, 0.3) for _ in range(d)])

    def prior(u):
        return 5.0 * u - 2.5

    def like(x):
        return -0.5 * float(np.sum((x - mu) ** 2))
    return prior, like


def wide_target(rng, d):
    """unit Gaussian under U(-10, 10)^d: with a tight volume-variation target and few particles the dynamic mode HOLDS beta
    (target below the metric at beta_prev although the ESS would allow an advance)"""
    mu = np.array([rng.uniform(-1.0, 1.0) for _ in range(d)])

    def prior(u):
        return 20.0 * u - 10.0

    def like(x):
        return -0.5 * float(np.sum((x - mu) ** 2)) - 0.5 * d * math.log(2 * math.pi)
    return prior, like


def edge_target(rng, d, coords):
    """posterior mass piled up at the faces of the given (periodic / reflective) coordinates, so that accepted moves cross them"""
    s2 = rng.uniform(0.1, 0.4)
    mu = np.array([rng.uniform(-1.0, 1.0) for _ in range(d)])
    cs = set(coords)

    def prior(u):
        return 8.0 * u - 4.0

    def like(x):
        t = 0.0
        for i in range(d):
            t += (min(abs(float(x[i]) - 4.0), abs(float(x[i]) + 4.0)) ** 2) if i in cs else (float(x[i]) - mu[i]) ** 2
        return -0.5 * t / s2
    return prior, like


def gen_config(rng, i, vv_choices=(0.5, 0.3, 0.2, 0.1), narrow=True, force_vv=False):
    """one configuration of the lattice kernel x resampler x clustering x reweighting mode x boundary kind x target.
    The first four are cycled (every combination appears), the rest is drawn."""
    from .c01 import make_target
    kernel = ("tpcn", "rwm")[i % 2]
    resample = ("syst", "mult")[(i // 2) % 2]
    clustering = bool((i // 4) % 2)
    vv = [None, None, rng.choice(list(vv_choices)), None][(i // 8 + i) % 4]
    if force_vv and vv is None:
        vv = rng.choice(list(vv_choices))
    bimodal = clustering and rng.random() < 0.5
    if bimodal:
        d, n = 2, 48
        prior, like = bimodal_target(rng, d)
        hole = False
    else:
        d = rng.choice([1, 2, 2, 3])
        # populations of 8 in d >= 2 regularly give numerically singular modes (F24 family): not comparable, so mostly avoided
        n = rng.choice({1: [8, 16, 24], 2: [8, 16, 24, 24], 3: [16, 24, 32]}[d])
        hole = rng.random() < 0.35
        prior, like = make_target(rng, d, hole) if narrow else plain_target(rng, d, hole)
        if rng.random() < 0.12:
            hole, n = "thin", min(n, 16)
            prior, like = thin_target(rng, d)
        elif vv is None and rng.random() < 0.15:
            hole, d = "weak", rng.choice([1, 1, 2])
            n = rng.choice([16, 24, 32])
            prior, like = weak_target(rng, d)
        elif vv is not None and rng.random() < 0.5:
            hole, d, n = "wide", 2, 32
            vv = rng.choice([0.05, 0.04])
            prior, like = wide_target(rng, d)
    bk = rng.choice(["hard", "hard", "periodic", "reflective", "mixed"])
    periodic = reflective = None
    if bk == "periodic":
        periodic = [rng.randrange(d)]
    elif bk == "reflective":
        reflective = [rng.randrange(d)]
    elif bk == "mixed" and d >= 2:
        idx = list(range(d))
        rng.shuffle(idx)
        periodic, reflective = [idx[0]], [idx[1]]
    elif bk == "mixed":
        bk = "hard"
    if bk != "hard" and not bimodal and hole in (False, True) and rng.random() < 0.5:
        hole = "edge"
        prior, like = edge_target(rng, d, (periodic or []) + (reflective or []))
    # an integer ess_ratio makes ESS = target an exact tie at warm-up iteration k = ess_ratio; in dynamic mode that tie decides
    # whether the run leaves beta = 0 at all, so it is avoided there (in ESS mode both outcomes give beta = 0)
    ess_ratio = rng.choice([1.5, 2.5, 1.7]) if vv is not None else rng.choice([1.5, 2.0, 3.0])
    cfg = dict(kernel=kernel, resample=resample, clustering=clustering, volume_variation=vv, periodic=periodic,
               reflective=reflective, n=n, d=d, ess_ratio=ess_ratio, n_steps=rng.choice([1, 1, 2]), n_max_steps=rng.choice([2, 4, 6]),
               cluster_every=rng.choice([1, 1, 2]) if clustering else 1)
    meta = dict(cfg, hole=hole, bimodal=bimodal, boundary=bk)
    return cfg, meta, prior, like


def _tags(c, meta, rec):
    c.count(f"{meta['kernel']}/{meta['resample']}")
    c.count("clustering_on" if meta["clustering"] else "clustering_off")
    c.count("mode_vv" if meta["volume_variation"] is not None else "mode_ess")
    c.count("boundary_" + meta["boundary"])
    c.count("target_bimodal" if meta["bimodal"] else ("target_thin_support" if meta["hole"] == "thin" else
            ("target_edge(mass at a folded face)" if meta["hole"] == "edge" else
             "target_weak(one-step to beta=1)" if meta["hole"] == "weak" else ("target_wide(tight vv)" if meta["hole"] == "wide" else
             ("target_hole" if meta["hole"] else "target_plain")))))
    bs = [it["beta"] for it in rec.impl]
    c.count("runs_beta_0_to_1_in_one_step", int(any(a == 0.0 and b == 1.0 for a, b in zip(bs, bs[1:]))))
    if meta["volume_variation"] is not None:
        c.count("vv_iterations_holding_beta", sum(1 for a, b in zip(bs[1:], bs[2:]) if a == b and b < 1.0))
    c.count(f"d={meta['d']}")
    c.count("iterations", len(rec.impl))
    ann = [it for it in rec.impl if it["beta"] > 0]
    c.count("annealing_iterations", len(ann))
    c.count("mcmc_steps", sum(it["nsteps"] for it in ann))
    c.count("iterations_with_K>=2", sum(1 for it in ann if it.get("K", 1) >= 2))
    c.count("iterations_steps_above_minimum", sum(1 for it in ann if it["nsteps"] > meta["n_steps"] * meta["d"]))
    c.count("out_of_cube_proposals", sum(int(np.sum(~_inb(rec, st))) for it in ann for st in it["steps"]))
    c.count("accepted_moves_across_a_folded_face", sum(int(np.sum(np.asarray(m) & _crossed(rec, st))) for it in ann
                                                       for m, st in zip(it["masks"], it["steps"])))
    c.count("minus_inf_proposals", sum(int(np.sum(np.isneginf(st["lp"]))) for it in ann for st in it["steps"]))
    c.count("accepted_moves", sum(int(np.sum(m)) for it in ann for m in it["masks"]))


def _crossed(rec, st):
    """walkers whose raw proposal left [0,1] in a folded coordinate: detected from the folded candidate being far from the start"""
    c = rec.s._core.config
    folded = [int(i) for i in (list(c.periodic) if c.periodic is not None else []) + (list(c.reflective) if c.reflective is not None else [])]
    cand = np.array(st["cand"])
    if not folded or cand.size == 0:
        return np.zeros(len(cand), dtype=bool)
    return np.any((cand[:, folded] < 0.03) | (cand[:, folded] > 0.97), axis=1)


def _inb(rec, st):
    from tempest.mcmc import check_bounds
    c = rec.s._core.config
    return np.atleast_1d(check_bounds(np.array(st["cand"]), c.periodic, c.reflective))


def suite_replay(tier, rng_name, n_quick=32, n_thorough=200, force_vv=False, name="extended-trace-replay"):
    """iteration-driven replay over the configuration lattice (at most 14 iterations per run); `force_vv`: every run in
    volume-variation mode (half of them with the tight targets under which the dynamic mode holds beta)"""
    from .common import Corr
    drv = common.Driver()
    rng = common.rng_for(rng_name)
    c = Corr(name, "toleranced Float (values 1e-9, decisions exact, near-ties counted)")
    n_runs = n_quick if tier == "quick" else n_thorough
    recs, lines = [], []
    for i in range(n_runs):
        cfg, meta, prior, like = gen_config(rng, i, force_vv=force_vv)
        seed = rng.randrange(2 ** 31)
        meta["seed"] = seed
        np.random.seed(seed)
        rec = RecorderX(like=like, prior=prior, **cfg)
        rec.s._core._initialize_fresh()
        rec.s._core.n_total = 3 * cfg["n"] if not meta["bimodal"] else 2 * cfg["n"]
        try:
            k = 0
            while rec.s._core._not_termination() and k < 14:
                rec.iteration()
                k += 1
        except np.linalg.LinAlgError:
            c.count("aborted_singular_mode(F24)")        # recorded finding of C18: tiny clusters, not this property
            continue
        if rec.redrawn:
            c.count("warmup_batch_redrawn")            # modelled since 959029e (`Model.Pipeline.warmupR`)
        recs.append((rec, meta))
        lines.append(rec.model_line())
        annealed = sum(1 for it in rec.impl if it["beta"] > 0)
        c.case(sorted((k_, str(v)) for k_, v in meta.items()), annealed >= 1)
        _tags(c, meta, rec)
    for (rec, meta), ans in zip(recs, drv.batch(lines)):
        prob, tie = compare(rec, ans)
        if tie:
            c.near_ties += 1
            c.count("near_tie_ill_conditioned_mode" if ill_conditioned(rec) else "near_tie_other")
        if prob:
            c.disagree(input=meta, impl=prob, model=ans[:200])
        c.sample({"config": meta, "betas": [round(it["beta"], 4) for it in rec.impl], "steps": [it["nsteps"] for it in rec.impl]})
    return c


POST_SPECS = 4


def _post_specs(rng):
    return [dict(trim=True, resample=False, ess_trim=0.99, bins=1000, u0=0.0),           # the default call
            dict(trim=False, resample=False, ess_trim=0.99, bins=1000, u0=0.0),
            dict(trim=True, resample=True, ess_trim=rng.choice([0.9, 0.99, 0.5]), bins=rng.choice([10, 100, 1000]), u0=rng.random()),
            dict(trim=False, resample=True, ess_trim=0.99, bins=1000, u0=rng.random())]


def suite_real_runs(tier, rng_name, what, n_quick=12, n_thorough=80):
    """real `Sampler.run(n_total)` calls, recorded: the model must follow the loop guard to the same end; then
    what='posterior': `Sampler.posterior(...)` (4 option sets per run) against `posteriorX` on the model's final pool;
    what='evidence':  `Sampler.evidence()[0]` against the model's epilogue value."""
    from .common import Corr
    drv = common.Driver()
    rng = common.rng_for(rng_name)
    name = "posterior-of-run" if what == "posterior" else "evidence-of-run"
    c = Corr(name, "toleranced Float (positions / records exact, weights and evidence 1e-9)")
    n_runs = n_quick if tier == "quick" else n_thorough
    recs, lines = [], []
    for i in range(n_runs):
        cfg, meta, prior, like = gen_config(rng, i, vv_choices=(0.5, 0.4, 0.3), narrow=False)
        if cfg["n"] > 24:
            cfg["n"], meta["n"] = 32, 32
        seed = rng.randrange(2 ** 31)
        meta["seed"] = seed
        rec = RecorderX(like=like, prior=prior, random_state=seed, **cfg)
        # n_total above the annealing ESS target (ess_ratio <= 3): the run has to go on at beta = 1 until the ESS clause of the
        # loop guard is met, so both clauses of `_not_termination` decide iterations of every run
        nt = int(rng.choice([3, 3.5, 4]) * cfg["n"])
        try:
            rec.run(nt)
        except np.linalg.LinAlgError:
            c.count("aborted_singular_mode(F24)")
            continue
        posts = _post_specs(rng) if what == "posterior" else []
        if rec.redrawn:
            c.count("warmup_batch_redrawn")
        if len(rec.impl) > 30 or len(rec.impl) * sum(len(it["logl"]) for it in rec.impl) > 12000:
            c.count("skipped_long_run")   # the list-based model is quadratic in the history length
            continue
        recs.append((rec, meta, posts, nt))
        lines.append(rec.model_line(guard=True, n_total=nt, posts=posts))
        c.case(sorted((k_, str(v)) for k_, v in meta.items()), sum(1 for it in rec.impl if it["beta"] > 0) >= 1)
        _tags(c, meta, rec)
    for (rec, meta, posts, nt), ans in zip(recs, drv.batch(lines)):
        prob, tie = compare(rec, ans)
        if tie:
            c.near_ties += 1
            c.count("near_tie_ill_conditioned_mode" if ill_conditioned(rec) else "near_tie_other")
            continue
        if prob is None:
            _its, _b, ev, mposts = parse_answer(ans)
            if what == "evidence":
                zr = float(rec.s.evidence()[0])
                zs = float(rec.s.state.get_current("logz"))
                if ev is None or not close(ev, zr):
                    prob = f"evidence(): implementation {zr!r}, model {ev!r}"
                elif f2hex(zr) != f2hex(zs) or rec.s.evidence()[1] is not None:
                    prob = f"evidence() = {rec.s.evidence()!r} but state logz = {zs!r}"
                c.count("runs_with_final_beta_1", int(rec.impl[-1]["beta"] == 1.0))
            else:
                for sp, mp in zip(posts, mposts):
                    p2, t2 = compare_posterior(rec, sp, mp)
                    c.count(f"posterior_calls_trim={int(sp['trim'])}_resample={int(sp['resample'])}")
                    if t2:
                        c.near_ties += 1
                    elif p2:
                        prob = p2
                        break
        if prob:
            c.disagree(input=meta, impl=prob, model=ans[:200])
        c.sample({"config": meta, "iterations": len(rec.impl), "n_total": nt})
    return c
