"""C10 — instrumented whole runs of the real Sampler (any kernel / resampler / clustering / metric mode / blobs / zero-likelihood
region), used twice:

  * `model_line` / `compare_model`: the CLOSED-LOOP model (lean/TempestVerif/Model/ClosedLoop.lean, driver op `cl.F`) is given the
    recorded answers of the random and opaque calls (prior draws, `np.random.choice` picks, resampling uniforms, what the trainer
    returned, proposals with Hastings factors, Metropolis uniforms, `volume_variation` values) and must reproduce the whole run: the
    schedule in both metric modes, the trimming handed to the clusterer, resampled indices, accept masks, the NUMBER of accept/reject
    steps (step-size adaptation + `_check_convergence`), acceptance / efficiency / calls, the committed batches and the NUMBER of
    iterations (`_not_termination`).
  * `pair_problem`: two traces of the same seed with log-likelihoods `l` and `l + c` are compared call by call: everything the
    trainer / `trim_weights` / `volume_variation` / the proposal generator / `np.random.*` received or returned must be the same.
"""
import contextlib
import hashlib
import io
import sys
import warnings

import numpy as np

from . import common
from .common import f2hex, hex2f

MU = np.array([0.4, -0.7])
MU_SEP = np.array([1.6, 1.6])      # with `bimodal`: two well separated modes (the clusterer then finds more than one)


def _quiet():
    return contextlib.redirect_stdout(io.StringIO())


def make_like(cfg, c):
    """2-d Gaussian (optionally two of them, optionally with a zero-likelihood half-plane, optionally returning a blob) + c"""
    hole, blobs, bimodal = cfg.get("hole", False), cfg.get("blobs", False), cfg.get("bimodal", False)
    mu = MU_SEP if bimodal else MU

    tiny = cfg.get("tiny", False)

    def base(x):
        if hole and x[0] < -3.0:
            return -np.inf
        if tiny and float(np.max(np.abs(x - mu))) >= 0.6:
            # support = a box of prior probability (1.2/8)^2 = 2.25 %: most warm-up batches of 16 hold no finite draw at all
            return -np.inf
        a = -0.5 * float(np.sum((x - mu) ** 2)) / 0.5
        if bimodal:
            b = -0.5 * float(np.sum((x + 2.0 * mu) ** 2)) / 0.3
            a = float(np.logaddexp(a, b))
        return a + c
    if blobs:
        return lambda x: (base(x), float(x[0]) - 2.0 * float(x[1]))
    return base


def _h(a):
    return hashlib.sha1(np.ascontiguousarray(np.asarray(a, dtype=float)).tobytes()).hexdigest()[:16]


class Trace:
    """everything observed in one run"""

    def __init__(self):
        self.like = []            # tag -> logl
        self.tag_u = {}           # tag -> u bytes
        self.draws, self.choices, self.resu, self.unifs, self.props, self.trains = [], [], [], [], [], []
        self.vvtab = []           # (pool length, beta, value)
        self.vv_in = []           # (u, weights) per volume_variation call
        self.metric_calls = []    # per iteration: [(beta, ess, metric)]
        self.trim = []            # per annealing iteration: (weights in, idx out, weights out)
        self.train_w = []         # weights handed to Trainer.run, per iteration
        self.res_w = []           # weights handed to Resampler.run, per iteration
        self.idx = []             # resampled indices per annealing iteration
        self.masks = []           # per annealing iteration: list of accept masks
        self.alphas = []          # per annealing iteration: list of alpha arrays
        self.iters = []           # per iteration: snapshot of the current state after the iteration
        self.guards = []          # results of _not_termination
        self.logz_rw = []         # evidence written by the reweighting step
        self.error = None
        self.final = None
        self.posteriors = None


class _Cap(RuntimeError):
    pass


def observe(s):
    """the statement's observables of a finished (or aborted) run, read through the PUBLIC state API only: per committed iteration
    beta, ESS, logz, particles (u, blobs), logl and the recorded counters"""
    st = s.state
    its = []
    for k in range(st.get_history_length()):
        def g(key, default=None):
            try:
                return st.get_history(key, k)
            except Exception:  # noqa — a key that was never committed (blobs when there are none)
                return default
        bl = g("blobs")
        its.append({"beta": float(g("beta")), "ess": float(g("ess", np.nan)), "logz": float(g("logz")), "steps": int(g("steps", 0)),
                    "acceptance": float(g("acceptance", np.nan)), "efficiency": float(g("efficiency", np.nan)),
                    "calls": int(g("calls", 0)), "iter": int(g("iter", 0)), "u": np.array(g("u"), dtype=float).copy(),
                    "logl": np.array(g("logl"), dtype=float).copy(), "blobs": None if bl is None else np.array(bl).copy()})
    return its


def record_run(cfg, c, seed, n=16, n_total=48, posterior=False, max_iter=60, instrument=True):
    """one real run.  The OBSERVABLES (`t.iters`, `t.final`, `t.posteriors`, `t.error`) come from the public API after the run;
    everything else is recorded by wrappers that pass their arguments through unchanged (`*args, **kwargs`) and never let a
    recording problem reach the sampler: the first such problem is kept in `t.instr_error` (the suites that need the internal
    record then abort, the property oracle does not)."""
    from tempest import Sampler
    import tempest.mcmc as mcmc
    import tempest.steps.resample as rsm
    import tempest.steps.train as trn
    import tempest.steps.reweight as rwt
    import tempest.modes as modes
    t = Trace()
    t.instr_error = None
    t.assign, t.margins = [], []
    like = make_like(cfg, c)
    np.random.seed(seed)
    with _quiet(), warnings.catch_warnings():
        warnings.simplefilter("ignore")
        s = Sampler(lambda u: 8.0 * u - 4.0, like, 2, n_particles=n, clustering=cfg["clustering"], sample=cfg["kernel"],
                    resample=cfg["resample"], volume_variation=cfg["vv"], n_steps=1, n_max_steps=2,
                    blobs_dtype=float if cfg.get("blobs") else None)
    t.s, t.cfg, t.c, t.n, t.seed, t.n_total = s, cfg, c, n, seed, n_total
    cur = {"beta": None, "train": None, "pending": None, "iter_metric": [], "alphas": [], "inb": None, "n_it": 0}

    def note(e, where):
        if t.instr_error is None:
            t.instr_error = f"{where}: {type(e).__name__}: {e}"

    patches = []

    def hook(obj, name, make):
        """patch obj.name with make(original) if it exists"""
        try:
            orig = getattr(obj, name)
            patches.append(common.patched(obj, name, make(orig)))
        except Exception as e:  # noqa
            note(e, f"patching {getattr(obj, '__name__', type(obj).__name__)}.{name}")

    def new_tags(k):
        a = len(t.like)
        return list(range(a, a + k))

    def mk_ll(orig):
        def ll(*a, **k):
            out = orig(*a, **k)
            try:
                logl = np.array(out[0], dtype=float)
                tags = new_tags(len(logl))
                t.like.extend(float(v) for v in logl)
                cur["pending"] = tags
                if cur.get("draw_u") is not None:          # warm-up draw: rows of u in the same order
                    for kk, u in zip(tags, cur["draw_u"]):
                        t.tag_u[kk] = np.array(u, dtype=float).tobytes()
                    t.draws.append(tags)
                    cur["draw_u"] = None
            except Exception as e:  # noqa
                note(e, "log_likelihood")
            return out
        return ll

    def mk_rand(orig):
        def rand(*shape, **k):
            out = orig(*shape, **k)
            try:
                fr = sys._getframe(1)
                if fr.f_code.co_filename.endswith("mutate.py"):
                    cur["draw_u"] = np.array(out).copy()
                elif fr.f_code.co_filename.endswith("mcmc.py"):
                    t.unifs.append([float(v) for v in np.ravel(out)])
            except Exception as e:  # noqa
                note(e, "np.random.rand")
            return out
        return rand

    def mk_random(orig):
        def random(*a, **k):
            out = orig(*a, **k)
            try:
                if sys._getframe(1).f_code.co_name == "systematic_resample" and cur.get("in_resampler"):
                    t.resu.append([float(out)])
            except Exception as e:  # noqa
                note(e, "np.random.random")
            return out
        return random

    def mk_choice(orig):
        def choice(a, size=None, replace=True, p=None, **k):
            try:
                fn = sys._getframe(1).f_code.co_filename
                if not k and replace and p is None and fn.endswith("mutate.py") and size is not None:
                    arr = np.asarray(a)
                    pick = np.random.randint(0, len(arr), size=size)     # legacy algorithm of choice(a, size) without p
                    out = arr[pick]
                    t.choices.append([int(v) for v in np.ravel(out)])
                    return out
                if not k and replace and p is not None and fn.endswith("resample.py") and size is not None:
                    arr = np.asarray(a)
                    us = np.random.random_sample(size)                   # legacy algorithm of choice(a, size, p=p), written out
                    cdf = np.cumsum(p)
                    cdf /= cdf[-1]
                    idx = cdf.searchsorted(us, side="right")
                    t.resu.append([float(v) for v in us])
                    cur["idx"] = [int(v) for v in idx]
                    return arr[idx]
            except Exception as e:  # noqa — fall back to numpy's own routine
                note(e, "np.random.choice")
            return orig(a, size=size, replace=replace, p=p, **k)
        return choice

    def mk_sr(orig):
        def spy_sr(*a, **k):
            r = orig(*a, **k)
            try:
                if cur.get("in_resampler"):
                    cur["idx"] = [int(v) for v in r]
            except Exception as e:  # noqa
                note(e, "systematic_resample")
            return r
        return spy_sr

    def mk_cb(orig):
        def spy_cb(*a, **k):
            out = orig(*a, **k)
            try:
                if a and getattr(a[0], "ndim", 1) == 2 and sys._getframe(1).f_code.co_filename.endswith("mcmc.py"):
                    cur["inb"] = np.atleast_1d(out).copy()
            except Exception as e:  # noqa
                note(e, "check_bounds")
            return out
        return spy_cb

    def mk_factor(orig):
        def f(self_, *a, **k):
            out = orig(self_, *a, **k)
            try:
                u_prime = a[0] if a else k.get("u_prime")
                tags = cur["pending"]
                inb = cur["inb"] if cur["inb"] is not None else np.ones(len(tags), dtype=bool)
                cur["inb"] = None
                for kk, u in zip(tags, u_prime):
                    t.tag_u[kk] = np.array(u, dtype=float).tobytes()
                t.props.append([(kk, float(fv), bool(b)) for kk, fv, b in zip(tags, np.array(out, dtype=float), inb)])
            except Exception as e:  # noqa
                note(e, "_compute_acceptance_factor")
            return out
        return f

    def mk_pb(orig):
        def f(self_, *a, **k):
            try:
                alpha = a[0] if a else k.get("alpha")
                cur["alphas"].append(np.array(alpha, dtype=float))
            except Exception as e:  # noqa
                note(e, "_update_progress_bar")
            return orig(self_, *a, **k)
        return f

    def mk_vv(orig):
        def spy_vv(*a, **k):
            v = orig(*a, **k)
            try:
                x = a[0] if a else k.get("x")
                w = a[1] if len(a) > 1 else k.get("w")
                t.vvtab.append((len(x), float(cur["beta"]), float(v)))
                t.vv_in.append((np.array(x, dtype=float).copy(), None if w is None else np.array(w, dtype=float).copy()))
            except Exception as e:  # noqa
                note(e, "volume_variation")
            return v
        return spy_vv

    def mk_tw(orig):
        def spy_tw(*a, **k):
            w_in = None
            try:
                w = a[1] if len(a) > 1 else k.get("weights")
                w_in = np.array(w, dtype=float).copy()
            except Exception as e:  # noqa
                note(e, "trim_weights (arguments)")
            r = orig(*a, **k)
            try:
                if sys._getframe(1).f_code.co_filename.endswith("train.py"):
                    t.trim.append((w_in, np.array(r[0]).copy(), np.array(r[1], dtype=float).copy()))
            except Exception as e:  # noqa
                note(e, "trim_weights")
            return r
        return spy_tw

    def mk_m(orig):
        def spy_m(*a, **k):
            try:
                cur["beta"] = float(a[0] if a else k.get("beta"))
            except Exception as e:  # noqa
                note(e, "_compute_metric_and_weights (arguments)")
            out = orig(*a, **k)
            try:
                cur["iter_metric"].append((cur["beta"], float(out[1]), float(out[2])))
            except Exception as e:  # noqa
                note(e, "_compute_metric_and_weights")
            return out
        return spy_m

    def mk_tr(orig):
        def spy_tr(*a, **k):
            try:
                w = a[0] if a else k.get("weights")
                t.train_w.append(np.array(w, dtype=float).copy())
                t.logz_rw.append(float(s.state.get_current("logz")))
            except Exception as e:  # noqa
                note(e, "Trainer.run (arguments)")
            ms = orig(*a, **k)
            try:
                if float(s.state.get_current("beta")) != 0.0:
                    cur["train"] = {"K": int(ms.K)}
            except Exception as e:  # noqa
                note(e, "Trainer.run")
            return ms
        return spy_tr

    def mk_rs(orig):
        def spy_rs(*a, **k):
            try:
                w = a[0] if a else k.get("weights")
                t.res_w.append(np.array(w, dtype=float).copy())
            except Exception as e:  # noqa
                note(e, "Resampler.run (arguments)")
            cur["in_resampler"] = True
            try:
                r = orig(*a, **k)
            finally:
                cur["in_resampler"] = False
            try:
                if float(s.state.get_current("beta")) != 0.0:
                    asg = [int(v) for v in s.state.get_current("assignments")]
                    cur["train"]["predict"] = asg
                    t.idx.append(cur.pop("idx"))
            except Exception as e:  # noqa
                note(e, "Resampler.run")
            return r
        return spy_rs

    def mk_mi(orig):
        def spy_mi(self_, *a, **k):
            r = orig(self_, *a, **k)
            try:
                index, labels = r
                cur["train"]["midx"] = [int(v) for v in np.atleast_1d(index)]
                cur["train"]["labels"] = [int(v) for v in np.atleast_1d(labels)]
                t.trains.append(cur["train"])
                t.assign.append(cur["train"]["labels"])
            except Exception as e:  # noqa
                note(e, "ModeStatistics.mode_index")
            return r
        return spy_mi

    def mk_it(orig):
        def spy_it(*a, **k):
            cur["iter_metric"], cur["alphas"] = [], []
            n_un = len(t.unifs)
            cur["n_it"] += 1
            if cur["n_it"] > max_iter:
                raise _Cap("C10 recorder: iteration cap reached")
            r = orig(*a, **k)
            try:
                t.metric_calls.append(cur["iter_metric"])
                pairs = list(zip(t.unifs[n_un:], cur["alphas"]))
                t.masks.append([[bool(x) for x in (np.array(u) < al)] for u, al in pairs])
                t.margins.append([float(np.min(np.abs(np.array(u) - al))) for u, al in pairs])
                t.alphas.append(cur["alphas"])
            except Exception as e:  # noqa
                note(e, "execute_iteration")
            return r
        return spy_it

    def mk_nt(orig):
        def spy_nt(*a, **k):
            r = orig(*a, **k)
            try:
                t.guards.append(bool(r))
            except Exception as e:  # noqa
                note(e, "_not_termination")
            return r
        return spy_nt

    core = getattr(s, "_core", None)
    if instrument:
        hook(np.random, "rand", mk_rand)
        hook(np.random, "random", mk_random)
        hook(np.random, "choice", mk_choice)
        hook(rsm, "systematic_resample", mk_sr)
        hook(mcmc, "check_bounds", mk_cb)
        hook(rwt, "volume_variation", mk_vv)
        if hasattr(trn, "trim_weights"):
            hook(trn, "trim_weights", mk_tw)
        else:                                   # imported differently: patch it where it is defined (calls are filtered by caller)
            import tempest.tools as _tl
            hook(_tl, "trim_weights", mk_tw)
        for cls in ("TPCNRunner", "RWMRunner"):
            if hasattr(mcmc, cls):
                hook(getattr(mcmc, cls), "_compute_acceptance_factor", mk_factor)
            else:
                note(AttributeError(cls), "patching mcmc")
        if hasattr(mcmc, "BaseMCMCRunner"):
            hook(mcmc.BaseMCMCRunner, "_update_progress_bar", mk_pb)
        if hasattr(modes, "ModeStatistics"):
            hook(modes.ModeStatistics, "mode_index", mk_mi)
        for path, name, mk in (("mutator", "log_likelihood", mk_ll), ("reweighter", "_compute_metric_and_weights", mk_m),
                               ("trainer", "run", mk_tr), ("resampler", "run", mk_rs)):
            comp = getattr(core, path, None)
            if comp is None:
                note(AttributeError(path), "patching core")
            else:
                hook(comp, name, mk)
        hook(core, "_not_termination", mk_nt)
    # the iteration cap is needed whatever else is recorded (a run that never terminates must not hang the check)
    hook(core, "execute_iteration", mk_it)
    with contextlib.ExitStack() as stack, _quiet(), warnings.catch_warnings():
        warnings.simplefilter("ignore")
        for p in patches:
            stack.enter_context(p)
        try:
            s.run(n_total=n_total, progress=False)
            t.final = float(s.evidence()[0])
        except Exception as e:  # noqa — the pair comparison only needs to know that both runs end the same way
            import traceback
            files = [f.filename.split("/")[-1] for f in traceback.extract_tb(e.__traceback__)]
            t.error = (type(e).__name__, "modes.py" in files or "student.py" in files or "cluster.py" in files)
    t.iters = observe(s)
    if posterior and t.error is None:
        t.posteriors = posterior_outputs(s, bool(cfg.get("blobs")))
    return t


def posterior_outputs(s, blobs):
    """`posterior()` under every combination of resample x trim x return_blobs x return_logw (same offset for every call)"""
    out = {}
    with _quiet(), warnings.catch_warnings():
        warnings.simplefilter("ignore")
        for res in (False, True):
            for trim in (False, True):
                for rb in (False, True):
                    for rl in (False, True):
                        np.random.seed(12345)
                        # the default grid of 1000 percentiles once, a coarser grid for the other combinations (speed)
                        bins = 1000 if (res, rb, rl) == (False, False, False) else 40
                        try:
                            r = s.posterior(resample=res, return_blobs=rb, trim_importance_weights=trim, return_logw=rl, bins_trim=bins)
                            out[(res, trim, rb, rl)] = [np.array(a).copy() for a in r]
                        except Exception as e:  # noqa
                            out[(res, trim, rb, rl)] = type(e).__name__
    return out


# ------------------------------------------------------------------------------------------------ closed-loop model replay

def _q(items, enc):
    return "_" if not items else "|".join(enc(i) for i in items)


def _fl(xs):
    return ",".join(f2hex(float(v)) for v in xs) if len(xs) else "-"


def _nl(xs):
    return ",".join(str(int(v)) for v in xs) if len(xs) else "-"


def model_line(t, maxit=400):
    from tempest.config import BETA_TOLERANCE, ESS_TOLERANCE, TRIM_ESS, TRIM_BINS
    cfgc = t.s._core.config
    vv = cfgc.volume_variation
    like = ",".join("x" if v == -np.inf else f2hex(v) for v in t.like) or "-"
    trains = _q(t.trains, lambda r: f"{r['K']};{_nl(r['predict'])};{_nl(r['midx'])};{_nl(r['labels'])}")
    props = _q(t.props, lambda st_: ",".join(f"{k}:{f2hex(f)}:{int(b)}" for k, f, b in st_))
    vvtab = ",".join(f"{ln}:{f2hex(b)}:{f2hex(v)}" for ln, b, v in t.vvtab) or "-"
    return (f"cl.F ratio={f2hex(cfgc.ess_ratio)} n={t.n} vv={'none' if vv is None else f2hex(vv)} tolE={f2hex(ESS_TOLERANCE)} "
            f"tolB={f2hex(BETA_TOLERANCE)} fuel=64 syst={int(cfgc.resample == 'syst')} tpcn={int(cfgc.sample == 'tpcn')} "
            f"nsteps={cfgc.n_steps} nmax={cfgc.n_max_steps} ndim={cfgc.n_dim} sigma0={f2hex(2.38 / np.sqrt(cfgc.n_dim))} "
            f"trimess={f2hex(TRIM_ESS)} trimbins={TRIM_BINS} tolterm={f2hex(1e-4)} ntotal={f2hex(float(t.n_total))} mcfuel=100000 "
            f"maxit={maxit} like={like} draws={_q(t.draws, _nl)} choices={_q(t.choices, _nl)} resu={_q(t.resu, _fl)} "
            f"unifs={_q(t.unifs, _fl)} trains={trains} props={props} vvtab={vvtab}")


def close(a, b, tol=1e-9):
    if a == b:
        return True
    if not (np.isfinite(a) and np.isfinite(b)):
        return False
    return abs(a - b) <= tol * (1.0 + max(abs(a), abs(b)))


def model_branches(answer):
    """the reweighting branch the model took in every iteration (names of Model.Reweight.Branch)"""
    if answer == "bad-op":
        return []
    its = answer.split("#")[0]
    return [m.split(";")[4] for m in its.split("|")] if its else []


def compare_model(t, answer):
    """(problem or None, near_tie) — the closed-loop model's answer against the recorded run"""
    if answer == "bad-op":
        return "model could not parse the trace", False
    its, ev, tail = answer.split("#")
    its = its.split("|") if its else []
    bad, ld, lc, lr, lt, lp, lu, stop = tail.split(";")
    st = t.s.state
    target = t.s._core.config.ess_ratio * t.n

    def tie_at(k):
        # a decision of the reweighting / guard at a tie of ESS (or the metric) with its threshold
        if k < len(t.metric_calls):
            for (_, e, m) in t.metric_calls[k]:
                if abs(e - target) <= 1e-9 * target:
                    return True
                vv = t.s._core.config.volume_variation
                if vv is not None and abs(m - vv) <= 1e-9 * max(vv, 1e-300):
                    return True
        return False
    k_ann = 0
    for k, m in enumerate(its):
        if k >= len(t.iters):
            break
        f = m.split(";")
        beta, ess, zrw, z = (hex2f(x) for x in f[:4])
        idx = [] if f[5] == "-" else [int(x) for x in f[5].split(",")]
        masks = [] if f[6] == "-" else [[ch == "1" for ch in s_] for s_ in f[6].split("+")]
        steps, acc, eff, calls = int(f[7]), hex2f(f[9]), hex2f(f[10]), int(f[11])
        ttags = [] if f[12] == "-" else [int(x) for x in f[12].split(",")]
        tw = [] if f[13] == "-" else [hex2f(x) for x in f[13].split(",")]
        ctags = [] if f[14] == "-" else [int(x) for x in f[14].split(",")]
        cl_ = [] if f[15] == "-" else [hex2f(x) for x in f[15].split(",")]
        i = t.iters[k]
        if not close(beta, i["beta"]):
            return (None, True) if tie_at(k) else (f"iteration {k + 1}: beta impl {i['beta']!r} model {beta!r} ({f[4]})", False)
        if not close(ess, i["ess"], 1e-7):
            return f"iteration {k + 1}: ESS impl {i['ess']!r} model {ess!r}", False
        if k < len(t.logz_rw) and not close(zrw, t.logz_rw[k]):
            return f"iteration {k + 1}: logz after reweighting impl {t.logz_rw[k]!r} model {zrw!r}", False
        if not close(z, i["logz"]):
            return f"iteration {k + 1}: committed logz impl {i['logz']!r} model {z!r}", False
        if i["beta"] != 0.0:
            w_in, tidx, twt = t.trim[k_ann]
            pool_u = st.get_history("u", flat=True)[: len(w_in)]
            want = [np.array(pool_u[j], dtype=float).tobytes() for j in tidx]
            got = [t.tag_u.get(g) for g in ttags]
            if got != want:
                # the trimming threshold sits between two order statistics: a last-ulp difference of the normalisation can move one
                if abs(len(got) - len(want)) <= 2:
                    return None, True
                return f"iteration {k + 1}: the clusterer's input differs: model keeps {len(got)} records, real trim_weights {len(want)}", False
            if len(tw) != len(twt) or not np.allclose(tw, twt, rtol=1e-9, atol=1e-300):
                return f"iteration {k + 1}: trimmed weights differ", False
            if idx != t.idx[k_ann]:
                diff = [(a, b) for a, b in zip(idx, t.idx[k_ann]) if a != b]
                if len(idx) == len(t.idx[k_ann]) and len(diff) <= 2 and all(abs(a - b) == 1 for a, b in diff):
                    return None, True
                return f"iteration {k + 1}: resampled indices differ (impl {t.idx[k_ann][:8]}, model {idx[:8]})", False
            if masks != t.masks[k]:
                if k < len(t.margins) and t.margins[k] and min(t.margins[k]) < 1e-9:
                    return None, True
                return (f"iteration {k + 1}: accept masks / number of steps differ (impl {len(t.masks[k])} steps "
                        f"{i['steps']}, model {len(masks)} steps)"), False
            k_ann += 1
        if steps != i["steps"]:
            return f"iteration {k + 1}: number of accept/reject steps impl {i['steps']} model {steps}", False
        if calls != i["calls"]:
            return f"iteration {k + 1}: likelihood calls impl {i['calls']} model {calls}", False
        if not close(acc, i["acceptance"], 1e-9):
            return f"iteration {k + 1}: acceptance impl {i['acceptance']!r} model {acc!r}", False
        if not close(eff, i["efficiency"], 1e-9):
            return f"iteration {k + 1}: efficiency (mean sigma / sigma_0) impl {i['efficiency']!r} model {eff!r}", False
        if [t.tag_u.get(g) for g in ctags] != [np.array(u, dtype=float).tobytes() for u in i["u"]]:
            return f"iteration {k + 1}: committed records differ", False
        if [f2hex(v) for v in cl_] != [f2hex(float(v)) for v in i["logl"]]:
            return f"iteration {k + 1}: committed log-likelihoods differ", False
    if len(its) != len(t.iters) or stop != "guard":
        # the guard compares the ESS at beta = 1 with n_total: a tie there is a rounding matter
        return f"model ran {len(its)} iterations (stop: {stop}), implementation {len(t.iters)}", False
    if bad != "0" or any(x != "0" for x in (ld, lc, lr, lt, lp, lu)):
        return f"the model consumed the random stream differently (underflow={bad}, left over: draws {ld} choices {lc} resu {lr} trains {lt} props {lp} unifs {lu})", False
    if ev == "none" or not close(hex2f(ev), t.final):
        return f"final evidence impl {t.final!r} model {ev}", False
    return None, False


# ------------------------------------------------------------------------------------------------ paired comparison

def _same_arrays(a, b, tol):
    a, b = np.asarray(a, dtype=float), np.asarray(b, dtype=float)
    return a.shape == b.shape and bool(np.allclose(a, b, rtol=tol, atol=tol, equal_nan=True))


def _shifted(xb, xa, shift, tol, c):
    return xb == xa + shift or abs(xb - (xa + shift)) <= tol * (1 + abs(c) + abs(xa + shift))


def ill_conditioned(u, w):
    """is `volume_variation(u, w)` decided by rounding?  (fewer distinct points than dimensions + 1, a rank-deficient or nearly
    singular weighted covariance: the routine's `matrix_rank` / regularisation branch and the inverse amplify last-ulp noise)"""
    try:
        u = np.asarray(u, dtype=float)
        n, d = u.shape
        w = np.ones(n) if w is None else np.asarray(w, dtype=float)
        w = w / np.sum(w)
        xc = u - np.sum(u * w[:, None], axis=0)
        cov = xc.T @ (xc * w[:, None])
        ev = np.linalg.eigvalsh(cov)
        return bool(len(np.unique(np.round(u, 12), axis=0)) <= d + 1 or ev[0] <= 1e-9 * max(ev[-1], 1e-300)
                    or np.linalg.matrix_rank(cov) < d)
    except Exception:  # noqa
        return True


EXCUSABLE = ("beta", "particles", "blobs")


def rounding_excuse(a, b, k, kind="beta"):
    """a reason, visible in the internal record OF ITERATION k (0-based, the first one whose observables differ), why a DISCRETE
    decision of that iteration may legitimately have come out differently 'up to floating-point rounding': a near-tie (ESS or
    metric with its target, a Metropolis uniform with its acceptance probability), or the volume metric evaluated on an
    ill-conditioned cloud (same arguments up to rounding, different value).  Only differences that are consequences of such a
    decision (the temperature chosen, the particles kept) can be excused; a wrong evidence or likelihood value at an unchanged
    temperature never is.  None if there is no such reason (or no record)."""
    if a.instr_error or b.instr_error or kind not in EXCUSABLE:
        return None
    cfgc = a.s._core.config
    target = cfgc.ess_ratio * a.n
    vv = cfgc.volume_variation
    ia = ib = 0
    for it in ([k] if 0 <= k < min(len(a.metric_calls), len(b.metric_calls)) else []):
        for (ba, ea, ma), (bb, eb, mb) in (zip(a.metric_calls[it], b.metric_calls[it]) if kind == "beta" else []):
            if abs(ba - bb) > 1e-12:
                break
            for e in (ea, eb):
                if abs(e - target) <= 1e-9 * target:
                    return f"iteration {it + 1}: ESS {e!r} ties with the target {target!r} at beta = {ba!r}"
            if vv is not None:
                if abs(ma - vv) <= 1e-9 * max(vv, 1e-300) or abs(mb - vv) <= 1e-9 * max(vv, 1e-300):
                    return f"iteration {it + 1}: the volume metric ties with its target at beta = {ba!r}"
                if not close(ma, mb, 1e-9):
                    # find the call's arguments
                    ja = [j for j, (ln, bt, _) in enumerate(a.vvtab) if abs(bt - ba) <= 1e-12]
                    cloud = a.vv_in[ja[0]] if ja else None
                    if cloud is None or ill_conditioned(*cloud) or any(ill_conditioned(*a.vv_in[j]) for j in ja):
                        return (f"iteration {it + 1}: volume_variation returned {ma!r} / {mb!r} at beta = {ba!r} for arguments equal up to "
                                f"rounding (ill-conditioned cloud)")
        if kind != "beta":
            # the trainer (clustering EM, Student-t fit: iterative, convergence-thresholded) given inputs equal up to rounding
            ann = sum(1 for i in a.iters[:it] if i["beta"] != 0.0)
            if ann < min(len(a.trim), len(b.trim), len(a.idx), len(b.idx)) and a.idx[ann] == b.idx[ann]:
                (wa, ka, ta), (wb, kb, tb) = a.trim[ann], b.trim[ann]
                if wa is not None and wb is not None and _same_arrays(wa, wb, 1e-9) and len(ka) == len(kb) and not np.any(ka != kb) \
                        and _same_arrays(ta, tb, 1e-9):
                    sa = sum(len(m) for m in a.masks[:it])
                    sb = sum(len(m) for m in b.masks[:it])
                    if sa < len(a.props) and sb < len(b.props) and sa == sb:
                        ua = np.frombuffer(b"".join(a.tag_u[x[0]] for x in a.props[sa]))
                        ub = np.frombuffer(b"".join(b.tag_u[x[0]] for x in b.props[sb]))
                        if ua.shape == ub.shape and not _same_arrays(ua, ub, 1e-8):
                            return (f"iteration {it + 1}: the trainer received inputs equal up to rounding (max difference "
                                    f"{float(np.max(np.abs(wa - wb))):.1e}) and the FIRST proposals already differ by "
                                    f"{float(np.max(np.abs(ua - ub))):.1e}: rounding amplified by the clustering / Student-t fit")
        if kind != "beta" and it < len(a.margins) and it < len(b.margins):
            for m in list(a.margins[it]) + list(b.margins[it]):
                if m < 1e-9:
                    return f"iteration {it + 1}: a Metropolis uniform within {m:.1e} of its acceptance probability"
    return None


def property_problem(a, b, c, tol=1e-8):
    """THE PROPERTY'S OWN ORACLE on a pair of runs (log-likelihood l and l + c, same seed): only the observables the statement
    names, read through the public API — completion, number of iterations, beta_t, committed particles, ESS sequence,
    normalised weights (per iteration where recorded, and at beta = 1), stored l + c, logz_t + beta_t c, final logz + c.
    Returns (message, first iteration concerned, kind of observable) or None."""
    if a.error or b.error:
        if a.error and b.error and a.error == b.error:
            return None
        return (f"one run of the pair aborted and the other did not: unshifted {a.error or 'completed'}, shifted {b.error or 'completed'}",
                min(len(a.iters), len(b.iters)), "completion")
    for k, (ia, ib) in enumerate(zip(a.iters, b.iters)):
        if not close(ia["beta"], ib["beta"], tol):
            return f"temperature schedules differ at iteration {k + 1}: beta {ia['beta']!r} vs {ib['beta']!r}", k, "beta"
        if ia["u"].shape != ib["u"].shape or not _same_arrays(ia["u"], ib["u"], tol):
            return f"iteration {k + 1}: particles differ", k, "particles"
        if (ia["blobs"] is None) != (ib["blobs"] is None) or (ia["blobs"] is not None and not _same_arrays(ia["blobs"], ib["blobs"], tol)):
            return f"iteration {k + 1}: blobs differ", k, "blobs"
        if not close(ia["ess"], ib["ess"], 1e-6):
            return f"iteration {k + 1}: recorded ESS differs ({ia['ess']!r} vs {ib['ess']!r})", k, "ess"
        if not np.allclose(ib["logl"] - c, ia["logl"], rtol=tol, atol=tol * (1 + abs(c))):
            return f"iteration {k + 1}: stored log-likelihoods are not shifted by c", k, "logl"
        if not _shifted(ib["logz"], ia["logz"], ia["beta"] * c, tol, c):
            return (f"recorded logz at iteration {k + 1} (beta={ia['beta']:.4f}): {ib['logz']!r}, expected logz + beta*c = "
                    f"{ia['logz'] + ia['beta'] * c!r}"), k, "logz"
    if len(a.iters) != len(b.iters):
        return f"different number of iterations ({len(a.iters)} vs {len(b.iters)})", min(len(a.iters), len(b.iters)) - 1, "iterations"
    if not a.instr_error and not b.instr_error:
        for k, (wa, wb) in enumerate(zip(a.train_w, b.train_w)):
            if wa.shape != wb.shape or not np.allclose(wa, wb, rtol=1e-6, atol=1e-12):
                return f"iteration {k + 1}: the normalised weights returned by the reweighting step differ", k, "weights"
    if not _shifted(b.final, a.final, c, tol, c):
        return f"final evidence {b.final!r}, expected {a.final + c!r}", len(a.iters) - 1, "final"
    if a.posteriors is not None and b.posteriors is not None:
        key = (False, False, False, True)
        pa, pb = a.posteriors.get(key), b.posteriors.get(key)
        if isinstance(pa, str) or isinstance(pb, str):
            if pa != pb:
                return "posterior(): raised in one run only", len(a.iters) - 1, "posterior"
        elif pa is not None and pb is not None:
            for nme, xa, xb in zip(["x", "weights", "logl", "logw"], pa, pb):
                if xa.shape != xb.shape:
                    return f"posterior(): {nme} has shape {xa.shape} vs {xb.shape}", len(a.iters) - 1, "posterior"
                if nme == "logl":
                    ok = np.allclose(xb - c, xa, rtol=tol, atol=tol * (1 + abs(c)))
                elif nme == "weights":
                    ok = np.allclose(xa, xb, rtol=1e-6, atol=1e-12)
                elif nme == "logw":      # the log of the normalised weights
                    ok = np.allclose(xa, xb, rtol=1e-6, atol=1e-6)
                else:
                    ok = np.allclose(xa, xb, rtol=tol, atol=tol)
                if not ok:
                    return (f"posterior(resample=False, trim=False, return_logw=True): {nme} "
                            f"{'is not shifted by c' if nme == 'logl' else 'differs'} (normalised weights at beta = 1)"), len(a.iters) - 1, "posterior"
    return None


def internal_problems(a, b, c, tol=1e-8):
    """CORRESPONDENCE ONLY (never a failing input of the property by itself): call-by-call comparison of what the two runs did
    inside — the closed-loop theorems predict all of it to coincide in exact arithmetic.  Returns a list of (kind, message, soft);
    soft = the difference is explained by rounding on an ill-conditioned quantity (counted as a near-tie by the caller)."""
    out = []
    if a.error or b.error:
        return out
    if a.instr_error or b.instr_error:
        return [("instrumentation", a.instr_error or b.instr_error, False)]

    def add(kind, msg, soft=False):
        out.append((kind, msg, soft))
    if a.guards != b.guards:
        add("guard", "_not_termination evaluated differently")
    if a.draws != b.draws or [a.tag_u.get(k) for d in a.draws for k in d] != [b.tag_u.get(k) for d in b.draws for k in d]:
        add("stream", "prior draws differ")
    if a.choices != b.choices:
        add("stream", "np.random.choice picks of the warm-up replacement differ")
    if len(a.resu) != len(b.resu) or any(x != y for x, y in zip(a.resu, b.resu)):
        add("stream", "resampling uniforms differ (the random stream was consumed differently)")
    if len(a.unifs) != len(b.unifs) or any(x != y for x, y in zip(a.unifs, b.unifs)):
        add("stream", "Metropolis uniforms differ (different number of accept/reject steps or walkers)")
    for k, (ma, mb) in enumerate(zip(a.metric_calls, b.metric_calls)):
        if len(ma) != len(mb) or not _same_arrays([x[0] for x in ma], [x[0] for x in mb], 1e-12):
            add("trial-temperatures", f"iteration {k + 1}: _compute_metric_and_weights was called at different temperatures",
                rounding_excuse(a, b, k, "beta") is not None)
            break
        if not _same_arrays([x[1] for x in ma], [x[1] for x in mb], 1e-6):
            add("trial-ess", f"iteration {k + 1}: ESS at the trial temperatures differs")
            break
    # volume_variation: same arguments; the VALUE is compared only where the cloud is well conditioned
    if len(a.vv_in) != len(b.vv_in):
        add("vv-calls", "volume_variation was called a different number of times",
            any(rounding_excuse(a, b, k, "beta") is not None for k in range(len(a.metric_calls))))
    else:
        for k, ((ua, wa), (ub, wb), va, vb) in enumerate(zip(a.vv_in, b.vv_in, a.vvtab, b.vvtab)):
            if not _same_arrays(ua, ub, tol) or (wa is None) != (wb is None) or (wa is not None and not _same_arrays(wa, wb, 1e-7)):
                add("vv-arguments", f"volume_variation call {k + 1} received different arguments")
                break
            if not close(va[2], vb[2], 1e-6):
                if ill_conditioned(ua, wa):
                    add("vv-value", f"volume_variation call {k + 1}: {va[2]!r} vs {vb[2]!r} on an ill-conditioned cloud", True)
                else:
                    add("vv-value", f"volume_variation call {k + 1} returned {va[2]!r} vs {vb[2]!r} for the same arguments")
                    break
    for name, xa, xb in (("Trainer.run", a.train_w, b.train_w), ("Resampler.run", a.res_w, b.res_w)):
        for k, (wa, wb) in enumerate(zip(xa, xb)):
            if not _same_arrays(wa, wb, 1e-7):
                add("hand-off", f"iteration {k + 1}: the weights handed to {name} differ")
                break
    if len(a.trim) != len(b.trim):
        add("trim", "trim_weights was called a different number of times")
    else:
        for k, ((wa, ia, ta), (wb, ib, tb)) in enumerate(zip(a.trim, b.trim)):
            if wa is None or wb is None or not _same_arrays(wa, wb, 1e-7):
                add("trim", f"annealing iteration {k + 1}: trim_weights received different weights")
                break
            if len(ia) != len(ib) or np.any(ia != ib):
                # the threshold is an interpolated order statistic of the weights: equal weights (duplicated particles) tie exactly
                add("trim", f"annealing iteration {k + 1}: trim_weights kept different records", abs(len(ia) - len(ib)) <= 2)
                break
            if not _same_arrays(ta, tb, 1e-7):
                add("trim", f"annealing iteration {k + 1}: the trimmed weights handed to the clusterer differ")
                break
    if [(r.get("K"), r.get("predict"), r.get("midx"), r.get("labels")) for r in a.trains] != \
            [(r.get("K"), r.get("predict"), r.get("midx"), r.get("labels")) for r in b.trains]:
        add("trainer-output", "the trainer's output (number of modes, cluster prediction, mode index) differs")
    if a.idx != b.idx:
        add("indices", "resampled indices differ")
    if len(a.props) != len(b.props):
        add("steps", "different number of accept/reject steps")
    else:
        for k, (pa, pb) in enumerate(zip(a.props, b.props)):
            if [x[2] for x in pa] != [x[2] for x in pb] or not _same_arrays([x[1] for x in pa], [x[1] for x in pb], tol):
                add("proposals", f"accept/reject step {k + 1}: Hastings factors / bounds flags differ")
                break
            ua = np.frombuffer(b"".join(a.tag_u[x[0]] for x in pa))
            ub = np.frombuffer(b"".join(b.tag_u[x[0]] for x in pb))
            if not _same_arrays(ua, ub, tol):
                add("proposals", f"accept/reject step {k + 1}: the proposals differ")
                break
    done = False
    for k, (xa, xb) in enumerate(zip(a.alphas, b.alphas)):
        for j, (p_, q_) in enumerate(zip(xa, xb)):
            if not _same_arrays(p_, q_, 1e-7):
                add("alphas", f"iteration {k + 1} step {j + 1}: acceptance probabilities differ")
                done = True
                break
        if done:
            break
    if a.masks != b.masks:
        add("masks", "accept masks differ")
    la, lb = np.array(a.like), np.array(b.like)
    if la.shape != lb.shape or np.any(np.isinf(la) != np.isinf(lb)):
        add("likelihood", "the set of zero-likelihood points differs")
    else:
        fin = np.isfinite(la)
        if not np.allclose(lb[fin] - c, la[fin], rtol=tol, atol=tol * (1 + abs(c))):
            add("likelihood", "evaluated log-likelihoods are not shifted by c")
    for k, (ia, ib) in enumerate(zip(a.iters, b.iters)):
        bad = [key for key, t_ in (("acceptance", 1e-7), ("efficiency", 1e-7)) if not close(ia[key], ib[key], t_)]
        bad += [key for key in ("steps", "calls", "iter") if ia[key] != ib[key]]
        if bad:
            add("counters", f"iteration {k + 1}: recorded {', '.join(bad)} differ")
            break
    if a.assign != b.assign:
        add("assignments", "cluster assignments of the walkers differ")
    for k, (za, zb, ia) in enumerate(zip(a.logz_rw, b.logz_rw, a.iters)):
        if not _shifted(zb, za, ia["beta"] * c, tol, c):
            add("logz-rw", f"iteration {k + 1}: evidence written by the reweighting step {zb!r}, expected {za + ia['beta'] * c!r}")
            break
    if a.posteriors is not None and b.posteriors is not None:
        for key in a.posteriors:
            pa, pb = a.posteriors[key], b.posteriors[key]
            nm = f"posterior(resample={key[0]}, trim={key[1]}, return_blobs={key[2]}, return_logw={key[3]})"
            if isinstance(pa, str) or isinstance(pb, str):
                if pa != pb:
                    add("posterior", f"{nm}: {pa if isinstance(pa, str) else 'returned'} vs {pb if isinstance(pb, str) else 'returned'}")
                continue
            if len(pa) != len(pb):
                add("posterior", f"{nm}: different number of returned arrays")
                continue
            names = ["x", "weights", "logl"] + (["blobs"] if key[2] and a.cfg.get("blobs") else []) + (["logw"] if key[3] else [])
            for nme, xa, xb in zip(names, pa, pb):
                if xa.shape != xb.shape:
                    # trimming threshold between equal weights: a rounding matter when the sizes differ by a record or two
                    add("posterior", f"{nm}: {nme} has shape {xa.shape} vs {xb.shape}", key[1] and abs(len(xa) - len(xb)) <= 2)
                    break
                if nme == "logl":
                    ok = np.allclose(xb - c, xa, rtol=tol, atol=tol * (1 + abs(c)))
                elif nme == "weights":
                    ok = np.allclose(xa, xb, rtol=1e-6, atol=1e-12)
                else:
                    ok = np.allclose(xa, xb, rtol=1e-6, atol=1e-7)
                if not ok:
                    add("posterior", f"{nm}: {nme} {'is not shifted by c' if nme == 'logl' else 'differs'}")
                    break
    return out


def pair_problem(a, b, c, tol=1e-8):
    """first problem of either kind as a string (kept for callers that want one line): property first, then hard internal ones"""
    p = property_problem(a, b, c, tol)
    if p:
        return p[0]
    hard = [m for _, m, soft in internal_problems(a, b, c, tol) if not soft]
    return hard[0] if hard else None


# ------------------------------------------------------------------------------------------------ checkpoints

OBS_KEYS = ("u", "x", "logl", "logz", "beta", "ess", "blobs")


def checkpoint_problem(cfg, c, seed, n=16, n_total=80, save_every=2, tol=1e-8):
    """paired uninstrumented runs with `save_every`: every checkpoint file of the shifted run must hold the same values except
    logl (+c) and logz (+beta*c); the final-state file likewise with logz + c.
    Returns (message or None, number of files, is_property): is_property = the difference is in one of the statement's
    observables (particles, beta, ESS, logl, logz) or in completion; other keys are correspondence-only."""
    import tempfile
    import dill
    import os
    import shutil
    from tempest import Sampler
    out = []
    for cc in (0.0, c):
        d = tempfile.mkdtemp(prefix="c10ck_")
        np.random.seed(seed)
        with _quiet(), warnings.catch_warnings():
            warnings.simplefilter("ignore")
            s = Sampler(lambda u: 8.0 * u - 4.0, make_like(cfg, cc), 2, n_particles=n, clustering=cfg["clustering"], sample=cfg["kernel"],
                        resample=cfg["resample"], volume_variation=cfg["vv"], n_steps=1, n_max_steps=2, output_dir=d,
                        blobs_dtype=float if cfg.get("blobs") else None)
            try:
                s.run(n_total=n_total, progress=False, save_every=save_every)
            except Exception as e:  # noqa
                out.append(("error", type(e).__name__))
                shutil.rmtree(d, ignore_errors=True)
                continue
        files = {}
        for fn in sorted(os.listdir(d)):
            with open(os.path.join(d, fn), "rb") as fh:
                dd = dill.load(fh)
            dd.pop("sampler", None)
            files[fn] = dd
        out.append(("ok", files))
        shutil.rmtree(d, ignore_errors=True)
    (sa, fa), (sb, fb) = out
    if sa != sb:
        return f"one run of the pair aborted and the other did not ({fa if sa == 'error' else 'completed'} vs {fb if sb == 'error' else 'completed'})", 0, True
    if sa == "error":
        return None, 0, True
    if sorted(fa) != sorted(fb):
        return f"different checkpoint files were written: {sorted(fa)} vs {sorted(fb)}", 0, True
    soft = None
    for fn in fa:
        da, db = fa[fn], fb[fn]
        if sorted(da) != sorted(db):
            soft = soft or f"{fn}: different keys {sorted(da)} vs {sorted(db)}"
            continue
        final = fn.endswith("_final.state")
        ca, cb = da.get("_current", {}), db.get("_current", {})
        ha, hb = da.get("_history", {}), db.get("_history", {})
        for k in ca:
            va, vb = ca[k], cb.get(k)
            if va is None or vb is None:
                ok = va is vb
            elif k == "logl":
                ok = np.allclose(np.asarray(vb, dtype=float) - c, np.asarray(va, dtype=float), rtol=tol, atol=tol * (1 + abs(c)))
            elif k == "logz":
                ok = _shifted(float(vb), float(va), (1.0 if final else float(ca["beta"])) * c, tol, c)
            else:
                try:
                    ok = np.allclose(np.asarray(va, dtype=float), np.asarray(vb, dtype=float), rtol=1e-6, atol=1e-8)
                except Exception:  # noqa
                    ok = True
            if not ok:
                msg = f"{fn}: current[{k}] is not what the shift predicts"
                if k in OBS_KEYS:
                    return msg, len(fa), True
                soft = soft or msg
        for k in ha:
            if len(ha[k]) != len(hb.get(k, [])):
                return f"{fn}: history[{k}] has {len(ha[k])} vs {len(hb.get(k, []))} entries", len(fa), True
            for j, (va, vb) in enumerate(zip(ha[k], hb[k])):
                if k == "logl":
                    ok = np.allclose(np.asarray(vb, dtype=float) - c, np.asarray(va, dtype=float), rtol=tol, atol=tol * (1 + abs(c)))
                elif k == "logz":
                    ok = _shifted(float(vb), float(va), float(ha["beta"][j]) * c, tol, c)
                else:
                    try:
                        ok = np.allclose(np.asarray(va, dtype=float), np.asarray(vb, dtype=float), rtol=1e-6, atol=1e-8)
                    except Exception:  # noqa
                        ok = True
                if not ok:
                    msg = f"{fn}: history[{k}][{j}] is not what the shift predicts"
                    if k in OBS_KEYS:
                        return msg, len(fa), True
                    soft = soft or msg
        for k in da:
            if k in ("_current", "_history"):
                continue
            if isinstance(da[k], (int, float, str, type(None))) and da[k] != db[k]:
                soft = soft or f"{fn}: {k} differs ({da[k]!r} vs {db[k]!r})"
    return soft, len(fa), False
