"""C10 — instrumented whole runs of the real Sampler (any kernel / resampler / clustering / metric mode / blobs / zero-likelihood
region), used twice:

  * `model_line` / `compare_model`: the CLOSED-LOOP model (lean/TempestVerif/Model/ClosedLoop.lean, driver op `cl.F`) is given the
    recorded answers of the random and opaque calls (prior draws, `np.random.choice` picks, resampling uniforms, what the trainer
    returned, proposals with Hastings factors, Metropolis uniforms, `volume_variation` values) and must reproduce the whole run: the
    schedule in both metric modes, the trimming handed to the clusterer, resampled indices, accept masks, the NUMBER of accept/reject
    steps (step-size adaptation + `_check_convergence`), acceptance / efficiency / calls, the committed batches and the NUMBER of
    iterations (`_not_termination`).
  * `pair_problem`: two traces of the same seed with log-likelihoods `l` and `l + c` are compared call by call: everything the
    trainer / `trim_weights` / `volume_variation` / the proposal generator / `np.random.*` received or returned must be the same.
"""
import contextlib
import hashlib
import io
import sys
import warnings

import numpy as np

from . import common
from .common import f2hex, hex2f

MU = np.array([0.4, -0.7])
MU_SEP = np.array([1.6, 1.6])      # with `bimodal`: two well separated modes (the clusterer then finds more than one)


def _quiet():
    return contextlib.redirect_stdout(io.StringIO())


def make_like(cfg, c):
    """2-d Gaussian (optionally two of them, optionally with a zero-likelihood half-plane, optionally returning a blob) + c"""
    hole, blobs, bimodal = cfg.get("hole", False), cfg.get("blobs", False), cfg.get("bimodal", False)
    mu = MU_SEP if bimodal else MU

    tiny = cfg.get("tiny", False)

    def base(x):
        if hole and x[0] < -3.0:
            return -np.inf
        if tiny and float(np.max(np.abs(x - mu))) >= 0.6:
            # support = a box of prior probability (1.2/8)^2 = 2.25 %: most warm-up batches of 16 hold no finite draw at all
            return -np.inf
        a = -0.5 * float(np.sum((x - mu) ** 2)) / 0.5
        if bimodal:
            b = -0.5 * float(np.sum((x + 2.0 * mu) ** 2)) / 0.3
            a = float(np.logaddexp(a, b))
        return a + c
    if blobs:
        return lambda x: (base(x), float(x[0]) - 2.0 * float(x[1]))
    return base


def _h(a):
    return hashlib.sha1(np.ascontiguousarray(np.asarray(a, dtype=float)).tobytes()).hexdigest()[:16]


class Trace:
    """everything observed in one run"""

    def __init__(self):
        self.like = []            # tag -> logl
        self.tag_u = {}           # tag -> u bytes
        self.draws, self.choices, self.resu, self.unifs, self.props, self.trains = [], [], [], [], [], []
        self.vvtab = []           # (pool length, beta, value)
        self.vv_in = []           # (u, weights) per volume_variation call
        self.metric_calls = []    # per iteration: [(beta, ess, metric)]
        self.trim = []            # per annealing iteration: (weights in, idx out, weights out)
        self.train_w = []         # weights handed to Trainer.run, per iteration
        self.res_w = []           # weights handed to Resampler.run, per iteration
        self.idx = []             # resampled indices per annealing iteration
        self.masks = []           # per annealing iteration: list of accept masks
        self.alphas = []          # per annealing iteration: list of alpha arrays
        self.iters = []           # per iteration: snapshot of the current state after the iteration
        self.guards = []          # results of _not_termination
        self.logz_rw = []         # evidence written by the reweighting step
        self.error = None
        self.final = None
        self.posteriors = None


def record_run(cfg, c, seed, n=16, n_total=48, posterior=False, max_iter=60):
    from tempest import Sampler
    import tempest.mcmc as mcmc
    import tempest.steps.resample as rsm
    import tempest.steps.train as trn
    import tempest.steps.reweight as rwt
    import tempest.modes as modes
    t = Trace()
    like = make_like(cfg, c)
    np.random.seed(seed)
    with _quiet(), warnings.catch_warnings():
        warnings.simplefilter("ignore")
        s = Sampler(lambda u: 8.0 * u - 4.0, like, 2, n_particles=n, clustering=cfg["clustering"], sample=cfg["kernel"],
                    resample=cfg["resample"], volume_variation=cfg["vv"], n_steps=1, n_max_steps=2,
                    blobs_dtype=float if cfg.get("blobs") else None)
    core = s._core
    st = s.state
    t.s, t.cfg, t.c, t.n, t.seed = s, cfg, c, n, seed
    cur = {"beta": None, "train": None, "pending": None, "iter_metric": [], "masks": [], "alphas": [], "inb": None}
    real_rand, real_random, real_choice = np.random.rand, np.random.random, np.random.choice
    real_sr, real_cb, real_vv, real_tw = rsm.systematic_resample, mcmc.check_bounds, rwt.volume_variation, trn.trim_weights

    def new_tags(k):
        a = len(t.like)
        return list(range(a, a + k))

    orig_ll = core.mutator.log_likelihood

    def ll(x):
        out = orig_ll(x)
        logl = np.array(out[0], dtype=float)
        tags = new_tags(len(logl))
        t.like.extend(float(v) for v in logl)
        cur["pending"] = tags
        if cur.get("draw_u") is not None:          # warm-up draw: rows of u in the same order
            for k, u in zip(tags, cur["draw_u"]):
                t.tag_u[k] = np.array(u, dtype=float).tobytes()
            t.draws.append(tags)
            cur["draw_u"] = None
        return out

    def rand(*shape):
        out = real_rand(*shape)
        fr = sys._getframe(1)
        if fr.f_code.co_name == "run" and fr.f_code.co_filename.endswith("mutate.py"):
            cur["draw_u"] = out.copy()
        elif fr.f_code.co_name == "run" and fr.f_code.co_filename.endswith("mcmc.py"):
            t.unifs.append([float(v) for v in out])
        return out

    def random(*a):
        out = real_random(*a)
        if sys._getframe(1).f_code.co_name == "systematic_resample" and cur.get("in_resampler"):
            t.resu.append([float(out)])
        return out

    def choice(a, size=None, replace=True, p=None):
        fr = sys._getframe(1)
        fn = fr.f_code.co_filename
        if p is None and fn.endswith("mutate.py"):
            a = np.asarray(a)
            pick = np.random.randint(0, len(a), size=size)     # legacy algorithm of choice(a, size) without p
            out = a[pick]
            t.choices.append([int(v) for v in out])
            return out
        if p is not None and fn.endswith("resample.py"):
            a = np.asarray(a)
            us = np.random.random_sample(size)                 # legacy algorithm of choice(a, size, p=p), written out
            cdf = np.cumsum(p)
            cdf /= cdf[-1]
            idx = cdf.searchsorted(us, side="right")
            t.resu.append([float(v) for v in us])
            cur["idx"] = [int(v) for v in idx]
            return a[idx]
        return real_choice(a, size=size, replace=replace, p=p)

    def spy_sr(size, weights=None, random_state=None):
        r = real_sr(size, weights=weights)
        if cur.get("in_resampler"):
            cur["idx"] = [int(v) for v in r]
        return r

    def spy_cb(u, periodic=None, reflective=None):
        out = real_cb(u, periodic, reflective)
        if getattr(u, "ndim", 1) == 2 and sys._getframe(1).f_code.co_name == "run":
            cur["inb"] = np.atleast_1d(out).copy()
        return out

    def wrap_factor(orig):
        def f(self_, u_prime, logl_prime):
            out = orig(self_, u_prime, logl_prime)
            tags = cur["pending"]
            inb = cur["inb"] if cur["inb"] is not None else np.ones(len(tags), dtype=bool)
            cur["inb"] = None
            for k, u in zip(tags, u_prime):
                t.tag_u[k] = np.array(u, dtype=float).tobytes()
            t.props.append([(k, float(fv), bool(b)) for k, fv, b in zip(tags, np.array(out, dtype=float), inb)])
            cur["prop_u"] = _h(u_prime)
            return out
        return f

    def wrap_pb(orig):
        def f(self_, alpha):
            cur["alphas"].append(np.array(alpha, dtype=float))
            return orig(self_, alpha)
        return f

    def spy_vv(x, w=None):
        v = real_vv(x, w)
        t.vvtab.append((len(x), float(cur["beta"]), float(v)))
        t.vv_in.append((np.array(x, dtype=float).copy(), np.array(w, dtype=float).copy()))
        return v

    def spy_tw(samples, weights, ess=0.99, bins=1000):
        w_in = np.array(weights, dtype=float).copy()
        idx, wt = real_tw(samples, weights, ess=ess, bins=bins)
        t.trim.append((w_in, np.array(idx).copy(), np.array(wt, dtype=float).copy()))
        return idx, wt

    orig_m = core.reweighter._compute_metric_and_weights

    def spy_m(beta):
        cur["beta"] = float(beta)
        out = orig_m(beta)
        cur["iter_metric"].append((float(beta), float(out[1]), float(out[2])))
        return out

    orig_tr = core.trainer.run

    def spy_tr(weights):
        t.train_w.append(np.array(weights, dtype=float).copy())
        t.logz_rw.append(float(st.get_current("logz")))
        ms = orig_tr(weights)
        if float(st.get_current("beta")) != 0.0:
            cur["train"] = {"K": int(ms.K)}
        return ms

    orig_rs = core.resampler.run

    def spy_rs(weights):
        t.res_w.append(np.array(weights, dtype=float).copy())
        cur["in_resampler"] = True
        try:
            r = orig_rs(weights)
        finally:
            cur["in_resampler"] = False
        if float(st.get_current("beta")) != 0.0:
            cur["train"]["predict"] = [int(v) for v in st.get_current("assignments")]
            t.idx.append(cur.pop("idx"))
        return r

    orig_mi = modes.ModeStatistics.mode_index

    def spy_mi(self_, assignments, u):
        index, labels = orig_mi(self_, assignments, u)
        cur["train"]["midx"] = [int(v) for v in np.atleast_1d(index)]
        cur["train"]["labels"] = [int(v) for v in np.atleast_1d(labels)]
        t.trains.append(cur["train"])
        return index, labels

    orig_it = core.execute_iteration

    def spy_it(save_every=None, t0=0):
        cur["iter_metric"], cur["alphas"], cur["masks"] = [], [], []
        n_un = len(t.unifs)
        if len(t.iters) >= max_iter:
            raise RuntimeError("C10 recorder: iteration cap reached")
        r = orig_it(save_every=save_every, t0=t0)
        c_ = st.get_current()
        t.metric_calls.append(cur["iter_metric"])
        masks = [[bool(a) for a in (np.array(u) < al)] for u, al in zip(t.unifs[n_un:], cur["alphas"])]
        margins = [float(np.min(np.abs(np.array(u) - al))) for u, al in zip(t.unifs[n_un:], cur["alphas"])]
        t.masks.append(masks)
        t.alphas.append(cur["alphas"])
        t.iters.append({"beta": float(c_["beta"]), "ess": float(c_["ess"]), "logz": float(c_["logz"]), "steps": int(c_["steps"]),
                        "acceptance": float(c_["acceptance"]), "efficiency": float(c_["efficiency"]), "calls": int(c_["calls"]),
                        "iter": int(c_["iter"]), "u": np.array(c_["u"]).copy(), "logl": np.array(c_["logl"], dtype=float).copy(),
                        "assignments": [int(v) for v in c_["assignments"]], "margins": margins,
                        "blobs": None if c_.get("blobs") is None else np.array(c_["blobs"]).copy()})
        return r

    orig_nt = core._not_termination

    def spy_nt():
        r = orig_nt()
        t.guards.append(bool(r))
        return r

    patches = [common.patched(np.random, "rand", rand), common.patched(np.random, "random", random),
               common.patched(np.random, "choice", choice), common.patched(rsm, "systematic_resample", spy_sr),
               common.patched(mcmc, "check_bounds", spy_cb), common.patched(rwt, "volume_variation", spy_vv),
               common.patched(trn, "trim_weights", spy_tw),
               common.patched(mcmc.TPCNRunner, "_compute_acceptance_factor", wrap_factor(mcmc.TPCNRunner._compute_acceptance_factor)),
               common.patched(mcmc.RWMRunner, "_compute_acceptance_factor", wrap_factor(mcmc.RWMRunner._compute_acceptance_factor)),
               common.patched(mcmc.BaseMCMCRunner, "_update_progress_bar", wrap_pb(mcmc.BaseMCMCRunner._update_progress_bar)),
               common.patched(modes.ModeStatistics, "mode_index", spy_mi),
               common.patched(core.mutator, "log_likelihood", ll), common.patched(core.reweighter, "_compute_metric_and_weights", spy_m),
               common.patched(core.trainer, "run", spy_tr), common.patched(core.resampler, "run", spy_rs),
               common.patched(core, "execute_iteration", spy_it), common.patched(core, "_not_termination", spy_nt)]
    with contextlib.ExitStack() as stack, _quiet(), warnings.catch_warnings():
        warnings.simplefilter("ignore")
        for p in patches:
            stack.enter_context(p)
        try:
            s.run(n_total=n_total, progress=False)
            t.final = float(s.evidence()[0])
        except Exception as e:  # noqa — the pair comparison only needs to know that both runs end the same way
            import traceback
            files = [f.filename.split("/")[-1] for f in traceback.extract_tb(e.__traceback__)]
            t.error = (type(e).__name__, "modes.py" in files or "student.py" in files or "cluster.py" in files)
    t.n_total = n_total
    if posterior and t.error is None:
        t.posteriors = posterior_outputs(s, bool(cfg.get("blobs")))
    return t


def posterior_outputs(s, blobs):
    """`posterior()` under every combination of resample x trim x return_blobs x return_logw (same offset for every call)"""
    out = {}
    with _quiet(), warnings.catch_warnings():
        warnings.simplefilter("ignore")
        for res in (False, True):
            for trim in (False, True):
                for rb in (False, True):
                    for rl in (False, True):
                        np.random.seed(12345)
                        # the default grid of 1000 percentiles once, a coarser grid for the other combinations (speed)
                        bins = 1000 if (res, rb, rl) == (False, False, False) else 40
                        try:
                            r = s.posterior(resample=res, return_blobs=rb, trim_importance_weights=trim, return_logw=rl, bins_trim=bins)
                            out[(res, trim, rb, rl)] = [np.array(a).copy() for a in r]
                        except Exception as e:  # noqa
                            out[(res, trim, rb, rl)] = type(e).__name__
    return out


# ------------------------------------------------------------------------------------------------ closed-loop model replay

def _q(items, enc):
    return "_" if not items else "|".join(enc(i) for i in items)


def _fl(xs):
    return ",".join(f2hex(float(v)) for v in xs) if len(xs) else "-"


def _nl(xs):
    return ",".join(str(int(v)) for v in xs) if len(xs) else "-"


def model_line(t, maxit=400):
    from tempest.config import BETA_TOLERANCE, ESS_TOLERANCE, TRIM_ESS, TRIM_BINS
    cfgc = t.s._core.config
    vv = cfgc.volume_variation
    like = ",".join("x" if v == -np.inf else f2hex(v) for v in t.like) or "-"
    trains = _q(t.trains, lambda r: f"{r['K']};{_nl(r['predict'])};{_nl(r['midx'])};{_nl(r['labels'])}")
    props = _q(t.props, lambda st_: ",".join(f"{k}:{f2hex(f)}:{int(b)}" for k, f, b in st_))
    vvtab = ",".join(f"{ln}:{f2hex(b)}:{f2hex(v)}" for ln, b, v in t.vvtab) or "-"
    return (f"cl.F ratio={f2hex(cfgc.ess_ratio)} n={t.n} vv={'none' if vv is None else f2hex(vv)} tolE={f2hex(ESS_TOLERANCE)} "
            f"tolB={f2hex(BETA_TOLERANCE)} fuel=64 syst={int(cfgc.resample == 'syst')} tpcn={int(cfgc.sample == 'tpcn')} "
            f"nsteps={cfgc.n_steps} nmax={cfgc.n_max_steps} ndim={cfgc.n_dim} sigma0={f2hex(2.38 / np.sqrt(cfgc.n_dim))} "
            f"trimess={f2hex(TRIM_ESS)} trimbins={TRIM_BINS} tolterm={f2hex(1e-4)} ntotal={f2hex(float(t.n_total))} mcfuel=100000 "
            f"maxit={maxit} like={like} draws={_q(t.draws, _nl)} choices={_q(t.choices, _nl)} resu={_q(t.resu, _fl)} "
            f"unifs={_q(t.unifs, _fl)} trains={trains} props={props} vvtab={vvtab}")


def close(a, b, tol=1e-9):
    if a == b:
        return True
    if not (np.isfinite(a) and np.isfinite(b)):
        return False
    return abs(a - b) <= tol * (1.0 + max(abs(a), abs(b)))


def model_branches(answer):
    """the reweighting branch the model took in every iteration (names of Model.Reweight.Branch)"""
    if answer == "bad-op":
        return []
    its = answer.split("#")[0]
    return [m.split(";")[4] for m in its.split("|")] if its else []


def compare_model(t, answer):
    """(problem or None, near_tie) — the closed-loop model's answer against the recorded run"""
    if answer == "bad-op":
        return "model could not parse the trace", False
    its, ev, tail = answer.split("#")
    its = its.split("|") if its else []
    bad, ld, lc, lr, lt, lp, lu, stop = tail.split(";")
    st = t.s.state
    target = t.s._core.config.ess_ratio * t.n

    def tie_at(k):
        # a decision of the reweighting / guard at a tie of ESS (or the metric) with its threshold
        if k < len(t.metric_calls):
            for (_, e, m) in t.metric_calls[k]:
                if abs(e - target) <= 1e-9 * target:
                    return True
                vv = t.s._core.config.volume_variation
                if vv is not None and abs(m - vv) <= 1e-9 * max(vv, 1e-300):
                    return True
        return False
    k_ann = 0
    for k, m in enumerate(its):
        if k >= len(t.iters):
            break
        f = m.split(";")
        beta, ess, zrw, z = (hex2f(x) for x in f[:4])
        idx = [] if f[5] == "-" else [int(x) for x in f[5].split(",")]
        masks = [] if f[6] == "-" else [[ch == "1" for ch in s_] for s_ in f[6].split("+")]
        steps, acc, eff, calls = int(f[7]), hex2f(f[9]), hex2f(f[10]), int(f[11])
        ttags = [] if f[12] == "-" else [int(x) for x in f[12].split(",")]
        tw = [] if f[13] == "-" else [hex2f(x) for x in f[13].split(",")]
        ctags = [] if f[14] == "-" else [int(x) for x in f[14].split(",")]
        cl_ = [] if f[15] == "-" else [hex2f(x) for x in f[15].split(",")]
        i = t.iters[k]
        if not close(beta, i["beta"]):
            return (None, True) if tie_at(k) else (f"iteration {k + 1}: beta impl {i['beta']!r} model {beta!r} ({f[4]})", False)
        if not close(ess, i["ess"], 1e-7):
            return f"iteration {k + 1}: ESS impl {i['ess']!r} model {ess!r}", False
        if k < len(t.logz_rw) and not close(zrw, t.logz_rw[k]):
            return f"iteration {k + 1}: logz after reweighting impl {t.logz_rw[k]!r} model {zrw!r}", False
        if not close(z, i["logz"]):
            return f"iteration {k + 1}: committed logz impl {i['logz']!r} model {z!r}", False
        if i["beta"] != 0.0:
            w_in, tidx, twt = t.trim[k_ann]
            pool_u = st.get_history("u", flat=True)[: len(w_in)]
            want = [np.array(pool_u[j], dtype=float).tobytes() for j in tidx]
            got = [t.tag_u.get(g) for g in ttags]
            if got != want:
                # the trimming threshold sits between two order statistics: a last-ulp difference of the normalisation can move one
                if abs(len(got) - len(want)) <= 2:
                    return None, True
                return f"iteration {k + 1}: the clusterer's input differs: model keeps {len(got)} records, real trim_weights {len(want)}", False
            if len(tw) != len(twt) or not np.allclose(tw, twt, rtol=1e-9, atol=1e-300):
                return f"iteration {k + 1}: trimmed weights differ", False
            if idx != t.idx[k_ann]:
                diff = [(a, b) for a, b in zip(idx, t.idx[k_ann]) if a != b]
                if len(idx) == len(t.idx[k_ann]) and len(diff) <= 2 and all(abs(a - b) == 1 for a, b in diff):
                    return None, True
                return f"iteration {k + 1}: resampled indices differ (impl {t.idx[k_ann][:8]}, model {idx[:8]})", False
            if masks != t.masks[k]:
                if i["margins"] and min(i["margins"]) < 1e-9:
                    return None, True
                return (f"iteration {k + 1}: accept masks / number of steps differ (impl {len(t.masks[k])} steps "
                        f"{i['steps']}, model {len(masks)} steps)"), False
            k_ann += 1
        if steps != i["steps"]:
            return f"iteration {k + 1}: number of accept/reject steps impl {i['steps']} model {steps}", False
        if calls != i["calls"]:
            return f"iteration {k + 1}: likelihood calls impl {i['calls']} model {calls}", False
        if not close(acc, i["acceptance"], 1e-9):
            return f"iteration {k + 1}: acceptance impl {i['acceptance']!r} model {acc!r}", False
        if not close(eff, i["efficiency"], 1e-9):
            return f"iteration {k + 1}: efficiency (mean sigma / sigma_0) impl {i['efficiency']!r} model {eff!r}", False
        if [t.tag_u.get(g) for g in ctags] != [np.array(u, dtype=float).tobytes() for u in i["u"]]:
            return f"iteration {k + 1}: committed records differ", False
        if [f2hex(v) for v in cl_] != [f2hex(float(v)) for v in i["logl"]]:
            return f"iteration {k + 1}: committed log-likelihoods differ", False
    if len(its) != len(t.iters) or stop != "guard":
        # the guard compares the ESS at beta = 1 with n_total: a tie there is a rounding matter
        return f"model ran {len(its)} iterations (stop: {stop}), implementation {len(t.iters)}", False
    if bad != "0" or any(x != "0" for x in (ld, lc, lr, lt, lp, lu)):
        return f"the model consumed the random stream differently (underflow={bad}, left over: draws {ld} choices {lc} resu {lr} trains {lt} props {lp} unifs {lu})", False
    if ev == "none" or not close(hex2f(ev), t.final):
        return f"final evidence impl {t.final!r} model {ev}", False
    return None, False


# ------------------------------------------------------------------------------------------------ paired comparison

def _same_arrays(a, b, tol):
    a, b = np.asarray(a, dtype=float), np.asarray(b, dtype=float)
    return a.shape == b.shape and bool(np.allclose(a, b, rtol=tol, atol=tol, equal_nan=True))


def pair_problem(a, b, c, tol=1e-8):
    """first difference between the trace `a` (log-likelihood l) and `b` (l + c) that the property forbids, or None"""
    if a.error or b.error:
        if a.error and b.error and a.error == b.error:
            return None
        return f"one run of the pair aborted and the other did not: unshifted {a.error or 'completed'}, shifted {b.error or 'completed'}"
    if len(a.iters) != len(b.iters):
        return f"different number of iterations ({len(a.iters)} vs {len(b.iters)})"
    if a.guards != b.guards:
        return "_not_termination evaluated differently"
    # random stream: same calls, same values
    if a.draws != b.draws or [a.tag_u[k] for d in a.draws for k in d] != [b.tag_u[k] for d in b.draws for k in d]:
        return "prior draws differ"
    if a.choices != b.choices:
        return "np.random.choice picks of the warm-up replacement differ"
    if len(a.resu) != len(b.resu) or any(x != y for x, y in zip(a.resu, b.resu)):
        return "resampling uniforms differ (the random stream was consumed differently)"
    if len(a.unifs) != len(b.unifs) or any(x != y for x, y in zip(a.unifs, b.unifs)):
        return "Metropolis uniforms differ (different number of accept/reject steps or walkers)"
    # reweighting: the same trial temperatures, the same ESS / metric at each
    for k, (ma, mb) in enumerate(zip(a.metric_calls, b.metric_calls)):
        if len(ma) != len(mb) or not _same_arrays([x[0] for x in ma], [x[0] for x in mb], 1e-12):
            return f"iteration {k + 1}: _compute_metric_and_weights was called at different temperatures"
        if not _same_arrays([x[1] for x in ma], [x[1] for x in mb], 1e-6) or not _same_arrays([x[2] for x in ma], [x[2] for x in mb], 1e-6):
            return f"iteration {k + 1}: ESS / metric at the trial temperatures differ"
    # volume_variation: same arguments, same values
    if len(a.vv_in) != len(b.vv_in):
        return "volume_variation was called a different number of times"
    for k, ((ua, wa), (ub, wb)) in enumerate(zip(a.vv_in, b.vv_in)):
        if not _same_arrays(ua, ub, tol) or not _same_arrays(wa, wb, 1e-7):
            return f"volume_variation call {k + 1} received different arguments"
    # trainer / trim_weights / resampler inputs
    for name, xa, xb in (("Trainer.run", a.train_w, b.train_w), ("Resampler.run", a.res_w, b.res_w)):
        for k, (wa, wb) in enumerate(zip(xa, xb)):
            if not _same_arrays(wa, wb, 1e-7):
                return f"iteration {k + 1}: the weights handed to {name} differ"
    if len(a.trim) != len(b.trim):
        return "trim_weights was called a different number of times"
    for k, ((wa, ia, ta), (wb, ib, tb)) in enumerate(zip(a.trim, b.trim)):
        if not _same_arrays(wa, wb, 1e-7):
            return f"annealing iteration {k + 1}: trim_weights received different weights"
        if len(ia) != len(ib) or np.any(ia != ib):
            return f"annealing iteration {k + 1}: trim_weights kept different records"
        if not _same_arrays(ta, tb, 1e-7):
            return f"annealing iteration {k + 1}: the trimmed weights handed to the clusterer differ"
    if [(r["K"], r["predict"], r["midx"], r["labels"]) for r in a.trains] != [(r["K"], r["predict"], r["midx"], r["labels"]) for r in b.trains]:
        return "the trainer's output (number of modes, cluster prediction, mode index) differs"
    if a.idx != b.idx:
        return "resampled indices differ"
    # proposals: same points, same Hastings factors, same bounds flags
    if len(a.props) != len(b.props):
        return "different number of accept/reject steps"
    for k, (pa, pb) in enumerate(zip(a.props, b.props)):
        if [x[2] for x in pa] != [x[2] for x in pb] or not _same_arrays([x[1] for x in pa], [x[1] for x in pb], tol):
            return f"accept/reject step {k + 1}: Hastings factors / bounds flags differ"
        ua = np.frombuffer(b"".join(a.tag_u[x[0]] for x in pa))
        ub = np.frombuffer(b"".join(b.tag_u[x[0]] for x in pb))
        if not _same_arrays(ua, ub, tol):
            return f"accept/reject step {k + 1}: the proposals differ"
    for k, (xa, xb) in enumerate(zip(a.alphas, b.alphas)):
        for j, (p, q) in enumerate(zip(xa, xb)):
            if not _same_arrays(p, q, 1e-7):
                return f"iteration {k + 1} step {j + 1}: acceptance probabilities differ"
    if a.masks != b.masks:
        return "accept masks differ"
    # the log-likelihoods of all evaluated points: shifted by c, −inf where −inf
    la, lb = np.array(a.like), np.array(b.like)
    if la.shape != lb.shape or np.any(np.isinf(la) != np.isinf(lb)):
        return "the set of zero-likelihood points differs"
    fin = np.isfinite(la)
    if not np.allclose(lb[fin] - c, la[fin], rtol=tol, atol=tol * (1 + abs(c))):
        return "evaluated log-likelihoods are not shifted by c"
    # per iteration state
    for k, (ia, ib) in enumerate(zip(a.iters, b.iters)):
        for key, t_ in (("beta", tol), ("ess", 1e-6), ("acceptance", 1e-7), ("efficiency", 1e-7)):
            if not close(ia[key], ib[key], t_):
                return f"iteration {k + 1}: recorded {key} differs ({ia[key]!r} vs {ib[key]!r})"
        for key in ("steps", "calls", "iter", "assignments"):
            if ia[key] != ib[key]:
                return f"iteration {k + 1}: recorded {key} differs ({ia[key]!r} vs {ib[key]!r})"
        if not _same_arrays(ia["u"], ib["u"], tol):
            return f"iteration {k + 1}: particles differ"
        if (ia["blobs"] is None) != (ib["blobs"] is None) or (ia["blobs"] is not None and not _same_arrays(ia["blobs"], ib["blobs"], tol)):
            return f"iteration {k + 1}: blobs differ"
        if not np.allclose(ib["logl"] - c, ia["logl"], rtol=tol, atol=tol * (1 + abs(c))):
            return f"iteration {k + 1}: stored log-likelihoods are not shifted by c"
        want = ia["logz"] + ia["beta"] * c
        if not (ib["logz"] == want or abs(ib["logz"] - want) <= tol * (1 + abs(c) + abs(want))):
            return f"recorded logz at iteration {k + 1} (beta={ia['beta']:.4f}): {ib['logz']!r}, expected logz + beta*c = {want!r}"
    for k, (za, zb, ia) in enumerate(zip(a.logz_rw, b.logz_rw, a.iters)):
        want = za + ia["beta"] * c
        if not (zb == want or abs(zb - want) <= tol * (1 + abs(c) + abs(want))):
            return f"iteration {k + 1}: evidence written by the reweighting step {zb!r}, expected {want!r}"
    if abs(b.final - (a.final + c)) > tol * (1 + abs(c)):
        return f"final evidence {b.final!r}, expected {a.final + c!r}"
    if a.posteriors is not None and b.posteriors is not None:
        for key in a.posteriors:
            pa, pb = a.posteriors[key], b.posteriors[key]
            nm = f"posterior(resample={key[0]}, trim={key[1]}, return_blobs={key[2]}, return_logw={key[3]})"
            if isinstance(pa, str) or isinstance(pb, str):
                if pa != pb:
                    return f"{nm}: {pa if isinstance(pa, str) else 'returned'} vs {pb if isinstance(pb, str) else 'returned'}"
                continue
            if len(pa) != len(pb):
                return f"{nm}: different number of returned arrays"
            names = ["x", "weights", "logl"] + (["blobs"] if key[2] and a.cfg.get("blobs") else []) + (["logw"] if key[3] else [])
            for nme, xa, xb in zip(names, pa, pb):
                if xa.shape != xb.shape:
                    return f"{nm}: {nme} has shape {xa.shape} vs {xb.shape}"
                if nme == "logl":
                    if not np.allclose(xb - c, xa, rtol=tol, atol=tol * (1 + abs(c))):
                        return f"{nm}: logl is not shifted by c"
                elif nme == "weights":
                    if not np.allclose(xa, xb, rtol=1e-6, atol=1e-12):
                        return f"{nm}: normalised weights differ"
                elif not np.allclose(xa, xb, rtol=1e-6, atol=1e-7):
                    return f"{nm}: {nme} differs"
    return None


# ------------------------------------------------------------------------------------------------ checkpoints

def checkpoint_problem(cfg, c, seed, n=16, n_total=80, save_every=2, tol=1e-8):
    """paired uninstrumented runs with `save_every`: every checkpoint file of the shifted run must hold the same keys and values
    except logl (+c) and logz (+beta*c); the final-state file likewise with logz + c."""
    import tempfile
    import dill
    import os
    from tempest import Sampler
    out = []
    for cc in (0.0, c):
        d = tempfile.mkdtemp(prefix="c10ck_")
        np.random.seed(seed)
        with _quiet(), warnings.catch_warnings():
            warnings.simplefilter("ignore")
            s = Sampler(lambda u: 8.0 * u - 4.0, make_like(cfg, cc), 2, n_particles=n, clustering=cfg["clustering"], sample=cfg["kernel"],
                        resample=cfg["resample"], volume_variation=cfg["vv"], n_steps=1, n_max_steps=2, output_dir=d,
                        blobs_dtype=float if cfg.get("blobs") else None)
            try:
                s.run(n_total=n_total, progress=False, save_every=save_every)
            except Exception as e:  # noqa
                out.append(("error", type(e).__name__))
                continue
        files = {}
        for fn in sorted(os.listdir(d)):
            with open(os.path.join(d, fn), "rb") as fh:
                dd = dill.load(fh)
            dd.pop("sampler", None)
            files[fn] = dd
        out.append(("ok", files))
        import shutil
        shutil.rmtree(d, ignore_errors=True)
    (sa, fa), (sb, fb) = out
    if sa != sb:
        return f"one run of the pair aborted and the other did not ({fa if sa == 'error' else 'completed'} vs {fb if sb == 'error' else 'completed'})", 0
    if sa == "error":
        return None, 0
    if sorted(fa) != sorted(fb):
        return f"different checkpoint files were written: {sorted(fa)} vs {sorted(fb)}", 0
    for fn in fa:
        da, db = fa[fn], fb[fn]
        if sorted(da) != sorted(db):
            return f"{fn}: different keys {sorted(da)} vs {sorted(db)}", len(fa)
        final = fn.endswith("_final.state")
        ca, cb = da["_current"], db["_current"]
        ha, hb = da["_history"], db["_history"]
        for k in ca:
            va, vb = ca[k], cb[k]
            if va is None or vb is None:
                if va is not vb:
                    return f"{fn}: current[{k}] is None in one run only", len(fa)
            elif k == "logl":
                if not np.allclose(np.asarray(vb, dtype=float) - c, np.asarray(va, dtype=float), rtol=tol, atol=tol * (1 + abs(c))):
                    return f"{fn}: current logl is not shifted by c", len(fa)
            elif k == "logz":
                want = float(va) + (1.0 if final else float(ca["beta"])) * c
                if abs(float(vb) - want) > tol * (1 + abs(c) + abs(want)):
                    return f"{fn}: current logz {float(vb)!r}, expected {want!r}", len(fa)
            elif not np.allclose(np.asarray(va, dtype=float), np.asarray(vb, dtype=float), rtol=1e-6, atol=1e-8):
                return f"{fn}: current[{k}] differs", len(fa)
        for k in ha:
            if len(ha[k]) != len(hb[k]):
                return f"{fn}: history[{k}] has {len(ha[k])} vs {len(hb[k])} entries", len(fa)
            for j, (va, vb) in enumerate(zip(ha[k], hb[k])):
                if k == "logl":
                    ok = np.allclose(np.asarray(vb, dtype=float) - c, np.asarray(va, dtype=float), rtol=tol, atol=tol * (1 + abs(c)))
                elif k == "logz":
                    want = float(va) + float(ha["beta"][j]) * c
                    ok = abs(float(vb) - want) <= tol * (1 + abs(c) + abs(want))
                else:
                    ok = np.allclose(np.asarray(va, dtype=float), np.asarray(vb, dtype=float), rtol=1e-6, atol=1e-8)
                if not ok:
                    return f"{fn}: history[{k}][{j}] is not what the shift predicts", len(fa)
        for k in da:
            if k in ("_current", "_history"):
                continue
            if isinstance(da[k], (int, float, str, type(None))) and da[k] != db[k]:
                return f"{fn}: {k} differs ({da[k]!r} vs {db[k]!r})", len(fa)
    return None, len(fa)
