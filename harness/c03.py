"""C03 — mutation kernels satisfy detailed balance (tpCN and RWM; interior, periodic, reflective, hard)."""
import math
import warnings

import numpy as np

from . import common
from . import c03_modes
from .common import Corr, f2hex, hex2f, flist

ID = "C03"
LEAN_MODULES = ["TempestVerif.Props.C03", "TempestVerif.Lemmas.KernelGeom", "TempestVerif.Props.C03Run",
                "TempestVerif.Props.C03Modes", "TempestVerif.Lemmas.CholFactor",
                # second pass: detailed balance => invariance of the LAW (Mathlib kernels), the law of the model's step from the
                # laws of the tapes (d = 1 and any d; hard, periodic, reflective), capstone with H_modes discharged
                "TempestVerif.Lemmas.MHKernel", "TempestVerif.Lemmas.GaussianPi", "TempestVerif.Lemmas.FoldPush",
                "TempestVerif.Lemmas.FoldPushRefl", "TempestVerif.Props.C03Inv", "TempestVerif.Props.C03InvD",
                "TempestVerif.Props.C03InvP", "TempestVerif.Props.C03InvR", "TempestVerif.Props.C03Cap"]
RULE = ("suites kernel-step-{tpcn,rwm}: real TPCNRunner/RWMRunner objects on generated inputs: d in 1..5, K in 1..4 modes (means in the "
        "cube, random SPD covariances of scale 0.02..0.3, dof in {0.3,1,2,2.5,5,30,1e6}), 3..7 walkers (8%: a coordinate exactly on a "
        "cube face), random assignments (about 2/3 of the walkers in runners with >= 2 non-empty modes of distinct dof; empty modes "
        "occur), per-cluster sigma in (0.05,0.99) or, 12%, an edge value adaptation can reach (tpCN 0 / 0.99; RWM 1.7, 2.38, -0.2), "
        "beta in (0,1], affine prior transform, random linear+quadratic log-likelihood (5%: a -inf hole -> NaN acceptance path), "
        "periodic/reflective index subsets in 30% of the runners; 3%: malformed assignment (index >= K) -> IndexError expected on "
        "both sides. numpy.random.gamma/randn/rand are replaced by tapes (gamma variates from the requested law, normals; for 30% of "
        "the walkers with a hard coordinate a forced out-of-cube normal vector, which must be REJECTED: evaluated at the current "
        "point, alpha = 0, no redraw). EXACTLY ONE step is run and compared with ONE op of the ensemble model "
        "Model.Kernel.runStep at Float (`krun.F`: the model itself gathers each walker's mode by its assignment and adapts the "
        "step sizes per cluster): per walker the gamma (shape, scale), the candidate returned by _propose, the in-bounds flag, the "
        "point passed on, factor, alpha, accept bit, new state, number of normal draws (= 1); per cluster the adapted sigma "
        "(empty clusters unchanged, exactly). Regime T: |d| <= 1e-9(1+scale); decisions exact unless the margin is < 1e-9. "
        "Non-trivial = K >= 2 or d >= 2 or the proposal left the cube. Suite mode-stats-consistency: the real ModeStatistics on "
        "random correlated SPD matrices (d 1..5): chol chol^T = Sigma, chol lower-triangular, inv_cov Sigma = I.")
MODELLED = ["`d @ M @ d`, einsum('ij,ijk,ik->i'), `chol @ z` and `alpha[mask].mean()` are evaluated by BLAS/einsum/pairwise summation "
            "in an unspecified order; the model folds left to right (regime T tolerance)",
            "the user's log_likelihood / prior_transform are uninterpreted: the model receives logL of the current and of the "
            "proposed point from the caller (tape); numpy.random.gamma / randn / rand are tapes (their laws — Gamma(shape, scale), "
            "standard normal, uniform, independent across walkers — are assumed, not checked)",
            "measure theory is now FORMAL (Props/C03Inv*.lean on Mathlib's Kernel / gammaMeasure / gaussianReal / Measure.pi): the "
            "law of the closed model step as a function of the tapes, the density of the candidate (Gaussian under an affine map: "
            "Lemmas/GaussianPi; tpCN: the gamma draw integrated out by Tonelli, no change of variables s = 1/g needed), the "
            "push-forward under the periodic fold in any dimension (Lemmas/FoldPush) and under the reflective fold in d = 1 "
            "(Lemmas/FoldPushRefl), detailed balance => reversibility => invariance incl. the rejection mass (Lemmas/MHKernel). "
            "Still outside: the reflective fold in d >= 2 (needs the per-coordinate evenness that finite F21 shows to fail for "
            "correlated covariances), likelihoods with value -inf (the theorems take a real-valued measurable log-likelihood), "
            "and IEEE rounding (theorems over the reals; the same model term runs at Float in the suites)",
            "np.linalg.inv / np.linalg.cholesky inside ModeStatistics: modelled by Model/ModeStatsNum.lean (row-by-row potrf, "
            "Gauss-Jordan inverse), PROVED to return L lower-triangular with positive diagonal, L L^T = Sigma, Sigma^-1 "
            "(Props/C03Modes.lean), tied to the real class by suite mode-stats-model (tolerance 1e-11 cond max|entry|) and by the "
            "exact oracle of harness/c03_modes.py; numpy's own algorithms (LAPACK potrf / getrf) are not modelled step by step",
            "`_check_convergence` / `_calculate_adaptive_steps` (number of steps) and the progress bar are outside the property"]
ASSUMPTIONS = ["H_modes: dof > 0 and the covariance handed to ModeStatistics is symmetric positive definite; then chol invertible, "
               "chol chol^T = Sigma and inv_cov = Sigma^-1 are PROVED of the constructor model (C03_init_modes_satisfy_H_modes, "
               "C03_step_law_invariant_model_modes) and checked on the real class (mode-stats-model, mode-stats-consistency)",
               "H_tapes: numpy.random.gamma(shape, scale) / randn(d) / rand(n) have their documented laws (Mathlib's gammaMeasure "
               "with rate 1/scale, d independent standard normals, uniform on [0,1)) and are independent of each other and of the "
               "current state — the only probabilistic assumption left in C03_{tpcn,rwm}_step_law_invariant",
               "H_assign: the cluster assignment is a function of the walker INDEX, fixed during the run — PROVED of the runner model "
               "(C03_run_assignments_fixed, C03_run_write_sites) and checked by the run oracles. The PIPELINE computes it from the "
               "walker's POSITION before the mutation; with a position-dependent assignment the first step is not pi-invariant "
               "(C03_state_dependent_assignment_not_invariant; clauses/C03.md) — outside the statement as the runners implement it",
               "tpCN step size in (0,1): maintained by the code ([0, 0.99] after every adaptation: C03_tpcn_adapt_range; sigma = 0 is "
               "the identity step: C03_tpcn_sigma_zero); RWM: any real sigma",
               "current states lie in the unit cube — maintained by the step (C03_step_stays_in_cube)",
               "one step uses one sigma per cluster (C03_sigma_fixed_within_step); adaptation ACROSS steps (a history-dependent "
               "kernel) and the acceptance-dependent stopping rule are not covered",
               "KNOWN defect F17 (tpCN on folded coordinates) is excluded from the proved statement and reported as a KNOWN-FINDING "
               "line; F16 (hard-boundary redraw) is fixed in /repo (9001dc4) and its witness is part of the corpus",
               "reflective coordinates in d >= 2: proved only for increment densities that are even in each reflective coordinate "
               "(uncorrelated there; fold_mixed_symmetric); with a correlated covariance detailed balance FAILS (finding "
               "F21_reflective_correlated, Lean counter-example C03_reflect_correlated_asymmetric, witness in harness/witnesses.py)"]

TOL = 1e-9


def translators():
    from translate import g4_kernel
    return [g4_kernel.generate(), g4_kernel.run_status()]


# ------------------------------------------------------------------ real runners under tapes
def _runner_cls(kind):
    from tempest.mcmc import TPCNRunner, RWMRunner
    return {"tpcn": TPCNRunner, "rwm": RWMRunner}[kind]


class Tape:
    """replacement for numpy.random.{gamma, randn, rand} during one step; records everything"""

    def __init__(self, rng, forced, big):
        self.rng = rng
        self.forced = forced          # walker -> 1 if its normal vector is forced far out of the cube
        self.big = big                # walker -> direction of the forced vector
        self.cur = None
        self.gamma_calls = {}         # walker -> (shape, scale, g)
        self.z_calls = {}             # walker -> [vectors]
        self.r = None

    def gamma(self, *args, **kw):
        if args or set(kw) != {"shape", "scale"}:
            raise RuntimeError("gamma called with unexpected arguments")
        sh, sc = float(kw["shape"]), float(kw["scale"])
        g = self.rng.gammavariate(sh, sc) if (sh > 0 and sc > 0 and math.isfinite(sh) and math.isfinite(sc)) else 1.0
        if not (g > 0 and math.isfinite(g)):
            g = 1.0
        if self.cur in self.gamma_calls:
            raise RuntimeError("second gamma draw for one walker")
        self.gamma_calls[self.cur] = (sh, sc, g)
        return g

    def randn(self, n):
        lst = self.z_calls.setdefault(self.cur, [])
        if len(lst) < self.forced.get(self.cur, 0):
            z = [self.big[self.cur] * (30.0 + 5.0 * self.rng.random()) * (1 if i == 0 else self.rng.uniform(-1, 1)) for i in range(n)]
        else:
            z = [self.rng.gauss(0, 1) for _ in range(n)]
        lst.append(z)
        return np.array(z, dtype=float)

    def rand(self, n):
        if self.r is not None:
            raise RuntimeError("second uniform draw in one step")
        self.r = [self.rng.random() for _ in range(n)]
        return np.array(self.r, dtype=float)


def _spd(rng, d, scale):
    a = np.array([[rng.gauss(0, 1) for _ in range(d)] for _ in range(d)])
    return (a @ a.T + 0.3 * np.eye(d)) * scale ** 2 / d


def _index_form(rng, idx):
    """the forms in which callers hand over periodic / reflective index sets: numpy int64 / int32 arrays (parallel_mcmc's
    docstring), lists (Sampler / Config / Mutator), tuples"""
    f = rng.choice(["int64", "int64", "int32", "list", "tuple"])
    idx = [int(i) for i in idx]
    return np.array(idx, dtype=np.int64) if f == "int64" else np.array(idx, dtype=np.int32) if f == "int32" \
        else list(idx) if f == "list" else tuple(idx)


def _gen_runner(rng, kind):
    d = rng.choice([1, 1, 2, 2, 3, 3, 4, 5])
    K = rng.randint(1, 4)
    n = rng.randint(3, 7)
    means = np.array([[rng.uniform(0.25, 0.75) for _ in range(d)] for _ in range(K)])
    covs = np.array([_spd(rng, d, rng.choice([0.02, 0.05, 0.1, 0.2, 0.3])) for _ in range(K)])
    dofs = np.array([rng.choice([0.3, 1.0, 2.0, 2.5, 5.0, 30.0, 1e6]) for _ in range(K)])
    u = np.array([[rng.uniform(0.08, 0.92) for _ in range(d)] for _ in range(n)])
    for row in u:                       # states exactly on a face of the cube are legal (check_bounds is inclusive)
        if rng.random() < 0.08:
            row[rng.randrange(d)] = rng.choice([0.0, 1.0])
    assign = np.array([rng.randrange(K) for _ in range(n)], dtype=int)
    bad_index = rng.random() < 0.03     # malformed input: an assignment that is not a mode index -> IndexError on both sides
    if bad_index:
        assign[rng.randrange(n)] = K + rng.randint(0, 2)
    beta = rng.choice([1.0, 0.5, rng.uniform(0.01, 1.0)])
    lo = np.array([rng.uniform(-3, 0) for _ in range(d)])
    wd = np.array([rng.uniform(0.5, 6) for _ in range(d)])
    cvec = np.array([rng.gauss(0, 3) for _ in range(d)])
    m = np.array([rng.uniform(-2, 2) for _ in range(d)])
    q = rng.choice([0.0, 1.0, 10.0])
    hole = rng.random() < 0.05

    def prior_transform(uu):
        return lo + wd * uu

    def log_likelihood(x):
        x = np.atleast_2d(x)
        val = x @ cvec - 0.5 * q * np.sum((x - m) ** 2, axis=1)
        if hole:
            val = np.where(x[:, 0] < lo[0] + 0.5 * wd[0], -np.inf, val)
        return val, None

    per = refl = None
    if rng.random() < 0.3:
        idx = list(range(d))
        p = [i for i in idx if rng.random() < 0.4]
        r = [i for i in idx if i not in p and rng.random() < 0.5]
        per = _index_form(rng, p) if p else None
        refl = _index_form(rng, r) if r else None
    return dict(kind=kind, d=d, K=K, n=n, means=means, covs=covs, dofs=dofs, u=u, assign=assign, beta=beta,
                prior_transform=prior_transform, log_likelihood=log_likelihood, per=per, refl=refl, hole=hole,
                bad_index=bad_index)


def _one_step(cfg, rng):
    """build the real runner, run exactly one step under tapes; returns everything observed"""
    from tempest.modes import ModeStatistics
    ms = ModeStatistics(cfg["means"], cfg["covs"], cfg["dofs"])
    u = cfg["u"]
    x = np.array([cfg["prior_transform"](t) for t in u])
    logl, _ = cfg["log_likelihood"](x)
    runner = _runner_cls(cfg["kind"])(u, x, logl, None, cfg["assign"], cfg["beta"], ms, cfg["log_likelihood"],
                                      cfg["prior_transform"], None, 1, 1, cfg["per"], cfg["refl"])
    # step sizes: mid-range, plus the values adaptation can reach — tpCN is clipped to [0, 0.99]; RWM is not clipped at all
    # (it starts at 2.38/sqrt(d) > 1 and may even go negative)
    edge = [0.0, 0.99] if cfg["kind"] == "tpcn" else [1.7, 2.38, -0.2]
    sig = np.array([rng.choice(edge) if rng.random() < 0.12 else rng.uniform(0.05, 0.99) for _ in range(cfg["K"])])
    runner.sigmas[:] = sig
    sigma0 = float(runner.sigma_0)
    n = cfg["n"]
    strict = [i for i in range(cfg["d"]) if i not in set(cfg["per"] if cfg["per"] is not None else [])
              and i not in set(cfg["refl"] if cfg["refl"] is not None else [])]
    forced, big = {}, {}
    for k in range(n):
        if strict and rng.random() < 0.3:
            forced[k] = 1
            big[k] = rng.choice([-1.0, 1.0])
    tape = Tape(rng, forced, big)
    seen = {}
    orig_prop = runner._propose
    orig_fac = runner._compute_acceptance_factor

    def propose(k):
        tape.cur = k
        p = orig_prop(k)
        seen.setdefault("cand", {})[k] = np.array(p, dtype=float).copy()
        return p

    def factor(u_prime, logl_prime):
        f = orig_fac(u_prime, logl_prime)
        seen["u_prime"] = np.array(u_prime, dtype=float).copy()
        seen["logl_prime"] = np.array(logl_prime, dtype=float).copy()
        seen["factor"] = np.array(f, dtype=float).copy()
        return f

    runner._propose = propose
    runner._compute_acceptance_factor = factor
    runner._update_progress_bar = lambda alpha: seen.__setitem__("alpha", np.array(alpha, dtype=float).copy())
    runner._check_convergence = lambda a: True
    with warnings.catch_warnings():
        warnings.simplefilter("ignore")
        with common.patched(np.random, "gamma", tape.gamma), common.patched(np.random, "randn", tape.randn), \
                common.patched(np.random, "rand", tape.rand):
            out = runner.run()
    return dict(ms=ms, logl=np.array(logl, dtype=float), sig=sig, sigma0=sigma0, tape=tape, seen=seen,
                new_u=np.array(out[0], dtype=float), new_logl=np.array(out[2], dtype=float),
                new_sig=np.array(runner.sigmas, dtype=float), iters=out[6], strict=strict)


def _rows(mat):
    return ";".join(flist(row, f2hex) for row in mat)


def _krun_line(kind, cfg, ms, sig, sigma0, u, assign, ls, lps, gs, rs, zrows):
    per = [] if cfg["per"] is None else [int(i) for i in cfg["per"]]
    refl = [] if cfg["refl"] is None else [int(i) for i in cfg["refl"]]
    return (f"krun.F kind={kind} d={cfg['d']} mus={_rows(ms.means)} chols={'|'.join(_rows(m) for m in ms.chol_covariances)} "
            f"invcovs={'|'.join(_rows(m) for m in ms.inv_covariances)} nus={flist(ms.degrees_of_freedom, f2hex)} "
            f"sigmas={flist(sig, f2hex)} beta={f2hex(cfg['beta'])} iter={f2hex(1.0)} sigma0={f2hex(sigma0)} "
            f"per={flist(per, str)} refl={flist(refl, str)} us={_rows(u)} assign={flist([int(a) for a in assign], str)} "
            f"ls={ls} lps={lps} gs={gs} rs={rs} zs={zrows}")


def _close(a, b, scale):
    if a == b:
        return True
    if math.isnan(a) and math.isnan(b):
        return True
    if math.isinf(a) or math.isinf(b) or math.isnan(a) or math.isnan(b):
        return False
    return abs(a - b) <= TOL * (1.0 + scale)


def _margin(obs, k):
    """smallest distance of a hard coordinate of the candidate to the cube faces (to classify an in-bounds mismatch as a near tie)"""
    cand = obs["seen"]["cand"][k]
    return min([min(abs(cand[i]), abs(1.0 - cand[i])) for i in obs["strict"]] or [math.inf])


def correspond(tier):
    n_runners = 150 if tier == "quick" else 2500
    drv = common.Driver()
    out = []
    for kind in ("tpcn", "rwm"):
        rng = common.rng_for("C03.corr." + kind)
        c = Corr(f"kernel-step-{kind}", "toleranced Float (T): values 1e-9(1+scale), decisions exact unless margin < 1e-9")
        lines, metas = [], []
        run_lines, run_metas = [], []       # one `krun.F` op per runner: the model does the per-walker gather and the adaptation
        for _ in range(n_runners):
            cfg = _gen_runner(rng, kind)
            from tempest.modes import ModeStatistics
            if cfg["bad_index"]:
                # malformed assignment: the real code must raise IndexError, the model answers `IndexError`
                try:
                    _one_step(cfg, rng)
                    impl_err = "no error"
                except IndexError:
                    impl_err = "IndexError"
                except Exception as e:
                    impl_err = type(e).__name__
                ms = ModeStatistics(cfg["means"], cfg["covs"], cfg["dofs"])
                zero = flist([0.0] * cfg["n"], f2hex)
                run_lines.append(_krun_line(kind, cfg, ms, np.full(cfg["K"], 0.5), 1.0, cfg["u"], cfg["assign"], zero, zero, zero, zero,
                                            _rows(np.zeros((cfg["n"], cfg["d"])))))
                run_metas.append(("error", impl_err, None))
                c.case(run_lines[-1], True)
                c.count("malformed:assignment_out_of_range")
                continue
            try:
                obs = _one_step(cfg, rng)
            except Exception as e:  # the real code crashing on a valid input is a disagreement with the (total) model
                c.disagree(input={k: (v.tolist() if isinstance(v, np.ndarray) else v) for k, v in cfg.items() if not callable(v)},
                           impl=f"raised {type(e).__name__}: {e}", model="one step", kind=kind)
                continue
            if obs["iters"] != 1 or "alpha" not in obs["seen"] or obs["tape"].r is None:
                c.disagree(input="harness", impl=f"iterations={obs['iters']}", model="exactly one step", kind=kind)
                continue
            ms, seen, tape = obs["ms"], obs["seen"], obs["tape"]
            per = [] if cfg["per"] is None else [int(i) for i in cfg["per"]]
            refl = [] if cfg["refl"] is None else [int(i) for i in cfg["refl"]]
            gs = [tape.gamma_calls.get(k, (0.0, 0.0, 1.0))[2] for k in range(cfg["n"])]
            zrows = [tape.z_calls.get(k, [[0.0] * cfg["d"]])[0] for k in range(cfg["n"])]
            run_lines.append(_krun_line(kind, cfg, ms, obs["sig"], obs["sigma0"], cfg["u"], cfg["assign"], flist(obs["logl"], f2hex),
                                        flist(seen["logl_prime"], f2hex), flist(gs, f2hex), flist(tape.r, f2hex), _rows(zrows)))
            run_metas.append(("run", cfg, obs))
            for cl in range(cfg["K"]):
                sg = float(obs["sig"][cl])
                c.count("sigma=0" if sg == 0.0 else "sigma<0" if sg < 0 else "sigma>=1" if sg >= 1 else "sigma_in_(0,1)")
            for k in range(cfg["n"]):
                cl = int(cfg["assign"][k])
                zs = tape.z_calls.get(k, [])
                g = tape.gamma_calls.get(k, (0.0, 0.0, 1.0))
                line = (f"kstep.F kind={kind} d={cfg['d']} u={flist(cfg['u'][k], f2hex)} mu={flist(ms.means[cl], f2hex)} "
                        f"chol={_rows(ms.chol_covariances[cl])} invcov={_rows(ms.inv_covariances[cl])} "
                        f"nu={f2hex(ms.degrees_of_freedom[cl])} sigma={f2hex(obs['sig'][cl])} beta={f2hex(cfg['beta'])} "
                        f"l={f2hex(obs['logl'][k])} lp={f2hex(seen['logl_prime'][k])} g={f2hex(g[2])} r={f2hex(tape.r[k])} "
                        f"z={flist(zs[0] if zs else [], f2hex)} per={flist(per, str)} refl={flist(refl, str)}")
                lines.append(line)
                metas.append((cfg, obs, k))
                from tempest.mcmc import check_bounds
                cand = seen.get("cand", {}).get(k)
                inb = bool(check_bounds(cand, cfg["per"], cfg["refl"])) if cand is not None else True
                obs.setdefault("inb", {})[k] = inb
                c.case(line, cfg["K"] >= 2 or cfg["d"] >= 2 or not inb)
                c.count(f"d={cfg['d']}")
                c.count(f"K={cfg['K']}")
                used = sorted({int(a) for a in cfg["assign"]})
                if len({float(cfg["dofs"][a]) for a in used}) >= 2:
                    c.count("walker_in_runner_with_>=2_nonempty_modes_of_distinct_dof")
                c.count("in_bounds" if inb else "out_of_bounds_rejected")
                c.count(f"normal_draws={len(zs)}")
                if any(x in (0.0, 1.0) for x in cfg["u"][k]):
                    c.count("state_on_cube_face")
                if per or refl:
                    c.count("folded_coordinates")
                if cfg["hole"]:
                    c.count("likelihood_hole")
                if kind == "tpcn" and k not in tape.gamma_calls:
                    c.disagree(input=line, impl="no gamma draw for this walker", model="one gamma draw per walker", kind=kind)
        # ---- the ensemble op: split its answer into the per-walker answers (same format as kstep.F) and the new sigmas
        run_res = drv.batch(run_lines)
        res = []
        for (tag, a, obs), rline, rans in zip(run_metas, run_lines, run_res):
            if tag == "error":
                if not (rans == "IndexError" and a == "IndexError"):
                    c.disagree(input=rline[:600], impl=a, model=rans, kind=kind, what=["index_error"])
                continue
            cfg = a
            parts = rans.split(" ")
            walkers = parts[0].split("|") if len(parts) == 2 else []
            if len(walkers) != cfg["n"]:
                c.disagree(input=rline[:600], impl="one step of the ensemble", model=rans[:200], kind=kind)
                res += ["bad-op"] * cfg["n"]
                continue
            res += [w.replace("/", " ") for w in walkers]
            new_sig = common.parse_list(parts[1], hex2f)
            for cl in range(cfg["K"]):
                empty = not np.any(cfg["assign"] == cl)
                c.count("adapt_empty_cluster_kept" if empty else "adapt_checked")
                want = float(obs["new_sig"][cl])
                ok = (want == float(obs["sig"][cl]) and new_sig[cl] == want) if empty else _close(want, new_sig[cl], abs(want))
                if len(new_sig) != cfg["K"] or not ok:
                    c.disagree(input=rline[:600], impl={"new_sigmas": obs["new_sig"].tolist()}, model={"new_sigmas": new_sig},
                               kind=kind, what=["adapt"])
                    break
        for (cfg, obs, k), line, ans in zip(metas, lines, res):
            toks = ans.split(" ")
            seen, tape = obs["seen"], obs["tape"]
            if len(toks) != 13:
                c.disagree(input=line, impl="one step", model=ans, kind=kind)
                continue
            shape, scale, s = (hex2f(t) for t in toks[:3])
            draws = int(toks[3])
            cand = common.parse_list(toks[4], hex2f)
            inb = toks[5] == "1"
            prop = common.parse_list(toks[6], hex2f)
            dot, dotp, fac, alpha = (hex2f(t) for t in toks[7:11])
            acc = toks[11] == "1"
            new_u = common.parse_list(toks[12], hex2f)
            impl = {"candidate": seen["cand"][k].tolist(), "in_bounds": obs["inb"][k], "u_prime": seen["u_prime"][k].tolist(),
                    "factor": float(seen["factor"][k]), "alpha": float(seen["alpha"][k]),
                    "draws": len(tape.z_calls.get(k, [])), "new_u": obs["new_u"][k].tolist()}
            bad = []
            if draws != impl["draws"]:
                bad.append("draws")
            if kind == "tpcn" and k in tape.gamma_calls:
                gsh, gsc, _ = tape.gamma_calls[k]
                impl["gamma_shape"], impl["gamma_scale"] = gsh, gsc
                if not _close(gsh, shape, abs(shape)):
                    bad.append("gamma_shape")
                if not _close(gsc, scale, abs(scale)):
                    bad.append("gamma_scale")
            if not bad and (len(cand) != cfg["d"] or not all(_close(a, b, abs(b)) for a, b in zip(impl["candidate"], cand))):
                bad.append("candidate")
            if not bad and inb != impl["in_bounds"]:
                if _margin(obs, k) < 1e-9:
                    c.near_ties += 1
                    continue
                bad.append("in_bounds")
            if not bad:
                if len(prop) != cfg["d"] or not all(_close(a, b, abs(b)) for a, b in zip(impl["u_prime"], prop)):
                    bad.append("proposal_passed_on")
                fscale = abs(fac) + abs(dot) + abs(dotp)
                if not _close(impl["factor"], fac, fscale):
                    bad.append("factor")
                lp_, l_ = float(seen["logl_prime"][k]), float(obs["logl"][k])
                ascale = fscale + (abs(cfg["beta"] * (lp_ - l_)) if math.isfinite(lp_ - l_) else 0.0)
                if not _close(impl["alpha"], alpha, ascale):
                    bad.append("alpha")
            if not bad:
                r = tape.r[k]
                if impl["in_bounds"] and (abs(r - impl["alpha"]) < 1e-9 or abs(r - alpha) < 1e-9):
                    c.near_ties += 1
                else:
                    impl_acc = bool(r < impl["alpha"])
                    if impl_acc != acc:
                        bad.append("accept")
                    elif not all(_close(a, b, abs(b)) for a, b in zip(impl["new_u"], new_u)):
                        bad.append("new_state")
                    c.count("accepted" if impl_acc else "rejected")
            if bad:
                c.disagree(input=line, impl=impl, model=ans, what=bad, kind=kind)
            c.sample({"op": line[:400], "impl": impl, "model": ans})
        out.append(c)
    out.append(_mode_stats_consistency(tier))
    out += _run_suites(tier, drv)          # the run loop around the step, dispatch and wiring (Props/C03Run.lean)
    out += c03_modes.correspond(tier)      # ModeStatistics.__init__ against its executable model (Props/C03Modes.lean)
    return out


def _mode_stats_consistency(tier):
    """the theorems ASSUME the precomputed quantities the kernels use are consistent with the covariance: the factor the
    proposal multiplies the normal vector with satisfies L L^T = Sigma (and is the lower factor the code's `chol_cov @ randn`
    expects), and inv_cov = Sigma^-1.  Checked here on the real ModeStatistics for correlated matrices."""
    from tempest.modes import ModeStatistics
    c = Corr("mode-stats-consistency", "toleranced (1e-9 relative): L L^T = Sigma, L lower-triangular, inv_cov Sigma = I")
    rng = common.rng_for("C03.modestats")
    for _ in range(120 if tier == "quick" else 1500):
        d = rng.randint(1, 5)
        K = rng.randint(1, 3)
        covs = np.array([_spd(rng, d, rng.uniform(0.05, 0.5)) for _ in range(K)])
        ms = ModeStatistics(np.zeros((K, d)), covs, np.full(K, 3.0))
        c.case([common.f2hex(v) for v in covs.ravel()[:6]], d >= 2)
        for k in range(K):
            L, S, Si = ms.chol_covariances[k], covs[k], ms.inv_covariances[k]
            sc = float(np.abs(S).max())
            bad = None
            if np.abs(L @ L.T - S).max() > 1e-9 * sc:
                bad = "chol_cov @ chol_cov.T != covariance (the proposal noise chol_cov @ z does not have covariance Sigma)"
            elif np.abs(np.triu(L, 1)).max() > 0:
                bad = "chol_cov is not lower-triangular"
            elif np.abs(Si @ S - np.eye(d)).max() > 1e-8:
                bad = "inv_cov @ covariance != I"
            if bad:
                c.disagree(input={"cov": S.tolist()}, impl=bad, model="L L^T = Sigma, inv_cov = Sigma^-1 (hypotheses of C03_tpcn_interior)", kind="tpcn")
                break
    c.sample({"checked": "ModeStatistics(means, covs, dof) for random correlated SPD covs, d in 1..5"})
    return c


# ------------------------------------------------------------------ property oracle on the real code
# One-step invariance: exact draws from pi_beta on [0,1] -> ONE real step with fixed sigma -> chi-square of the 20-bin
# histogram against the exact bin probabilities.  Under invariance the walkers stay i.i.d. pi_beta, so the statistic is
# chi2(19) and the threshold p < 1e-9 cannot fire on a correct kernel (except with that probability).
NBINS = 20
CHI2_P = 1e-9

TARGETS = {
    # name: (log-likelihood l(x), exact inverse CDF of pi_beta ∝ exp(beta l), exact CDF)
    "uniform": dict(l=lambda x: np.zeros_like(x)),
    "tilted": dict(l=lambda x: 3.0 * x),
    "corner": dict(l=lambda x: 8.0 * np.log(np.maximum(x, 1e-300))),
    "interior": dict(l=lambda x: -0.5 * ((x - 0.5) / 0.05) ** 2),
}


def _target_cdf(name, beta, x):
    x = np.asarray(x, dtype=float)
    if name == "uniform":
        return x
    if name == "tilted":
        c = 3.0 * beta
        return np.expm1(c * x) / math.expm1(c)
    if name == "corner":
        return x ** (8.0 * beta + 1.0)
    if name == "interior":
        from scipy.stats import norm
        sd = 0.05 / math.sqrt(beta)
        a, b = norm.cdf(0.0, 0.5, sd), norm.cdf(1.0, 0.5, sd)
        return (norm.cdf(x, 0.5, sd) - a) / (b - a)
    raise KeyError(name)


def _target_sample(name, beta, v):
    """inverse CDF at uniforms v"""
    if name == "uniform":
        return v
    if name == "tilted":
        c = 3.0 * beta
        return np.log1p(v * math.expm1(c)) / c
    if name == "corner":
        return v ** (1.0 / (8.0 * beta + 1.0))
    if name == "interior":
        from scipy.stats import norm
        sd = 0.05 / math.sqrt(beta)
        a, b = norm.cdf(0.0, 0.5, sd), norm.cdf(1.0, 0.5, sd)
        return norm.ppf(a + v * (b - a), 0.5, sd)
    raise KeyError(name)


MODE = {
    # proposal statistics used for the cells (the property holds for ANY statistics; these are fixed, mid-range ones)
    "wide": dict(mu=0.5, var=1.0 / 12.0, nu=3.0),
    "narrow": dict(mu=0.47, var=0.06 ** 2, nu=3.0),
}


def chi2_threshold():
    from scipy.stats import chi2
    return float(chi2.isf(CHI2_P, NBINS - 1))


TWO_MODES = [dict(mu=0.3, var=0.12 ** 2, nu=2.5), dict(mu=0.7, var=0.25 ** 2, nu=60.0)]


def one_step_cell(kernel, boundary, sigma, beta, target, seed, n=200000, mode=None, steps=1):
    """the oracle: returns dict(chi2, chi2_before, threshold, fails).
    mode="two": K = 2 modes with distinct means, scales and CLEARLY different dof (TWO_MODES); the assignment is a function of
    the walker index (parity), fixed during the step, so each half is a chain with one fixed kernel and must keep the same
    target: the statistic is the larger of the two per-half chi-squares."""
    from tempest.modes import ModeStatistics
    mode = mode or ("narrow" if target == "interior" else "wide")
    mos = TWO_MODES if mode == "two" else [MODE[mode]]
    rs = np.random.RandomState(seed)
    u = np.clip(_target_sample(target, beta, rs.rand(n)), 0.0, 1.0).reshape(n, 1)
    lfun = TARGETS[target]["l"]

    def log_likelihood(x):
        return lfun(np.asarray(x, dtype=float)[:, 0]), None

    ms = ModeStatistics(np.array([[m["mu"]] for m in mos]), np.array([[[m["var"]]] for m in mos]),
                        np.array([m["nu"] for m in mos]))
    assign = (np.arange(n) % len(mos)).astype(int)
    per = np.array([0]) if boundary == "periodic" else None
    refl = np.array([0]) if boundary == "reflective" else None
    logl, _ = log_likelihood(u)
    runner = _runner_cls(kernel)(u, u.copy(), logl, None, assign, beta, ms, log_likelihood,
                                 lambda t: t, None, 1, 1, per, refl)
    runner._check_convergence = lambda a: True
    runner._adapt_sigma = lambda c, a: None        # fixed step size: the property quantifies over one sigma
    # equiprobable bins (expected count n/NBINS in each; for the uniform target these are the equal-width bins)
    edges = np.asarray(_target_sample(target, beta, np.linspace(0.0, 1.0, NBINS + 1)), dtype=float)
    edges[0], edges[-1] = 0.0, 1.0
    prob = np.diff(_target_cdf(target, beta, edges))
    ok = prob > 0
    with warnings.catch_warnings():
        warnings.simplefilter("ignore")
        with common.patched(np.random, "gamma", rs.gamma), common.patched(np.random, "randn", rs.randn), \
                common.patched(np.random, "rand", rs.rand):
            for _ in range(steps):
                runner.sigmas[:] = sigma
                out = runner.run()
    v = np.asarray(out[0])[:, 0]
    chi_b, chi_a, ratios = [], [], []
    for c in range(len(mos)):
        sel = assign == c
        expct = sel.sum() * prob
        before = np.histogram(u[sel, 0], bins=edges)[0]
        after = np.histogram(v[sel], bins=edges)[0]
        chi_b.append(float(np.sum((before[ok] - expct[ok]) ** 2 / expct[ok])))
        chi_a.append(float(np.sum((after[ok] - expct[ok]) ** 2 / expct[ok])))
        ratios.append([float(after[0] / expct[0]), float(after[-1] / expct[-1])] if expct[0] > 0 and expct[-1] > 0 else None)
    thr = chi2_threshold()
    res = {"chi2": max(chi_a), "chi2_before": max(chi_b), "threshold": thr, "fails": max(chi_a) > thr and max(chi_b) <= thr,
           "edge_ratio": ratios[int(np.argmax(chi_a))]}
    if len(mos) > 1:
        res["chi2_per_mode"] = chi_a
    return res


def one_step_cell_2d(kernel, boundary, rho, sigma, seed, n=200000, bins=5):
    """d = 2, uniform target (every in-cube proposal of RWM is accepted), BOTH coordinates of the given boundary type, mode
    covariance (1/12) [[1, rho], [rho, 1]]: chi-square of the bins x bins histogram after one step against the uniform law"""
    from scipy.stats import chi2
    from tempest.modes import ModeStatistics
    rs = np.random.RandomState(seed)
    u = rs.rand(n, 2)
    cov = np.array([[1.0, rho], [rho, 1.0]]) / 12.0
    ms = ModeStatistics(np.array([[0.5, 0.5]]), np.array([cov]), np.array([3.0]))
    idx = np.array([0, 1])
    per = idx if boundary == "periodic" else (np.array([0]) if boundary == "periodic+hard" else None)
    refl = idx if boundary == "reflective" else None
    runner = _runner_cls(kernel)(u, u.copy(), np.zeros(n), None, np.zeros(n, dtype=int), 1.0, ms,
                                 lambda x: (np.zeros(len(x)), None), lambda t: t, None, 1, 1, per, refl)
    runner._check_convergence = lambda a: True
    runner._adapt_sigma = lambda c, a: None
    runner.sigmas[:] = sigma
    edges = np.linspace(0.0, 1.0, bins + 1)
    e = n / bins / bins
    before = np.histogram2d(u[:, 0], u[:, 1], bins=[edges, edges])[0]
    with warnings.catch_warnings():
        warnings.simplefilter("ignore")
        with common.patched(np.random, "gamma", rs.gamma), common.patched(np.random, "randn", rs.randn), \
                common.patched(np.random, "rand", rs.rand):
            out = runner.run()
    v = np.asarray(out[0])
    after = np.histogram2d(v[:, 0], v[:, 1], bins=[edges, edges])[0]
    chi_b = float(((before - e) ** 2 / e).sum())
    chi_a = float(((after - e) ** 2 / e).sum())
    thr = float(chi2.isf(CHI2_P, bins * bins - 1))
    return {"chi2": chi_a, "chi2_before": chi_b, "threshold": thr, "fails": chi_a > thr and chi_b <= thr,
            "corner_ratio": {"diag": [float(after[0, 0] / e), float(after[-1, -1] / e)],
                             "anti": [float(after[0, -1] / e), float(after[-1, 0] / e)]}}


def multi_step_cell(kernel, target, beta, nu, m, seed, n=40000, d=1, per=None, refl=None, calls=1):
    """MULTI-step invariance oracle: exact i.i.d. draws from the tempered target (product over `d` coordinates of the 1-D
    target) -> ONE call of the real `parallel_mcmc` with n_steps = n_max = m, i.e. exactly max(1, m*d) passes of ONE stateful
    runner with everything enabled (adaptation as in the code) -> chi-square of the 20-bin histogram of coordinate 0 against the
    exact bin probabilities.  Every pass is pi-invariant for the step sizes it is given and the step sizes are functions of
    ensemble means over n walkers, so each walker's law deviates from pi by O(1/n) — far below the statistical resolution
    1/sqrt(n); the number of passes is deterministic (n_max <= n_steps: C03_run_iteration_bounds).  Catches what a single step
    from a fresh runner cannot: state carried by the runner from one pass to the next (caches, stale draws, stale coefficients)."""
    import tempest.mcmc as M
    from tempest.modes import ModeStatistics
    rs = np.random.RandomState(seed)
    u = np.clip(_target_sample(target, beta, rs.rand(n, d)), 0.0, 1.0)
    lfun = TARGETS[target]["l"]

    def log_likelihood(x):
        return np.sum(lfun(np.asarray(x, dtype=float)), axis=1), None

    mo = MODE["narrow" if target == "interior" else "wide"]
    ms = ModeStatistics(np.full((1, d), mo["mu"]), (mo["var"] * np.eye(d))[None], np.array([nu]))
    logl, _ = log_likelihood(u)
    edges = np.asarray(_target_sample(target, beta, np.linspace(0.0, 1.0, NBINS + 1)), dtype=float)
    edges[0], edges[-1] = 0.0, 1.0
    prob = np.diff(_target_cdf(target, beta, edges))
    ok = prob > 0
    with warnings.catch_warnings():
        warnings.simplefilter("ignore")
        with common.patched(np.random, "gamma", rs.gamma), common.patched(np.random, "randn", rs.randn), \
                common.patched(np.random, "rand", rs.rand):
            # call-sequence family: the SAME input arrays are reused for `calls` consecutive calls (replicates started from one
            # fixed ensemble); every call must leave them untouched, so the last call is again `m*d` passes from exact draws
            x_in, a_in = u.copy(), np.zeros(n, dtype=int)
            saved = (u.copy(), x_in.copy(), logl.copy(), a_in.copy())
            modified = []
            for _c in range(calls):
                out = M.parallel_mcmc(u, x_in, logl, None, a_in, beta, ms, log_likelihood, lambda t: t, None,
                                      m, m, kernel, per, refl, False)
                for nm, arr, sv in zip(("u", "x", "logl", "assignments"), (u, x_in, logl, a_in), saved):
                    if not np.array_equal(arr, sv) and nm not in modified:
                        modified.append(nm)
            u = saved[0]
    w = np.asarray(out[0])
    expct = n * prob
    # exact part: no particle may sit outside [0,1] in a coordinate that is neither periodic nor reflective (all start inside)
    wrapped = set(int(i) for i in (per if per is not None else [])) | set(int(i) for i in (refl if refl is not None else []))
    hard = [i for i in range(d) if i not in wrapped]
    outside = int(np.sum(np.any((w[:, hard] < 0) | (w[:, hard] > 1), axis=1))) if hard else 0
    # statistical part: every coordinate keeps its marginal (the largest of the d chi-squares; p < 1e-9 each)
    chi_b = chi_a = -1.0
    worst = 0
    for j in range(d):
        before = np.histogram(u[:, j], bins=edges)[0]
        after = np.histogram(w[:, j], bins=edges)[0]
        chi_b = max(chi_b, float(np.sum((before[ok] - expct[ok]) ** 2 / expct[ok])))
        cj = float(np.sum((after[ok] - expct[ok]) ** 2 / expct[ok])) + float(n - after.sum()) ** 2 / max(1.0, float(expct[ok].min()))
        if cj > chi_a:
            chi_a, worst, ratio = cj, j, [float(after[0] / expct[0]), float(after[-1] / expct[-1])]
    thr = chi2_threshold()
    lw = np.asarray(log_likelihood(np.asarray(out[1]))[0], dtype=float)
    logl_mismatch = int(np.sum(~np.isclose(np.asarray(out[2], dtype=float), lw, rtol=1e-9, atol=1e-9, equal_nan=True)))
    return {"chi2": chi_a, "chi2_before": chi_b, "threshold": thr,
            "fails": (chi_a > thr and chi_b <= thr) or outside > 0 or bool(modified) or logl_mismatch > 0,
            "passes": int(out[6]), "edge_ratio": ratio, "acceptance": float(out[5]), "outside": outside, "coordinate": worst,
            "modified": modified, "logl_mismatch": logl_mismatch, "calls": calls}


CELLS_MULTI = [
    # (kernel, target, beta, nu, m, d): heavy-tailed modes (small nu: the mixing scale varies a lot) and a Gaussian-like one
    ("tpcn", "interior", 1.0, 1.0, 10, 1),
    ("tpcn", "interior", 0.5, 2.0, 6, 2),
    ("tpcn", "tilted", 1.0, 1.0, 10, 1),
    ("tpcn", "uniform", 1.0, 30.0, 8, 1),
    ("rwm", "interior", 1.0, 3.0, 10, 1),
    ("rwm", "tilted", 1.0, 3.0, 6, 2),
    # the same input arrays reused for 2-3 consecutive calls, few passes each (trailing element: number of calls)
    ("tpcn", "interior", 1.0, 3.0, 2, 1, None, None, 2),
    ("rwm", "tilted", 1.0, 3.0, 1, 2, None, None, 3),
    # both index options together, as numpy arrays / lists / tuples (RWM with a diagonal mode covariance: proved invariant,
    # rows 7-9; tpCN on folded coordinates is the known finding F17 and is not used here); hard coordinates remain
    ("rwm", "tilted", 1.0, 3.0, 3, 4, ("int64", [1]), ("int64", [2])),
    ("rwm", "tilted", 1.0, 3.0, 3, 4, ("list", [0]), ("tuple", [3])),
    ("rwm", "tilted", 1.0, 3.0, 2, 5, ("int32", [0, 1]), ("int64", [2, 3])),
]


def _mk_index(spec):
    if spec is None:
        return None
    f, idx = spec
    return np.array(idx, dtype=np.int64) if f == "int64" else np.array(idx, dtype=np.int32) if f == "int32" \
        else list(idx) if f == "list" else tuple(idx)


CELLS_2D = [
    # (kernel, boundary, rho, sigma, known_id)
    ("tpcn", "hard", 0.9, 0.5, None),                                 # proved: C03_tpcn_hard_reject (needs L L^T = Sigma)
    ("rwm", "periodic", 0.9, 0.5, None),                              # proved: fold_periodic_symmetric_nd
    ("rwm", "periodic+hard", 0.9, 0.5, None),                         # proved: C03_rwm_mixed_boundaries (coordinate 0 periodic, 1 hard)
    ("rwm", "reflective", 0.0, 0.5, None),                            # proved: fold_reflective_symmetric_nd (diagonal Sigma)
    ("rwm", "reflective", 0.9, 0.5, "F21_reflective_correlated"),     # counter-example C03_reflect_correlated_asymmetric
]


def known_id(kernel, boundary, target):
    """the recorded defect of the 1-D cells: tpCN x folded coordinate (F17).  Hard-boundary cells are no longer excused (F16 is
    fixed: out-of-cube proposals are rejected), a failure there is a new violation.  The `interior` target keeps all mass and
    (with the narrow mode) all proposals away from the faces, so no boundary rule can be blamed there."""
    if target == "interior":
        return None
    if kernel == "tpcn" and boundary in ("periodic", "reflective"):
        return "F17_tpcn_fold"
    return None


def _cells(tier):
    """(detectors, rest): `detectors` are the cells where no recorded defect can be blamed — interior targets (no boundary can
    intervene), hard boundaries (both kernels) and RWM on folded coordinates; `rest` is the remaining boundary grid (its
    tpCN-fold cells carry the known_id F17)."""
    det = []
    for kernel in ("tpcn", "rwm"):
        det.append((kernel, "hard", 0.5, 0.5, "interior", 1))
        det.append((kernel, "hard", 0.9, 0.5, "interior", 2))
    # K = 2 modes with different dof / scale / mean (assignment by walker parity): a per-walker mix-up of mode statistics
    # (e.g. one mode's dof used for every walker in the tpCN factor) is invisible to the single-mode cells
    for kernel in ("tpcn", "rwm"):
        det.append((kernel, "hard", 0.5, 1.0, "tilted", 1, "two"))
    det.append(("tpcn", "hard", 0.8, 1.0, "uniform", 1, "two"))
    for kernel in ("rwm", "tpcn"):
        for target in ("uniform", "tilted"):
            det.append((kernel, "hard", 0.5, 1.0, target, 1))
    for boundary in ("periodic", "reflective"):
        for target in ("tilted", "uniform", "corner"):
            det.append(("rwm", boundary, 0.5, 1.0, target, 1))
    if tier != "quick":
        for kernel in ("tpcn", "rwm"):
            det.append((kernel, "hard", 0.2, 1.0, "interior", 2))
            for boundary in ("periodic", "reflective"):
                det.append((kernel, boundary, 0.2, 0.5, "interior", 2))
    rest = []
    sig_all = (0.2, 0.5, 0.9)
    for kernel in ("tpcn", "rwm"):
        for boundary in ("hard", "periodic", "reflective"):
            for target in ("uniform", "tilted", "corner"):
                for sigma in (sig_all if (tier != "quick" or target == "uniform") else (0.5,)):
                    cell = (kernel, boundary, sigma, 1.0, target, 1)
                    if cell not in det:
                        rest.append(cell)
    return det, rest


def search(tier, hints):
    run_found = _run_oracles(tier)          # exact, deterministic oracles on the run loop (cheap; before the chi-square cells)
    # the invariance statement for the k-th pass of ONE stateful runner (the one-step cells below start a fresh runner from exact
    # draws and cannot see state carried from pass to pass): first whenever the run suites or the run oracles disagree
    multi_found = _multi_step_search(tier, hints)
    if multi_found or run_found:
        return multi_found + run_found
    base = common.seed()
    n = 200000 if tier == "quick" else 500000
    kinds = {h.get("kind") for h in hints if h.get("kind")}
    det, rest = _cells(tier)
    if kinds:
        det.sort(key=lambda c: 0 if c[0] in kinds else 1)      # stable sort: the suspected kernel first
        rest.sort(key=lambda c: 0 if c[0] in kinds else 1)
    found, new = [], 0
    for phase, cells in (("det", det), ("rest", rest)):
        for cell in cells:
            kernel, boundary, sigma, beta, target, steps = cell[:6]
            mode = cell[6] if len(cell) > 6 else None
            tag = f"{kernel}/{boundary}/{sigma}/{beta}/{target}/{steps}" + (f"/{mode}" if mode else "")
            seed = (base * 1000003 + int(common.digest(tag), 16)) % (2 ** 31 - 1)
            r = one_step_cell(kernel, boundary, sigma, beta, target, seed, n=n, steps=steps, mode=mode)
            if r["chi2_before"] > r["threshold"]:
                raise common.LeanError(f"oracle self-check failed: exact sampler of target {target} has chi2 {r['chi2_before']}")
            if r["fails"]:
                f = {"what": f"one-step invariance violated: chi2={r['chi2']:.1f} > {r['threshold']:.1f} (p<1e-9, {NBINS} bins, N={n})",
                     "kernel": kernel, "boundary": boundary, "sigma": sigma, "beta": beta, "target": target, "steps": steps, "mode": mode,
                     "seed": seed, "n": n, "chi2": r["chi2"], "edge_ratio": r["edge_ratio"]}
                kid = known_id(kernel, boundary, target)
                if kid:
                    f["known_id"] = kid
                else:
                    new += 1
                found.append(f)
        if new:
            break       # a new violation is established; the boundary grid would only add the recorded ones
        if phase == "det":
            for kernel, boundary, rho, sigma, kid in CELLS_2D:
                tag = f"2d/{kernel}/{boundary}/{rho}/{sigma}"
                seed = (base * 1000003 + int(common.digest(tag), 16)) % (2 ** 31 - 1)
                r = one_step_cell_2d(kernel, boundary, rho, sigma, seed, n=n)
                if r["fails"]:
                    f = {"what": f"one-step invariance violated in d=2: chi2={r['chi2']:.1f} > {r['threshold']:.1f} (p<1e-9, 5x5 bins, N={n})",
                         "kernel": kernel, "boundary": boundary, "sigma": sigma, "beta": 1.0, "target": "uniform", "dim": 2, "rho": rho,
                         "seed": seed, "n": n, "chi2": r["chi2"], "corner_ratio": r["corner_ratio"]}
                    if kid:
                        f["known_id"] = kid
                    else:
                        new += 1
                    found.append(f)
            if new:
                break
    found += c03_modes.search(tier, hints)                      # exact oracle: H_modes on the real ModeStatistics (clause 15)
    found.sort(key=lambda f: 1 if "known_id" in f else 0)      # unknown findings first
    return found


def _multi_step_search(tier, hints):
    base = common.seed()
    n = 40000 if tier == "quick" else 100000
    kinds = {h.get("kind") for h in hints if h.get("kind")}
    cells = sorted(CELLS_MULTI, key=lambda c: 0 if c[0] in kinds else 1)
    for cell in cells:
        kernel, target, beta, nu, m, d = cell[:6]
        pspec, rspec = (cell[6], cell[7]) if len(cell) > 6 else (None, None)
        calls = cell[8] if len(cell) > 8 else 1
        tag = f"multi/{kernel}/{target}/{beta}/{nu}/{m}/{d}/{pspec}/{rspec}/{calls}"
        seed = (base * 1000003 + int(common.digest(tag), 16)) % (2 ** 31 - 1)
        try:
            r = multi_step_cell(kernel, target, beta, nu, m, seed, n=n, d=d, per=_mk_index(pspec), refl=_mk_index(rspec), calls=calls)
        except (common.LeanError, OSError, MemoryError):
            raise
        except Exception as e:      # the real code raising on a valid configuration (every cell runs on the unchanged tree)
            return [{"what": f"parallel_mcmc raised {type(e).__name__}: {e} on a valid configuration (sample={kernel}, d={d}, "
                             f"periodic={pspec}, reflective={rspec}, n_steps = n_max = {m})",
                     "oracle": "c03multi", "kernel": kernel, "target": target, "beta": beta, "nu": nu, "m": m, "d": d, "seed": seed,
                     "n": 200, "per": pspec, "refl": rspec, "calls": calls}]
        if r["chi2_before"] > r["threshold"]:
            raise common.LeanError(f"oracle self-check failed: exact sampler of target {target} has chi2 {r['chi2_before']}")
        if r["fails"]:
            what = (f"{r['outside']} of {n} particles OUTSIDE the unit cube in a hard-boundary coordinate after " if r["outside"]
                    else f"parallel_mcmc modified its input arrays {r['modified']} in place; call {calls} of {calls} on the SAME "
                         f"(u, x, logl, assignments) arrays: after " if r["modified"]
                    else f"returned logl is not the log-likelihood of the returned x for {r['logl_mismatch']} particles after "
                    if r["logl_mismatch"] else f"multi-step invariance violated (call {calls} of {calls} on the same input arrays): after ")
            return [{"what": what + f"{r['passes']} passes of ONE parallel_mcmc call (n_steps = n_max = {m}, d = {d}, periodic={pspec}, "
                             f"reflective={rspec}, everything enabled) from exact in-cube target draws; coordinate {r['coordinate']}: "
                             f"chi2={r['chi2']:.1f} (threshold {r['threshold']:.1f} = p<1e-9, {NBINS} bins, N={n}; before the call "
                             f"{r['chi2_before']:.1f})",
                     "oracle": "c03multi", "kernel": kernel, "target": target, "beta": beta, "nu": nu, "m": m, "d": d, "seed": seed, "n": n,
                     "per": pspec, "refl": rspec, "calls": calls, "chi2": r["chi2"], "edge_ratio": r["edge_ratio"],
                     "passes": r["passes"], "outside": r["outside"], "modified": r["modified"]}]
    return []


def replay(obj):
    f = obj.get("failing_input", obj)
    if f.get("oracle") == "c03run":
        return _run_oracle_replay(f)
    if f.get("oracle") == "c03multi":
        try:
            r = multi_step_cell(f["kernel"], f["target"], f["beta"], f["nu"], f["m"], f["seed"], n=f.get("n", 40000), d=f.get("d", 1),
                                per=_mk_index(f.get("per")), refl=_mk_index(f.get("refl")), calls=f.get("calls", 1))
        except (common.LeanError, OSError, MemoryError):
            raise
        except Exception as e:
            return {"fails": True, "detail": f"parallel_mcmc raised {type(e).__name__}: {e}"}
        return {"fails": bool(r["fails"]), "detail": f"modified={r['modified']} outside={r['outside']} chi2={r['chi2']:.1f} threshold={r['threshold']:.1f} after {r['passes']} passes "
                                                     f"(before: {r['chi2_before']:.1f}) edge_ratio={r['edge_ratio']}"}
    if f.get("oracle") == "c03ms":
        return c03_modes.replay(f)
    if "witness" in f.get("replay", {}):
        from . import witnesses
        return witnesses.ALL[f["replay"]["witness"]]()
    if "kernel" not in f:
        return {"fails": None, "detail": "no concrete failing input recorded (broken obligation only): "
                                         + "; ".join(obj.get("broken_obligations", [])[:5])}
    if f.get("dim") == 2:
        r = one_step_cell_2d(f["kernel"], f["boundary"], f["rho"], f["sigma"], f["seed"], n=f.get("n", 200000))
        return {"fails": bool(r["fails"]), "detail": f"chi2={r['chi2']:.1f} threshold={r['threshold']:.1f} "
                                                     f"(before step: {r['chi2_before']:.1f}) corners={r['corner_ratio']}"}
    r = one_step_cell(f["kernel"], f["boundary"], f["sigma"], f["beta"], f["target"], f["seed"], n=f.get("n", 200000), mode=f.get("mode"),
                      steps=f.get("steps", 1))
    return {"fails": bool(r["fails"]), "detail": f"chi2={r['chi2']:.1f} threshold={r['threshold']:.1f} "
                                                 f"(before step: {r['chi2_before']:.1f}) edge_ratio={r['edge_ratio']}"}


# ====================================================================================================================
# the RUN LOOP around the step, the constructor, the dispatch and the pipeline wiring
# (Model/KernelRun.lean, Props/C03Run.lean, driver op `c03run.F`, G4 section `_run_section`)
# ====================================================================================================================
RULE = RULE + (
    " Suites kernel-run-{tpcn,rwm}: the real `parallel_mcmc(..., sample=...)` (constructor, `_initialize_sigmas`, the `while True` "
    "loop with `_adapt_sigma`, `_check_convergence` / `_calculate_adaptive_steps` all ENABLED) on the generated runners restricted to "
    "d in 1..3, K in 1..3 (empty clusters occur; 15%: cluster 0 forced empty), n_steps in 1..3, n_max in 1..4 (so n_max < n_steps "
    "occurs), sample in {tpcn, rwm} and, for the tpCN branch, 20% other strings; numpy.random.gamma/randn/rand are tapes over ALL "
    "iterations (15% of the walkers with a hard coordinate get a forced out-of-cube normal vector per pass). ONE driver op "
    "`c03run.F` = Model.KernelRun.parallelMcmc at Float on the same tapes; compared per pass: the step-size vector USED (snapshot of "
    "runner.sigmas at the first _propose), alphas, in-bounds and accept bits, states, current_acceptance, adaptive_steps (exactly, "
    "unless the value under int() is within 1e-9 of an integer), the stop decision, the adapted step sizes; at the end u, x, logl, "
    "efficiency, acceptance, iteration, n_calls, sigma_0, assignments. Regime T; after a near tie in a decision the rest of that run "
    "is not compared. The same runs are checked against exact oracles of the real code (see search). Non-trivial = K >= 2 or d >= 2 "
    "or >= 2 passes. Suite mcmc-dispatch: parallel_mcmc / the two wrappers called with 15 distinct sentinels (positionally, by "
    "keyword, with defaults) against recording stand-ins for the two runner classes and against the real constructors (run patched "
    "to return the object): class chosen by `sample`, every constructor parameter / attribute receives its argument, arrays are "
    "copies; Mutator.run with a stub state: keyword wiring into parallel_mcmc and write-back of the results.")
MODELLED = [m for m in MODELLED if not m.startswith("`_check_convergence`")] + [
    "run loop: `np.average(sigmas[:m], weights=sizes)`, `.mean()` are left folds in the model (regime T); `int(x)` of the "
    "non-negative bounded step count is `floor`; the per-iteration gamma / normal / uniform draws, prior_transform(u') and "
    "log_likelihood(x') are tapes; blobs and the progress bar are outside the model"]
RULE = RULE + (
    " search additionally: multi-step invariance cells (CELLS_MULTI: exact target draws -> one real parallel_mcmc call with "
    "n_steps = n_max = m, 8-12 passes of one stateful runner, adaptation enabled, chi-square p < 1e-9) and, inside the run "
    "oracles, the randomness consumed per pass (tpCN: exactly one gamma draw per walker per pass with the shape / scale the "
    "walker's current position prescribes; RWM none; one normal vector per walker, one uniform vector per pass). periodic / "
    "reflective index sets are handed over as numpy int64 / int32 arrays, lists or tuples (KS, KR, multi-step cells); 20% of the KR "
    "runners have d in {4,5} with BOTH options given; exact oracles: prior_transform is never called outside the cube in a "
    "hard-boundary coordinate, no particle outside the cube in such a coordinate after a parallel_mcmc call from in-cube draws.")
ASSUMPTIONS = ASSUMPTIONS + [
    "run loop (Props/C03Run.lean): adaptation ACROSS steps makes the chain history-dependent; proved is what the one-step theorems "
    "need at every pass (assignments fixed, one sigma vector per pass handed over only between passes, cube and tpCN range "
    "invariants, diminishing adaptation |dsigma| <= 0.766/(t+1)); that diminishing adaptation + containment imply ergodicity of the "
    "adaptive chain is textbook (Roberts & Rosenthal 2007), not formalised; the stopping rule depends on the acceptance history "
    "(a stopping time) and is outside the invariance statement"]


class RunTape:
    """numpy.random.{gamma, randn, rand} over ALL passes of one run; pass and walker are announced by the instrumented `_propose`"""

    def __init__(self, rng, strict, force_p):
        self.rng, self.strict, self.force_p = rng, strict, force_p
        self.passes = []
        self.cur = None

    def begin(self, it, k):
        while len(self.passes) < it:
            self.passes.append(dict(g={}, z={}, r=None, forced={}))
        self.cur = (it - 1, k)
        p = self.passes[it - 1]
        if k not in p["forced"]:
            p["forced"][k] = self.rng.choice([-1.0, 1.0]) if (self.strict and self.rng.random() < self.force_p) else 0.0

    def gamma(self, *args, **kw):
        if args or set(kw) != {"shape", "scale"}:
            raise RuntimeError("gamma called with unexpected arguments")
        sh, sc = float(kw["shape"]), float(kw["scale"])
        g = self.rng.gammavariate(sh, sc) if (sh > 0 and sc > 0 and math.isfinite(sh) and math.isfinite(sc)) else 1.0
        if not (g > 0 and math.isfinite(g)):
            g = 1.0
        it, k = self.cur
        if k in self.passes[it]["g"]:
            raise RuntimeError("second gamma draw for one walker in one pass")
        self.passes[it]["g"][k] = (sh, sc, g)
        return g

    def randn(self, n):
        it, k = self.cur
        p = self.passes[it]
        if k in p["z"]:
            raise RuntimeError("second normal draw for one walker in one pass")
        if p["forced"].get(k):
            z = [p["forced"][k] * (30.0 + 5.0 * self.rng.random()) * (1 if i == 0 else self.rng.uniform(-1, 1)) for i in range(n)]
        else:
            z = [self.rng.gauss(0, 1) for _ in range(n)]
        p["z"][k] = z
        return np.array(z, dtype=float)

    def rand(self, n):
        it = self.cur[0]
        if self.passes[it]["r"] is not None:
            raise RuntimeError("second uniform draw in one pass")
        self.passes[it]["r"] = [self.rng.random() for _ in range(n)]
        return np.array(self.passes[it]["r"], dtype=float)


def _gen_run_cfg(rng, kind):
    both = rng.random() < 0.2      # family: d in {4, 5}, BOTH index options given (every form), at least one hard coordinate left
    while True:
        cfg = _gen_runner(rng, kind)
        if both and cfg["d"] >= 4 and cfg["K"] <= 2 and not cfg["bad_index"]:
            d = cfg["d"]
            idx = list(range(d))
            rng.shuffle(idx)
            n_p, n_r = rng.choice([(1, 1), (1, 1), (2, 1), (1, 2), (2, 2)])
            if n_p + n_r >= d:
                n_p, n_r = 1, 1
            cfg["per"] = _index_form(rng, sorted(idx[:n_p]))
            cfg["refl"] = _index_form(rng, sorted(idx[n_p:n_p + n_r]))
            break
        if not both and cfg["d"] <= 3 and cfg["K"] <= 3:
            break
    cfg["n_steps"] = rng.randint(1, 3)
    cfg["n_max"] = rng.randint(1, 4)
    cfg["sample"] = "rwm" if kind == "rwm" else ("tpcn" if rng.random() < 0.8 else rng.choice(["other", "TPCN", "", "RWM", "pcn"]))
    if cfg["K"] >= 2 and not cfg["bad_index"] and rng.random() < 0.15:
        cfg["assign"] = np.array([rng.randrange(1, cfg["K"]) for _ in range(cfg["n"])], dtype=int)     # cluster 0 empty
    return cfg


_INSTR, _HOOK = {}, [None]


def _instrumented(cls, hooks):
    """ONE instrumented subclass per runner class (ABC subclass checks are linear in the number of subclasses ever created);
    the hooks of the current run are installed through `_HOOK`"""
    _HOOK[0] = hooks
    if cls not in _INSTR:
        class Instrumented(cls):
            def __init__(self, *a, **k):
                super().__init__(*a, **k)
                _HOOK[0](self)
        Instrumented.__name__ = cls.__name__
        _INSTR[cls] = Instrumented
    return _INSTR[cls]


def _strict_dims(cfg):
    sp = set(int(i) for i in (cfg["per"] if cfg["per"] is not None else [])) | \
        set(int(i) for i in (cfg["refl"] if cfg["refl"] is not None else []))
    return [i for i in range(cfg["d"]) if i not in sp]


def _real_run(cfg, rng, force_p=0.15):
    """the real parallel_mcmc under tapes, everything enabled; returns (obs, out, error)"""
    import tempest.mcmc as M
    from tempest.modes import ModeStatistics
    ms = ModeStatistics(cfg["means"], cfg["covs"], cfg["dofs"])
    u = cfg["u"]
    x = np.array([cfg["prior_transform"](t) for t in u])
    logl, _ = cfg["log_likelihood"](x)
    logl = np.array(logl, dtype=float)
    strict = _strict_dims(cfg)
    tape = RunTape(rng, strict, force_p)
    obs = dict(passes=[], ll_rows=0, tape=tape, ms=ms, x0=x.copy(), logl0=logl.copy(), strict=strict, runner=None,
               inputs=dict(u=(u, np.array(u, copy=True)), x=(x, x.copy()), logl=(logl, logl.copy()),
                           assignments=(cfg["assign"], np.array(cfg["assign"], copy=True))),
               frozen=dict(assign=np.array(cfg["assign"]).copy(), means=ms.means.copy(), chol=ms.chol_covariances.copy(),
                           inv=ms.inv_covariances.copy(), dof=ms.degrees_of_freedom.copy()))
    classes = (M.TPCNRunner, M.RWMRunner)

    def ll(xx):
        obs["ll_rows"] += len(np.atleast_2d(xx))
        return cfg["log_likelihood"](xx)

    obs["pt_outside"] = []

    def pt(uu):
        a = np.asarray(uu, dtype=float)
        if strict and (np.any(a[..., strict] < 0) or np.any(a[..., strict] > 1)) and len(obs["pt_outside"]) < 3:
            obs["pt_outside"].append(a.tolist())
        return cfg["prior_transform"](uu)

    def hooks(runner):
        obs["runner"] = runner
        obs["cls"] = "tpcn" if classes[0] in type(runner).__mro__ else "rwm" if classes[1] in type(runner).__mro__ else "?"
        obs["sigma_init"] = np.array(runner.sigmas, dtype=float).copy()
        orig_prop, orig_fac, orig_calc = runner._propose, runner._compute_acceptance_factor, runner._calculate_adaptive_steps

        def cur():
            it = runner.iteration
            while len(obs["passes"]) < it:
                obs["passes"].append(dict(sig_snap=[], cand={}, u_before=np.array(runner.u, dtype=float).copy(),
                                          logl_before=np.array(runner.logl, dtype=float).copy()))
            return obs["passes"][it - 1]

        def propose(k):
            p = cur()
            tape.begin(runner.iteration, k)
            p["sig_snap"].append(np.array(runner.sigmas, dtype=float).copy())
            c_ = orig_prop(k)
            p["cand"][k] = np.array(c_, dtype=float).copy()
            return c_

        def factor(u_prime, logl_prime):
            p = cur()
            p["sig_snap"].append(np.array(runner.sigmas, dtype=float).copy())
            f = orig_fac(u_prime, logl_prime)
            p["u_prime"] = np.array(u_prime, dtype=float).copy()
            p["logl_prime"] = np.array(logl_prime, dtype=float).copy()
            p["factor"] = np.array(f, dtype=float).copy()
            return f

        def progress(alpha):
            p = cur()
            p["alpha"] = np.array(alpha, dtype=float).copy()
            p["u_after"] = np.array(runner.u, dtype=float).copy()
            p["x_after"] = np.array(runner.x, dtype=float).copy()
            p["logl_after"] = np.array(runner.logl, dtype=float).copy()
            p["sig_after"] = np.array(runner.sigmas, dtype=float).copy()
            p["n_calls"] = int(runner.n_calls)

        def calc(acc):
            v = orig_calc(acc)
            p = cur()
            p["cur_acc"], p["steps"] = float(acc), v
            return v

        runner._propose = propose
        runner._compute_acceptance_factor = factor
        runner._update_progress_bar = progress
        runner._calculate_adaptive_steps = calc

    out = err = None
    with warnings.catch_warnings():
        warnings.simplefilter("ignore")
        with common.patched(np.random, "gamma", tape.gamma), common.patched(np.random, "randn", tape.randn), \
                common.patched(np.random, "rand", tape.rand), \
                common.patched(M, "TPCNRunner", _instrumented(classes[0], hooks)), \
                common.patched(M, "RWMRunner", _instrumented(classes[1], hooks)):
            try:
                out = M.parallel_mcmc(u, x, logl, None, cfg["assign"], cfg["beta"], ms, ll, pt, None,
                                      cfg["n_steps"], cfg["n_max"], cfg["sample"], cfg["per"], cfg["refl"], False)
            except IndexError:
                err = "IndexError"
    return obs, out, err


def _blocks(rows3):
    return "|".join(_rows(b) for b in rows3)


def _c03run_line(cfg, obs, dummy=False):
    ms, tape = obs["ms"], obs["tape"]
    n, d = cfg["n"], cfg["d"]
    per = [] if cfg["per"] is None else [int(i) for i in cfg["per"]]
    refl = [] if cfg["refl"] is None else [int(i) for i in cfg["refl"]]
    gs, rs, lps, zs, xps = [], [], [], [], []
    if dummy:
        gs, rs, lps = [[1.0] * n], [[0.5] * n], [[0.0] * n]
        zs, xps = [np.zeros((n, d))], [np.zeros((n, d))]
    else:
        for tp, p in zip(tape.passes, obs["passes"]):
            gs.append([tp["g"].get(k, (0.0, 0.0, 1.0))[2] for k in range(n)])
            rs.append(tp["r"])
            lps.append(p["logl_prime"])
            zs.append([tp["z"][k] for k in range(n)])
            xps.append(np.array([cfg["prior_transform"](t) for t in p["u_prime"]]))
    return (f"c03run.F sample={cfg['sample'] or '<empty>'} d={d} mus={_rows(ms.means)} "
            f"chols={'|'.join(_rows(m) for m in ms.chol_covariances)} invcovs={'|'.join(_rows(m) for m in ms.inv_covariances)} "
            f"nus={flist(ms.degrees_of_freedom, f2hex)} beta={f2hex(cfg['beta'])} per={flist(per, str)} refl={flist(refl, str)} "
            f"nsteps={cfg['n_steps']} nmax={cfg['n_max']} us={_rows(cfg['u'])} xs={_rows(obs['x0'])} "
            f"assign={flist([int(a) for a in cfg['assign']], str)} ls={flist(obs['logl0'], f2hex)} "
            f"gs={_rows(gs)} rs={_rows(rs)} lps={_rows(lps)} zs={_blocks(zs)} xps={_blocks(xps)}")


def _prows(tok):
    return [] if tok == "-" else [common.parse_list(r, hex2f) for r in tok.split(";")]


def _idx_repr(ix):
    return "None" if ix is None else f"{type(ix).__name__}{'[' + str(ix.dtype) + ']' if isinstance(ix, np.ndarray) else ''}{list(map(int, ix))}"


def _run_invariants(cfg, obs, out):
    """EXACT oracles of the property's run-level obligations on the real code (no model involved); -> list of violations"""
    from tempest.mcmc import check_bounds
    bad = []
    r, fz, passes = obs["runner"], obs["frozen"], obs["passes"]
    kind = obs["cls"]
    if (cfg["sample"] == "rwm") != (kind == "rwm"):
        bad.append(f"dispatch: sample={cfg['sample']!r} constructed the {kind} runner")
    # H_assign and the other inputs of the step are not written by the run
    if not np.array_equal(r.assignments, fz["assign"]) or not np.array_equal(np.asarray(cfg["assign"]), fz["assign"]):
        bad.append(f"assignments changed during run: {fz['assign'].tolist()} -> {np.asarray(r.assignments).tolist()}")
    ms = obs["ms"]
    for nm, a, b in (("means", ms.means, fz["means"]), ("chol_covariances", ms.chol_covariances, fz["chol"]),
                     ("inv_covariances", ms.inv_covariances, fz["inv"]), ("degrees_of_freedom", ms.degrees_of_freedom, fz["dof"])):
        if not np.array_equal(a, b):
            bad.append(f"mode statistics `{nm}` changed during run")
    if r.beta != cfg["beta"] or r.periodic is not cfg["per"] or r.reflective is not cfg["refl"] or r.mode_stats is not ms:
        bad.append("beta / periodic / reflective / mode_stats attribute changed during run")
    # the call does not modify its inputs (the runner works on clones) and does not hand the caller's arrays back
    for nm, (arr, saved) in obs.get("inputs", {}).items():
        if not np.array_equal(np.asarray(arr), saved, equal_nan=(nm != "assignments")):
            bad.append(f"parallel_mcmc modified its input array `{nm}` in place (a second call on the same arrays would start from "
                       f"inconsistent (u, x, logl)): {saved.tolist()[:4]}... -> {np.asarray(arr).tolist()[:4]}...")
    if out is not None:
        for nm, j in (("u", 0), ("x", 1), ("logl", 2)):
            if isinstance(out[j], np.ndarray) and isinstance(obs["inputs"][nm][0], np.ndarray) \
                    and np.shares_memory(out[j], obs["inputs"][nm][0]):
                bad.append(f"the returned `{nm}` shares memory with the input array")
        # the returned log-likelihoods belong to the returned positions
        with warnings.catch_warnings():
            warnings.simplefilter("ignore")
            want = np.asarray(cfg["log_likelihood"](np.asarray(out[1]))[0], dtype=float)
        got = np.asarray(out[2], dtype=float)
        if got.shape != want.shape or not all(_close(float(a), float(b), abs(float(b)) if math.isfinite(float(b)) else 0.0)
                                              for a, b in zip(got, want)):
            bad.append(f"returned logl {got.tolist()[:4]}... is not the log-likelihood of the returned x {want.tolist()[:4]}...")
    if obs.get("pt_outside"):
        bad.append(f"prior_transform was called at a point outside the unit cube in a hard-boundary coordinate "
                   f"(hard coordinates {obs['strict']}, periodic={_idx_repr(cfg['per'])}, reflective={_idx_repr(cfg['refl'])}): "
                   f"{obs['pt_outside'][0]}")
    n, d = cfg["n"], cfg["d"]
    s0 = 2.38 / np.sqrt(d)
    cap = min(s0, 0.99)
    prev_sig = obs["sigma_init"]
    for t, p in enumerate(passes, start=1):
        snaps = p["sig_snap"]
        if len(snaps) != n + 1 or "alpha" not in p:
            bad.append(f"pass {t}: {len(snaps)} observation points instead of {n + 1} (n proposals + factor)")
            break
        # one sigma vector per pass, and it is what the previous pass left
        if any(not np.array_equal(sn, snaps[0]) for sn in snaps):
            bad.append(f"pass {t}: step sizes changed WITHIN the step: {[sn.tolist() for sn in snaps[:3]]}...")
        if not np.array_equal(snaps[0], prev_sig):
            bad.append(f"pass {t}: step sizes used {snaps[0].tolist()} are not the ones the previous pass left {prev_sig.tolist()}")
        # hard-boundary rule
        for k in range(n):
            inb = bool(check_bounds(p["cand"][k], cfg["per"], cfg["refl"]))
            if not inb:
                if not np.array_equal(p["u_prime"][k], p["u_before"][k]):
                    bad.append(f"pass {t} walker {k}: out-of-cube candidate was passed on to prior_transform / log_likelihood")
                if p["alpha"][k] != 0.0 or not np.array_equal(p["u_after"][k], p["u_before"][k]):
                    bad.append(f"pass {t} walker {k}: out-of-cube candidate not rejected (alpha={p['alpha'][k]})")
            elif not np.array_equal(p["u_prime"][k], p["cand"][k]):
                bad.append(f"pass {t} walker {k}: in-cube candidate altered before evaluation")
        # the randomness consumed by the pass (H_tapes of the invariance theorems: every pass is a FRESH draw of all tapes, with
        # the gamma law the walker's CURRENT position prescribes): tpCN exactly one gamma per walker with shape (d + nu)/2 and
        # scale 2/(nu + dot(u_before)); RWM none; one normal vector per walker; one uniform vector
        tp = obs["tape"].passes[t - 1] if t - 1 < len(obs["tape"].passes) else dict(g={}, z={}, r=None)
        want_g = set(range(n)) if kind == "tpcn" else set()
        if set(tp["g"]) != want_g:
            miss = sorted(want_g - set(tp["g"]))[:5]
            bad.append(f"pass {t}: gamma draws for walkers {sorted(tp['g'])[:8]}... instead of one per walker "
                       f"({'none' if kind != 'tpcn' else 'all ' + str(n)}); walkers without a fresh mixing draw: {miss} "
                       f"(a scale variable carried over from an earlier pass is not the tpCN kernel)")
        elif kind == "tpcn":
            for k in range(n):
                c_ = int(fz["assign"][k])
                dv = p["u_before"][k] - fz["means"][c_]
                dot = float(dv @ fz["inv"][c_] @ dv)
                nu_ = float(fz["dof"][c_])
                sh, sc, _g = tp["g"][k]
                if not (_close(sh, (d + nu_) / 2.0, abs(sh)) and _close(sc, 2.0 / (nu_ + dot), abs(sc))):
                    bad.append(f"pass {t} walker {k}: gamma(shape={sh}, scale={sc}) requested, the walker's current position "
                               f"prescribes shape={(d + nu_) / 2.0}, scale={2.0 / (nu_ + dot)}")
                    break
        if set(tp["z"]) != set(range(n)) or tp["r"] is None or len(tp["r"]) != n:
            bad.append(f"pass {t}: normal vectors for {len(tp['z'])} of {n} walkers / uniform vector "
                       f"{'missing' if tp['r'] is None else len(tp['r'])}: not one fresh draw per walker and pass")
        # the states stay in the cube
        if obs["strict"] and not (np.all(p["u_after"][:, obs["strict"]] >= 0) and np.all(p["u_after"][:, obs["strict"]] <= 1)):
            bad.append(f"pass {t}: a state left the unit cube in a hard-boundary coordinate (hard coordinates {obs['strict']}, "
                       f"periodic={_idx_repr(cfg['per'])}, reflective={_idx_repr(cfg['refl'])})")
        # range (tpCN) and diminishing adaptation (both)
        if kind == "tpcn" and not (np.all(p["sig_after"] >= 0) and np.all(p["sig_after"] <= cap)):
            bad.append(f"pass {t}: tpCN step size outside [0, min(sigma_0, 0.99)]: {p['sig_after'].tolist()}")
        if np.any(np.abs(p["sig_after"] - snaps[0]) > 0.766 / (t + 1) + 1e-12):
            bad.append(f"pass {t}: adaptation moved a step size by more than 0.766/{t + 1}: {snaps[0].tolist()} -> {p['sig_after'].tolist()}")
        for c_ in range(cfg["K"]):
            if not np.any(fz["assign"] == c_) and p["sig_after"][c_] != snaps[0][c_]:
                bad.append(f"pass {t}: step size of the empty cluster {c_} changed")
        if p["n_calls"] != t * n:
            bad.append(f"pass {t}: n_calls = {p['n_calls']} after {t} passes of {n} walkers")
        prev_sig = p["sig_after"]
    if out is not None and passes and "alpha" in passes[-1]:
        T = len(passes)
        last = passes[-1]
        if out[6] != T or r.iteration != T:
            bad.append(f"iteration = {out[6]} after {T} passes")
        if out[7] != obs["ll_rows"] or out[7] != T * n:
            bad.append(f"n_calls = {out[7]}, likelihood rows evaluated = {obs['ll_rows']}, passes x walkers = {T * n}")
        lo, hi = max(1, min(cfg["n_steps"], cfg["n_max"]) * d), max(1, cfg["n_max"] * d)
        if not (lo <= T <= hi):
            bad.append(f"{T} passes, outside [{lo}, {hi}] = [max(1, min(n_steps, n_max) d), max(1, n_max d)]")
        eff = last["sig_after"].mean() / s0
        if not _close(float(out[4]), float(eff), 1.0) or not np.array_equal(r.sigmas, last["sig_after"]):
            bad.append(f"efficiency {out[4]} is not mean(final sigmas)/sigma_0 = {eff}")
        if not _close(float(out[5]), float(last["alpha"].mean()), 1.0):
            bad.append(f"acceptance {out[5]} is not the mean alpha of the last step {last['alpha'].mean()}")
        if not (np.array_equal(out[0], last["u_after"]) and np.array_equal(out[2], last["logl_after"], equal_nan=True)):
            bad.append("returned u / logl are not the states after the last step")
    return bad


def _compare_run(c, cfg, obs, out, line, ans, kind):
    from tempest.mcmc import check_bounds
    toks = ans.split(" ")
    n, d, passes, tape = cfg["n"], cfg["d"], obs["passes"], obs["tape"]
    if len(toks) < 12 or toks[0] not in ("done", "outOfTape", "indexError") or len(toks) != 12 + int(toks[11]):
        c.disagree(input=line[:500], impl="run", model=ans[:300], kind=kind, what=["format"])
        return
    T = len(passes)
    P = int(toks[11])
    bad = []
    tie = False
    for t in range(min(T, P)):
        f = toks[12 + t].split("/")
        p, tp = passes[t], tape.passes[t]
        if len(f) != 11:
            bad.append(f"pass{t + 1}:format")
            break
        m_used, m_alpha = common.parse_list(f[0], hex2f), common.parse_list(f[1], hex2f)
        m_acc, m_inb = [x == "1" for x in f[2].split(",")], [x == "1" for x in f[3].split(",")]
        m_u = _prows(f[4])
        m_cur, m_steps, m_stop = hex2f(f[5]), hex2f(f[7]), f[8] == "1"
        m_new, m_bounded = common.parse_list(f[9], hex2f), hex2f(f[10])
        if len(m_used) != cfg["K"] or not all(_close(a, b, abs(b)) for a, b in zip(p["sig_snap"][0], m_used)):
            bad.append(f"pass{t + 1}:sigma_used")
            break
        for k in range(n):
            inb = bool(check_bounds(p["cand"][k], cfg["per"], cfg["refl"]))
            if inb != m_inb[k]:
                cand = p["cand"][k]
                if min([min(abs(cand[i]), abs(1.0 - cand[i])) for i in obs["strict"]] or [math.inf]) < 1e-9:
                    tie = True
                else:
                    bad.append(f"pass{t + 1}:in_bounds[{k}]")
                break
            c.count("in_bounds" if inb else "out_of_bounds_rejected")
            lp_, l_ = float(p["logl_prime"][k]), float(p["logl_before"][k])
            sc = abs(float(p["factor"][k])) + (abs(cfg["beta"] * (lp_ - l_)) if math.isfinite(lp_ - l_) else 0.0)
            if not _close(float(p["alpha"][k]), m_alpha[k], sc):
                bad.append(f"pass{t + 1}:alpha[{k}]")
                break
            r_ = tp["r"][k]
            if inb and (abs(r_ - p["alpha"][k]) < 1e-9 or abs(r_ - m_alpha[k]) < 1e-9):
                tie = True
                break
            if bool(r_ < p["alpha"][k]) != m_acc[k]:
                bad.append(f"pass{t + 1}:accept[{k}]")
                break
            c.count("accepted" if m_acc[k] else "rejected")
            if len(m_u) != n or not all(_close(a, b, abs(b)) for a, b in zip(p["u_after"][k], m_u[k])):
                bad.append(f"pass{t + 1}:new_state[{k}]")
                break
        if bad or tie:
            break
        if not all(_close(a, b, abs(b)) for a, b in zip(p["sig_after"], m_new)) or len(m_new) != cfg["K"]:
            bad.append(f"pass{t + 1}:adapted_sigmas")
            break
        for cl in range(cfg["K"]):
            if not np.any(cfg["assign"] == cl) and m_new[cl] != m_used[cl]:
                bad.append(f"pass{t + 1}:empty_cluster_sigma")
        if "steps" in p:
            if not _close(p["cur_acc"], m_cur, 1.0):
                bad.append(f"pass{t + 1}:current_acceptance")
                break
            if float(p["steps"]) != m_steps:
                if abs(m_bounded - round(m_bounded)) <= 1e-9 * (1.0 + abs(m_bounded)) and abs(float(p["steps"]) - m_steps) <= 1:
                    tie = True
                else:
                    bad.append(f"pass{t + 1}:adaptive_steps")
                break
            c.count("stop:max_bound" if m_bounded >= cfg["n_max"] * d else
                    "stop:min_bound" if m_bounded <= cfg["n_steps"] * d else "stop:adaptive_value")
        if m_stop != (t == T - 1):
            bad.append(f"pass{t + 1}:stop_decision")
            break
    if tie:
        c.near_ties += 1
        c.count("near_tie:rest_of_run_not_compared")
        return
    if not bad:
        if toks[0] != "done" or P != T or int(toks[1]) != out[6] or int(toks[2]) != out[7]:
            bad.append("status/iteration/n_calls")
        else:
            fs = float(np.abs(out[0]).max()) if n else 0.0
            if not _close(float(out[4]), hex2f(toks[3]), 1.0):
                bad.append("efficiency")
            if not _close(float(out[5]), hex2f(toks[4]), 1.0):
                bad.append("acceptance")
            if not all(_close(a, b, abs(b)) for a, b in zip(obs["runner"].sigmas, common.parse_list(toks[5], hex2f))):
                bad.append("final_sigmas")
            mu_, mx_ = _prows(toks[6]), _prows(toks[7])
            if len(mu_) != n or not all(_close(a, b, abs(b)) for ra, rb in zip(out[0], mu_) for a, b in zip(ra, rb)):
                bad.append("final_u")
            if len(mx_) != n or not all(_close(a, b, abs(b)) for ra, rb in zip(out[1], mx_) for a, b in zip(ra, rb)):
                bad.append("final_x")
            if not all(_close(float(a), b, abs(b)) for a, b in zip(out[2], common.parse_list(toks[8], hex2f))):
                bad.append("final_logl")
            if [int(a) for a in obs["runner"].assignments] != common.parse_list(toks[9], int) \
                    or [int(a) for a in cfg["assign"]] != common.parse_list(toks[9], int):
                bad.append("final_assignments")
            if not _close(float(obs["runner"].sigma_0), hex2f(toks[10]), 3.0):
                bad.append("sigma_0")
    if bad:
        last = passes[-1] if passes else {}
        c.disagree(input=line[:700], impl={"passes": T, "iteration": out[6], "n_calls": out[7], "efficiency": float(out[4]),
                                           "acceptance": float(out[5]), "sigmas": np.asarray(obs["runner"].sigmas).tolist(),
                                           "adaptive_steps": [p.get("steps") for p in passes]},
                   model=" ".join(toks[:6] + toks[11:12]) + " | " + " ".join(toks[12:])[:400], what=bad, kind=kind)


def _run_suites(tier, drv):
    n_runners = 300 if tier == "quick" else 3000
    out = []
    for kind in ("tpcn", "rwm"):
        rng = common.rng_for("C03.run." + kind)
        c = Corr(f"kernel-run-{kind}", "toleranced Float (T): values 1e-9(1+scale), decisions and int() exact unless margin < 1e-9")
        lines, metas = [], []
        for idx in range(n_runners):
            cfg = _gen_run_cfg(rng, kind)
            try:
                obs, res, err = _real_run(cfg, rng)
            except Exception as e:
                c.disagree(input={k: (v.tolist() if isinstance(v, np.ndarray) else v) for k, v in cfg.items() if not callable(v)},
                           impl=f"raised {type(e).__name__}: {e}", model="a run", kind=kind)
                continue
            if cfg["bad_index"]:
                lines.append(_c03run_line(cfg, obs, dummy=True))
                metas.append(("error", cfg, obs, res, err))
                c.case(lines[-1], True)
                c.count("malformed:assignment_out_of_range")
                continue
            if err is not None or res is None or not obs["passes"] or "alpha" not in obs["passes"][-1]:
                c.disagree(input="harness", impl=f"error={err}, passes={len(obs['passes'])}", model="a complete run", kind=kind)
                continue
            lines.append(_c03run_line(cfg, obs))
            metas.append(("run", cfg, obs, res, err))
            T = len(obs["passes"])
            for t in range(T):
                c.case([lines[-1], t], cfg["K"] >= 2 or cfg["d"] >= 2 or T >= 2)
            c.count(f"d={cfg['d']}")
            c.count(f"K={cfg['K']}")
            c.count(f"passes={T}")
            c.count(f"n_steps={cfg['n_steps']},n_max={cfg['n_max']}")
            c.count(f"sample={cfg['sample']!r}")
            if cfg["n_max"] < cfg["n_steps"]:
                c.count("n_max<n_steps")
            used = {int(a) for a in cfg["assign"]}
            if len(used) < cfg["K"]:
                c.count("empty_cluster")
                if 0 not in used:
                    c.count("first_cluster_empty(weighted_sigma_pairs_wrong_cluster)")
            if cfg["per"] is not None or cfg["refl"] is not None:
                c.count("folded_coordinates")
                c.count(f"index_options:periodic={_idx_repr(cfg['per']).split('[')[0]},reflective={_idx_repr(cfg['refl']).split('[')[0]}")
                if cfg["per"] is not None and cfg["refl"] is not None:
                    c.count(f"both_index_options_d={cfg['d']}")
            for v in _run_invariants(cfg, obs, res):
                c.disagree(input=lines[-1][:500], impl="run-level invariant violated on the real code: " + v,
                           model="Props/C03Run.lean", kind=kind, what=["invariant"], oracle_index=idx)
        answers = drv.batch(lines)
        for (tag, cfg, obs, res, err), line, ans in zip(metas, lines, answers):
            if tag == "error":
                if not (ans.split(" ")[0] == "indexError" and err == "IndexError"):
                    c.disagree(input=line[:500], impl=err or "no error", model=ans[:100], kind=kind, what=["index_error"])
                continue
            _compare_run(c, cfg, obs, res, line, ans, kind)
            c.sample({"op": line[:300], "impl": {"passes": len(obs["passes"]), "iteration": res[6], "n_calls": res[7],
                                                 "efficiency": float(res[4])}, "model": ans[:200]})
        out.append(c)
    out.append(_dispatch_suite(tier))
    return out


# ------------------------------------------------------------------ dispatch and wiring
_P15 = ["u", "x", "logl", "blobs", "assignments", "beta", "mode_stats", "log_likelihood", "prior_transform", "progress_bar",
        "n_steps", "n_max", "periodic", "reflective", "verbose"]


class _Sentinel:
    def __init__(self, name):
        self.name = name

    def __repr__(self):
        return f"<{self.name}>"


def _dispatch_suite(tier):
    import inspect
    import tempest.mcmc as M
    c = Corr("mcmc-dispatch", "exact (object identity of sentinels; array equality and non-aliasing)")
    rng = common.rng_for("C03.dispatch")
    real = {"tpcn": M.TPCNRunner, "rwm": M.RWMRunner}
    base_sig = inspect.signature(M.BaseMCMCRunner.__init__)
    calls = []

    def standin(tag):
        class Rec:
            def __init__(self, *a, **k):
                calls.append((tag, a, k))
                self.tag = tag

            def run(self):
                return ("ran", self.tag, len(calls))
        return Rec

    entry = {"parallel_mcmc": M.parallel_mcmc, "tpcn_wrapper": M.parallel_t_preconditioned_crank_nicolson,
             "rwm_wrapper": M.parallel_random_walk_metropolis}
    samples = ["tpcn", "rwm", "other", "", "RWM", "rwm ", None]
    reps = 6 if tier == "quick" else 40
    for rep in range(reps):
        for fname, fn in entry.items():
            for sample in (samples if fname == "parallel_mcmc" else [None]):
                for style in ("positional", "keyword", "defaults", "mixed"):
                    sent = {p: _Sentinel(f"{p}#{rng.randrange(10 ** 6)}") for p in _P15}
                    given = list(_P15) if style != "defaults" else _P15[:9]
                    if style == "positional":
                        a = [sent[p] for p in given]
                        if fname == "parallel_mcmc":       # sample sits between n_max and periodic
                            a = a[:12] + [sample if sample is not None else "tpcn"] + a[12:]
                        kw = {}
                    else:
                        cut = 0 if style == "keyword" else (9 if style == "defaults" else rng.randint(1, 9))
                        a = [sent[p] for p in given[:cut]]
                        names = given[cut:]
                        rng.shuffle(names)
                        kw = {p: sent[p] for p in names}
                        if fname == "parallel_mcmc" and sample is not None:
                            kw["sample"] = sample
                    del calls[:]
                    with common.patched(M, "TPCNRunner", standin("tpcn")), common.patched(M, "RWMRunner", standin("rwm")):
                        ret = fn(*a, **kw)
                    eff_sample = (sample if sample is not None else "tpcn") if fname == "parallel_mcmc" else None
                    want = {"parallel_mcmc": "rwm" if eff_sample == "rwm" else "tpcn", "tpcn_wrapper": "tpcn",
                            "rwm_wrapper": "rwm"}[fname]
                    key = [fname, sample, style]
                    c.case(key + [rep], True)
                    c.count(f"{fname}:sample={sample!r}:{style}")
                    bad = []
                    if len(calls) != 1 or calls[0][0] != want:
                        bad.append(f"constructed {[t for t, _, _ in calls]}, expected [{want}]")
                    elif ret != ("ran", want, 1):
                        bad.append(f"return value {ret!r} is not runner.run()")
                    else:
                        try:
                            b = base_sig.bind(None, *calls[0][1], **calls[0][2])
                        except TypeError as e:
                            bad.append(f"constructor arguments do not bind: {e}")
                        else:
                            b.apply_defaults()
                            wrapper_sig = inspect.signature(fn)
                            for p in _P15:
                                got = b.arguments[p]
                                exp = sent[p] if p in given else wrapper_sig.parameters[p].default
                                if got is not exp and got != exp:
                                    bad.append(f"constructor parameter {p} received {got!r}, expected {exp!r}")
                    if bad:
                        c.disagree(input={"function": fname, "sample": sample, "style": style}, impl=bad[:4],
                                   model="Gen.Kernel.dispatchRule / bindTable (C03_run_dispatch_tables)", kind=want)
    # the REAL constructors: every attribute receives its argument (run patched to hand back the object)
    from tempest.modes import ModeStatistics
    for rep in range(reps):
        for sample in ("tpcn", "rwm", "other"):
            d, K, n = rng.randint(1, 3), rng.randint(1, 3), rng.randint(2, 5)
            u = np.array([[rng.uniform(0.1, 0.9) for _ in range(d)] for _ in range(n)])
            x = u * 2.0 - 1.0
            logl = np.array([rng.gauss(0, 1) for _ in range(n)])
            blobs = np.array([[rng.random()] for _ in range(n)]) if rng.random() < 0.5 else None
            assign = np.array([rng.randrange(K) for _ in range(n)], dtype=int)
            ms = ModeStatistics(np.full((K, d), 0.5), np.array([np.eye(d) * 0.05] * K), np.full(K, 3.0))
            beta = rng.uniform(0.05, 1.0)
            per = np.array([0]) if rng.random() < 0.4 else None
            refl = np.array([d - 1]) if (d > 1 and rng.random() < 0.4) else None
            n_steps, n_max = rng.randint(1, 50), rng.randint(1, 500)
            ll, pt, pb = (lambda z: (np.zeros(len(z)), None)), (lambda t: t), _Sentinel("pbar")
            verbose = rng.random() < 0.5
            with common.patched(M.BaseMCMCRunner, "run", lambda self: self):
                r = M.parallel_mcmc(u, x, logl, blobs, assign, beta, ms, ll, pt, pb, n_steps, n_max, sample, per, refl, verbose)
            c.case(["real-ctor", sample, rep], True)
            c.count(f"real_constructor:sample={sample!r}")
            bad = []
            if type(r) is not real["rwm" if sample == "rwm" else "tpcn"]:
                bad.append(f"class {type(r).__name__}")
            else:
                chk = [("beta", r.beta == beta), ("mode_stats", r.mode_stats is ms), ("log_likelihood", r.log_likelihood is ll),
                       ("prior_transform", r.prior_transform is pt), ("progress_bar", r.progress_bar is pb),
                       ("n_steps", r.n_steps == n_steps), ("n_max", r.n_max == n_max), ("periodic", r.periodic is per),
                       ("reflective", r.reflective is refl), ("verbose", r.verbose is verbose),
                       ("u", np.array_equal(r.u, u) and r.u is not u and not np.shares_memory(r.u, u)),
                       ("x", np.array_equal(r.x, x) and not np.shares_memory(r.x, x)),
                       ("logl", np.array_equal(r.logl, logl) and not np.shares_memory(r.logl, logl)),
                       ("assignments", np.array_equal(r.assignments, assign) and not np.shares_memory(r.assignments, assign)),
                       ("blobs", (r.blobs is None) if blobs is None else (np.array_equal(r.blobs, blobs) and not np.shares_memory(r.blobs, blobs))),
                       ("n_walkers,n_dim", (r.n_walkers, r.n_dim) == (n, d)), ("n_clusters", r.n_clusters == K),
                       ("n_calls", r.n_calls == 0), ("iteration", r.iteration == 0),
                       ("sigma_0", r.sigma_0 == 2.38 / np.sqrt(d)),
                       ("sigmas", np.array_equal(r.sigmas, np.ones(K) * (r.sigma_0 if sample == "rwm" else min(r.sigma_0, 0.99)))),
                       ("chol_covs", r.chol_covs is ms.chol_covariances)]
                if sample != "rwm":
                    chk += [("means", r.means is ms.means), ("inv_covs", r.inv_covs is ms.inv_covariances),
                            ("degrees_of_freedom", r.degrees_of_freedom is ms.degrees_of_freedom)]
                bad = [nm for nm, ok in chk if not ok]
            if bad:
                c.disagree(input={"sample": sample, "d": d, "K": K, "n": n}, impl={"wrong attributes": bad},
                           model="Model.KernelRun.construct (C03_run_construct, initStores)", kind="rwm" if sample == "rwm" else "tpcn")
    _mutator_wiring(c, rng, reps)
    c.sample({"checked": "parallel_mcmc / wrappers with sentinel arguments; real constructors; Mutator.run -> parallel_mcmc"})
    return c


def _mutator_wiring(c, rng, reps):
    """Mutator.run (beta > 0 branch): what it reads from the state is what parallel_mcmc receives, under the right keyword; what
    parallel_mcmc returns is written back"""
    import tempest.steps.mutate as MU

    class State:
        def __init__(self, cur):
            self.cur = cur

        def get_current(self, k):
            return self.cur.get(k)

        def set_current(self, k, v):
            self.cur[k] = v

        def update_current(self, dct):
            self.cur.update(dct)

    class Modes:
        def __init__(self, idx, labels):
            self.idx, self.labels, self.seen = idx, labels, None

        def mode_index(self, assignments, u):
            self.seen = (assignments, u)
            return self.idx, self.labels

    for rep in range(reps):
        for sampler in ("tpcn", "rwm"):
            for have_blobs in (False, True):
                s = {k: _Sentinel(f"state.{k}#{rng.randrange(10 ** 6)}") for k in ("u", "x", "logl", "assignments")}
                s["beta"] = rng.uniform(0.01, 1.0)
                s["calls"] = rng.randint(0, 10 ** 6)
                s["blobs"] = np.array([[1.0], [2.0]]) if have_blobs else None
                state = State(dict(s))
                idx, labels = _Sentinel("mode_index"), _Sentinel("mode_labels")
                modes = Modes(idx, labels)
                pt, ll, pbar = _Sentinel("prior_transform"), _Sentinel("log_likelihood"), _Sentinel("pbar")
                per, refl = _Sentinel("periodic"), _Sentinel("reflective")
                n_steps, n_max = rng.randint(1, 100), rng.randint(1, 5000)
                ret = dict(u=_Sentinel("ret.u"), x=_Sentinel("ret.x"), logl=_Sentinel("ret.logl"), blobs=np.array([[7.0], [8.0]]),
                           efficiency=rng.random(), acceptance=rng.random(), steps=rng.randint(1, 99), calls=rng.randint(1, 9999))
                got = {}

                def fake(*a, **kw):
                    got["a"], got["kw"] = a, kw
                    return (ret["u"], ret["x"], ret["logl"], ret["blobs"], ret["efficiency"], ret["acceptance"], ret["steps"], ret["calls"])

                mut = MU.Mutator(state, pt, ll, pbar, 2, 1, n_steps, n_max, sampler, per, refl, have_blobs)
                with common.patched(MU, "parallel_mcmc", fake):
                    mut.run(modes)
                c.case(["mutator", sampler, have_blobs, rep], True)
                c.count(f"mutator_wiring:sampler={sampler},blobs={have_blobs}")
                import inspect
                import tempest.mcmc as M
                bad = []
                try:
                    b = inspect.signature(M.parallel_mcmc).bind(*got.get("a", ()), **got.get("kw", {}))
                except TypeError as e:
                    bad.append(f"arguments do not bind: {e}")
                else:
                    b.apply_defaults()
                    exp = dict(u=s["u"], x=s["x"], logl=s["logl"], blobs=s["blobs"], assignments=idx, beta=s["beta"], mode_stats=modes,
                               log_likelihood=ll, prior_transform=pt, progress_bar=pbar, n_steps=n_steps, n_max=n_max, sample=sampler,
                               periodic=per, reflective=refl)
                    for k, v in exp.items():
                        g = b.arguments[k]
                        if g is not v and not (isinstance(v, (int, float)) and g == v):
                            bad.append(f"parallel_mcmc parameter {k} received {g!r}, expected {v!r}")
                    if modes.seen is None or modes.seen[0] is not s["assignments"] or modes.seen[1] is not s["u"]:
                        bad.append("mode_index not computed from the state's assignments and u")
                    cur = state.cur
                    wb = [("u", cur["u"] is ret["u"]), ("x", cur["x"] is ret["x"]), ("logl", cur["logl"] is ret["logl"]),
                          ("efficiency", cur.get("efficiency") == ret["efficiency"]), ("acceptance", cur.get("acceptance") == ret["acceptance"]),
                          ("steps", cur.get("steps") == ret["steps"]), ("calls", cur.get("calls") == s["calls"] + ret["calls"]),
                          ("assignments", cur["assignments"] is labels)]
                    if have_blobs:
                        wb.append(("blobs", np.array_equal(cur["blobs"], ret["blobs"])))
                    bad += [f"state[{nm}] not written back" for nm, ok in wb if not ok]
                if bad:
                    c.disagree(input={"sampler": sampler, "have_blobs": have_blobs}, impl=bad[:4],
                               model="Mutator.run passes its state and options to parallel_mcmc under the same names", kind=sampler)


# ------------------------------------------------------------------ exact run-level oracles for `search` / replay
def _run_oracle_case(kind, seed, index):
    import random as _r
    rng = _r.Random(f"C03.runoracle.{kind}.{seed}.{index}")
    cfg = _gen_run_cfg(rng, kind)
    while cfg["bad_index"]:
        cfg = _gen_run_cfg(rng, kind)
    obs, res, err = _real_run(cfg, rng)
    if err is not None or res is None:
        return cfg, [f"the run raised {err}"]
    return cfg, _run_invariants(cfg, obs, res)


def _run_oracles(tier):
    found = []
    base = common.seed()
    for kind in ("tpcn", "rwm"):
        for index in range(40 if tier == "quick" else 300):
            try:
                cfg, bad = _run_oracle_case(kind, base, index)
            except Exception as e:       # a crash of the real run on a valid input
                cfg, bad = {}, [f"the instrumented run crashed: {type(e).__name__}: {e}"]
            if bad:
                found.append({"what": "run-level obligation of the mutation kernels violated on the real runner "
                                      "(parallel_mcmc under tapes, everything enabled): " + bad[0],
                              "oracle": "c03run", "kind": kind, "seed": base, "index": index, "all": bad[:5],
                              "d": cfg.get("d"), "K": cfg.get("K"), "n_steps": cfg.get("n_steps"), "n_max": cfg.get("n_max"),
                              "sample": cfg.get("sample")})
                break
    return found


def _run_oracle_replay(f):
    cfg, bad = _run_oracle_case(f["kind"], f["seed"], f["index"])
    return {"fails": bool(bad), "detail": "; ".join(bad[:3]) or "all run-level oracles hold"}
