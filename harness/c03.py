"""C03 — mutation kernels satisfy detailed balance (tpCN and RWM; interior, periodic, reflective, hard)."""
import math
import warnings

import numpy as np

from . import common
from .common import Corr, f2hex, hex2f, flist

ID = "C03"
LEAN_MODULES = ["TempestVerif.Props.C03", "TempestVerif.Lemmas.KernelGeom"]
RULE = ("suites kernel-step-{tpcn,rwm}: real TPCNRunner/RWMRunner objects on generated inputs: d in 1..5, K in 1..4 modes (means in the "
        "cube, random SPD covariances of scale 0.02..0.3, dof in {0.3,1,2,2.5,5,30,1e6}), 3..7 walkers (8%: a coordinate exactly on a "
        "cube face), random assignments (about 2/3 of the walkers in runners with >= 2 non-empty modes of distinct dof; empty modes "
        "occur), per-cluster sigma in (0.05,0.99) or, 12%, an edge value adaptation can reach (tpCN 0 / 0.99; RWM 1.7, 2.38, -0.2), "
        "beta in (0,1], affine prior transform, random linear+quadratic log-likelihood (5%: a -inf hole -> NaN acceptance path), "
        "periodic/reflective index subsets in 30% of the runners; 3%: malformed assignment (index >= K) -> IndexError expected on "
        "both sides. numpy.random.gamma/randn/rand are replaced by tapes (gamma variates from the requested law, normals; for 30% of "
        "the walkers with a hard coordinate a forced out-of-cube normal vector, which must be REJECTED: evaluated at the current "
        "point, alpha = 0, no redraw). EXACTLY ONE step is run and compared with ONE op of the ensemble model "
        "Model.Kernel.runStep at Float (`krun.F`: the model itself gathers each walker's mode by its assignment and adapts the "
        "step sizes per cluster): per walker the gamma (shape, scale), the candidate returned by _propose, the in-bounds flag, the "
        "point passed on, factor, alpha, accept bit, new state, number of normal draws (= 1); per cluster the adapted sigma "
        "(empty clusters unchanged, exactly). Regime T: |d| <= 1e-9(1+scale); decisions exact unless the margin is < 1e-9. "
        "Non-trivial = K >= 2 or d >= 2 or the proposal left the cube. Suite mode-stats-consistency: the real ModeStatistics on "
        "random correlated SPD matrices (d 1..5): chol chol^T = Sigma, chol lower-triangular, inv_cov Sigma = I.")
MODELLED = ["`d @ M @ d`, einsum('ij,ijk,ik->i'), `chol @ z` and `alpha[mask].mean()` are evaluated by BLAS/einsum/pairwise summation "
            "in an unspecified order; the model folds left to right (regime T tolerance)",
            "the user's log_likelihood / prior_transform are uninterpreted: the model receives logL of the current and of the "
            "proposed point from the caller (tape); numpy.random.gamma / randn / rand are tapes (their laws — Gamma(shape, scale), "
            "standard normal, uniform, independent across walkers — are assumed, not checked)",
            "inverse-gamma law of s = 1/g (change of variables), the Jacobian of z -> mu + a(x-mu) + c L z (state-free constant), "
            "the push-forward of a density under the periodic / reflective fold (sum over preimages) and the passage from density "
            "identities to Markov kernels on R^d are textbook measure-theoretic steps, not formalised",
            "np.linalg.inv / np.linalg.cholesky inside ModeStatistics: not modelled; their defining identities are checked on the real "
            "class by suite mode-stats-consistency and are hypotheses (L invertible, Sigma = L L^T) of the geometry theorems",
            "`_check_convergence` / `_calculate_adaptive_steps` (number of steps) and the progress bar are outside the property"]
ASSUMPTIONS = ["H_modes: mode statistics are finite, dof > 0, chol invertible with chol chol^T = Sigma and inv_cov = Sigma^-1 "
               "(checked on the real ModeStatistics by suite mode-stats-consistency, not proved about numpy)",
               "H_assign: the cluster assignment is a function of the walker INDEX, fixed during the step (what the runner sees). "
               "The pipeline computes it from the walker's POSITION before the mutation; with a position-dependent assignment the "
               "first step is not pi-invariant (see clauses/C03.md, clause 9) — outside the statement as the runners implement it",
               "tpCN step size in (0,1): maintained by the code ([0, 0.99] after every adaptation: C03_tpcn_adapt_range; sigma = 0 is "
               "the identity step: C03_tpcn_sigma_zero); RWM: any real sigma",
               "current states lie in the unit cube — maintained by the step (C03_step_stays_in_cube)",
               "one step uses one sigma per cluster (C03_sigma_fixed_within_step); adaptation ACROSS steps (a history-dependent "
               "kernel) and the acceptance-dependent stopping rule are not covered",
               "KNOWN defect F17 (tpCN on folded coordinates) is excluded from the proved statement and reported as a KNOWN-FINDING "
               "line; F16 (hard-boundary redraw) is fixed in /repo (9001dc4) and its witness is part of the corpus",
               "reflective coordinates in d >= 2: proved only for increment densities that are even in each reflective coordinate "
               "(uncorrelated there; fold_mixed_symmetric); with a correlated covariance detailed balance FAILS (finding "
               "F21_reflective_correlated, Lean counter-example C03_reflect_correlated_asymmetric, witness in harness/witnesses.py)"]

TOL = 1e-9


def translators():
    from translate import g4_kernel
    return [g4_kernel.generate()]


# ------------------------------------------------------------------ real runners under tapes
def _runner_cls(kind):
    from tempest.mcmc import TPCNRunner, RWMRunner
    return {"tpcn": TPCNRunner, "rwm": RWMRunner}[kind]


class Tape:
    """replacement for numpy.random.{gamma, randn, rand} during one step; records everything"""

    def __init__(self, rng, forced, big):
        self.rng = rng
        self.forced = forced          # walker -> 1 if its normal vector is forced far out of the cube
        self.big = big                # walker -> direction of the forced vector
        self.cur = None
        self.gamma_calls = {}         # walker -> (shape, scale, g)
        self.z_calls = {}             # walker -> [vectors]
        self.r = None

    def gamma(self, *args, **kw):
        if args or set(kw) != {"shape", "scale"}:
            raise RuntimeError("gamma called with unexpected arguments")
        sh, sc = float(kw["shape"]), float(kw["scale"])
        g = self.rng.gammavariate(sh, sc) if (sh > 0 and sc > 0 and math.isfinite(sh) and math.isfinite(sc)) else 1.0
        if not (g > 0 and math.isfinite(g)):
            g = 1.0
        if self.cur in self.gamma_calls:
            raise RuntimeError("second gamma draw for one walker")
        self.gamma_calls[self.cur] = (sh, sc, g)
        return g

    def randn(self, n):
        lst = self.z_calls.setdefault(self.cur, [])
        if len(lst) < self.forced.get(self.cur, 0):
            z = [self.big[self.cur] * (30.0 + 5.0 * self.rng.random()) * (1 if i == 0 else self.rng.uniform(-1, 1)) for i in range(n)]
        else:
            z = [self.rng.gauss(0, 1) for _ in range(n)]
        lst.append(z)
        return np.array(z, dtype=float)

    def rand(self, n):
        if self.r is not None:
            raise RuntimeError("second uniform draw in one step")
        self.r = [self.rng.random() for _ in range(n)]
        return np.array(self.r, dtype=float)


def _spd(rng, d, scale):
    a = np.array([[rng.gauss(0, 1) for _ in range(d)] for _ in range(d)])
    return (a @ a.T + 0.3 * np.eye(d)) * scale ** 2 / d


def _gen_runner(rng, kind):
    d = rng.choice([1, 1, 2, 2, 3, 3, 4, 5])
    K = rng.randint(1, 4)
    n = rng.randint(3, 7)
    means = np.array([[rng.uniform(0.25, 0.75) for _ in range(d)] for _ in range(K)])
    covs = np.array([_spd(rng, d, rng.choice([0.02, 0.05, 0.1, 0.2, 0.3])) for _ in range(K)])
    dofs = np.array([rng.choice([0.3, 1.0, 2.0, 2.5, 5.0, 30.0, 1e6]) for _ in range(K)])
    u = np.array([[rng.uniform(0.08, 0.92) for _ in range(d)] for _ in range(n)])
    for row in u:                       # states exactly on a face of the cube are legal (check_bounds is inclusive)
        if rng.random() < 0.08:
            row[rng.randrange(d)] = rng.choice([0.0, 1.0])
    assign = np.array([rng.randrange(K) for _ in range(n)], dtype=int)
    bad_index = rng.random() < 0.03     # malformed input: an assignment that is not a mode index -> IndexError on both sides
    if bad_index:
        assign[rng.randrange(n)] = K + rng.randint(0, 2)
    beta = rng.choice([1.0, 0.5, rng.uniform(0.01, 1.0)])
    lo = np.array([rng.uniform(-3, 0) for _ in range(d)])
    wd = np.array([rng.uniform(0.5, 6) for _ in range(d)])
    cvec = np.array([rng.gauss(0, 3) for _ in range(d)])
    m = np.array([rng.uniform(-2, 2) for _ in range(d)])
    q = rng.choice([0.0, 1.0, 10.0])
    hole = rng.random() < 0.05

    def prior_transform(uu):
        return lo + wd * uu

    def log_likelihood(x):
        x = np.atleast_2d(x)
        val = x @ cvec - 0.5 * q * np.sum((x - m) ** 2, axis=1)
        if hole:
            val = np.where(x[:, 0] < lo[0] + 0.5 * wd[0], -np.inf, val)
        return val, None

    per = refl = None
    if rng.random() < 0.3:
        idx = list(range(d))
        p = [i for i in idx if rng.random() < 0.4]
        r = [i for i in idx if i not in p and rng.random() < 0.5]
        per = np.array(p, dtype=int) if p else None
        refl = np.array(r, dtype=int) if r else None
    return dict(kind=kind, d=d, K=K, n=n, means=means, covs=covs, dofs=dofs, u=u, assign=assign, beta=beta,
                prior_transform=prior_transform, log_likelihood=log_likelihood, per=per, refl=refl, hole=hole,
                bad_index=bad_index)


def _one_step(cfg, rng):
    """build the real runner, run exactly one step under tapes; returns everything observed"""
    from tempest.modes import ModeStatistics
    ms = ModeStatistics(cfg["means"], cfg["covs"], cfg["dofs"])
    u = cfg["u"]
    x = np.array([cfg["prior_transform"](t) for t in u])
    logl, _ = cfg["log_likelihood"](x)
    runner = _runner_cls(cfg["kind"])(u, x, logl, None, cfg["assign"], cfg["beta"], ms, cfg["log_likelihood"],
                                      cfg["prior_transform"], None, 1, 1, cfg["per"], cfg["refl"])
    # step sizes: mid-range, plus the values adaptation can reach — tpCN is clipped to [0, 0.99]; RWM is not clipped at all
    # (it starts at 2.38/sqrt(d) > 1 and may even go negative)
    edge = [0.0, 0.99] if cfg["kind"] == "tpcn" else [1.7, 2.38, -0.2]
    sig = np.array([rng.choice(edge) if rng.random() < 0.12 else rng.uniform(0.05, 0.99) for _ in range(cfg["K"])])
    runner.sigmas[:] = sig
    sigma0 = float(runner.sigma_0)
    n = cfg["n"]
    strict = [i for i in range(cfg["d"]) if i not in set(cfg["per"] if cfg["per"] is not None else [])
              and i not in set(cfg["refl"] if cfg["refl"] is not None else [])]
    forced, big = {}, {}
    for k in range(n):
        if strict and rng.random() < 0.3:
            forced[k] = 1
            big[k] = rng.choice([-1.0, 1.0])
    tape = Tape(rng, forced, big)
    seen = {}
    orig_prop = runner._propose
    orig_fac = runner._compute_acceptance_factor

    def propose(k):
        tape.cur = k
        p = orig_prop(k)
        seen.setdefault("cand", {})[k] = np.array(p, dtype=float).copy()
        return p

    def factor(u_prime, logl_prime):
        f = orig_fac(u_prime, logl_prime)
        seen["u_prime"] = np.array(u_prime, dtype=float).copy()
        seen["logl_prime"] = np.array(logl_prime, dtype=float).copy()
        seen["factor"] = np.array(f, dtype=float).copy()
        return f

    runner._propose = propose
    runner._compute_acceptance_factor = factor
    runner._update_progress_bar = lambda alpha: seen.__setitem__("alpha", np.array(alpha, dtype=float).copy())
    runner._check_convergence = lambda a: True
    with warnings.catch_warnings():
        warnings.simplefilter("ignore")
        with common.patched(np.random, "gamma", tape.gamma), common.patched(np.random, "randn", tape.randn), \
                common.patched(np.random, "rand", tape.rand):
            out = runner.run()
    return dict(ms=ms, logl=np.array(logl, dtype=float), sig=sig, sigma0=sigma0, tape=tape, seen=seen,
                new_u=np.array(out[0], dtype=float), new_logl=np.array(out[2], dtype=float),
                new_sig=np.array(runner.sigmas, dtype=float), iters=out[6], strict=strict)


def _rows(mat):
    return ";".join(flist(row, f2hex) for row in mat)


def _krun_line(kind, cfg, ms, sig, sigma0, u, assign, ls, lps, gs, rs, zrows):
    per = [] if cfg["per"] is None else [int(i) for i in cfg["per"]]
    refl = [] if cfg["refl"] is None else [int(i) for i in cfg["refl"]]
    return (f"krun.F kind={kind} d={cfg['d']} mus={_rows(ms.means)} chols={'|'.join(_rows(m) for m in ms.chol_covariances)} "
            f"invcovs={'|'.join(_rows(m) for m in ms.inv_covariances)} nus={flist(ms.degrees_of_freedom, f2hex)} "
            f"sigmas={flist(sig, f2hex)} beta={f2hex(cfg['beta'])} iter={f2hex(1.0)} sigma0={f2hex(sigma0)} "
            f"per={flist(per, str)} refl={flist(refl, str)} us={_rows(u)} assign={flist([int(a) for a in assign], str)} "
            f"ls={ls} lps={lps} gs={gs} rs={rs} zs={zrows}")


def _close(a, b, scale):
    if a == b:
        return True
    if math.isnan(a) and math.isnan(b):
        return True
    if math.isinf(a) or math.isinf(b) or math.isnan(a) or math.isnan(b):
        return False
    return abs(a - b) <= TOL * (1.0 + scale)


def _margin(obs, k):
    """smallest distance of a hard coordinate of the candidate to the cube faces (to classify an in-bounds mismatch as a near tie)"""
    cand = obs["seen"]["cand"][k]
    return min([min(abs(cand[i]), abs(1.0 - cand[i])) for i in obs["strict"]] or [math.inf])


def correspond(tier):
    n_runners = 150 if tier == "quick" else 2500
    drv = common.Driver()
    out = []
    for kind in ("tpcn", "rwm"):
        rng = common.rng_for("C03.corr." + kind)
        c = Corr(f"kernel-step-{kind}", "toleranced Float (T): values 1e-9(1+scale), decisions exact unless margin < 1e-9")
        lines, metas = [], []
        run_lines, run_metas = [], []       # one `krun.F` op per runner: the model does the per-walker gather and the adaptation
        for _ in range(n_runners):
            cfg = _gen_runner(rng, kind)
            from tempest.modes import ModeStatistics
            if cfg["bad_index"]:
                # malformed assignment: the real code must raise IndexError, the model answers `IndexError`
                try:
                    _one_step(cfg, rng)
                    impl_err = "no error"
                except IndexError:
                    impl_err = "IndexError"
                except Exception as e:
                    impl_err = type(e).__name__
                ms = ModeStatistics(cfg["means"], cfg["covs"], cfg["dofs"])
                zero = flist([0.0] * cfg["n"], f2hex)
                run_lines.append(_krun_line(kind, cfg, ms, np.full(cfg["K"], 0.5), 1.0, cfg["u"], cfg["assign"], zero, zero, zero, zero,
                                            _rows(np.zeros((cfg["n"], cfg["d"])))))
                run_metas.append(("error", impl_err, None))
                c.case(run_lines[-1], True)
                c.count("malformed:assignment_out_of_range")
                continue
            try:
                obs = _one_step(cfg, rng)
            except Exception as e:  # the real code crashing on a valid input is a disagreement with the (total) model
                c.disagree(input={k: (v.tolist() if isinstance(v, np.ndarray) else v) for k, v in cfg.items() if not callable(v)},
                           impl=f"raised {type(e).__name__}: {e}", model="one step", kind=kind)
                continue
            if obs["iters"] != 1 or "alpha" not in obs["seen"] or obs["tape"].r is None:
                c.disagree(input="harness", impl=f"iterations={obs['iters']}", model="exactly one step", kind=kind)
                continue
            ms, seen, tape = obs["ms"], obs["seen"], obs["tape"]
            per = [] if cfg["per"] is None else [int(i) for i in cfg["per"]]
            refl = [] if cfg["refl"] is None else [int(i) for i in cfg["refl"]]
            gs = [tape.gamma_calls.get(k, (0.0, 0.0, 1.0))[2] for k in range(cfg["n"])]
            zrows = [tape.z_calls.get(k, [[0.0] * cfg["d"]])[0] for k in range(cfg["n"])]
            run_lines.append(_krun_line(kind, cfg, ms, obs["sig"], obs["sigma0"], cfg["u"], cfg["assign"], flist(obs["logl"], f2hex),
                                        flist(seen["logl_prime"], f2hex), flist(gs, f2hex), flist(tape.r, f2hex), _rows(zrows)))
            run_metas.append(("run", cfg, obs))
            for cl in range(cfg["K"]):
                sg = float(obs["sig"][cl])
                c.count("sigma=0" if sg == 0.0 else "sigma<0" if sg < 0 else "sigma>=1" if sg >= 1 else "sigma_in_(0,1)")
            for k in range(cfg["n"]):
                cl = int(cfg["assign"][k])
                zs = tape.z_calls.get(k, [])
                g = tape.gamma_calls.get(k, (0.0, 0.0, 1.0))
                line = (f"kstep.F kind={kind} d={cfg['d']} u={flist(cfg['u'][k], f2hex)} mu={flist(ms.means[cl], f2hex)} "
                        f"chol={_rows(ms.chol_covariances[cl])} invcov={_rows(ms.inv_covariances[cl])} "
                        f"nu={f2hex(ms.degrees_of_freedom[cl])} sigma={f2hex(obs['sig'][cl])} beta={f2hex(cfg['beta'])} "
                        f"l={f2hex(obs['logl'][k])} lp={f2hex(seen['logl_prime'][k])} g={f2hex(g[2])} r={f2hex(tape.r[k])} "
                        f"z={flist(zs[0] if zs else [], f2hex)} per={flist(per, str)} refl={flist(refl, str)}")
                lines.append(line)
                metas.append((cfg, obs, k))
                from tempest.mcmc import check_bounds
                cand = seen.get("cand", {}).get(k)
                inb = bool(check_bounds(cand, cfg["per"], cfg["refl"])) if cand is not None else True
                obs.setdefault("inb", {})[k] = inb
                c.case(line, cfg["K"] >= 2 or cfg["d"] >= 2 or not inb)
                c.count(f"d={cfg['d']}")
                c.count(f"K={cfg['K']}")
                used = sorted({int(a) for a in cfg["assign"]})
                if len({float(cfg["dofs"][a]) for a in used}) >= 2:
                    c.count("walker_in_runner_with_>=2_nonempty_modes_of_distinct_dof")
                c.count("in_bounds" if inb else "out_of_bounds_rejected")
                c.count(f"normal_draws={len(zs)}")
                if any(x in (0.0, 1.0) for x in cfg["u"][k]):
                    c.count("state_on_cube_face")
                if per or refl:
                    c.count("folded_coordinates")
                if cfg["hole"]:
                    c.count("likelihood_hole")
                if kind == "tpcn" and k not in tape.gamma_calls:
                    c.disagree(input=line, impl="no gamma draw for this walker", model="one gamma draw per walker", kind=kind)
        # ---- the ensemble op: split its answer into the per-walker answers (same format as kstep.F) and the new sigmas
        run_res = drv.batch(run_lines)
        res = []
        for (tag, a, obs), rline, rans in zip(run_metas, run_lines, run_res):
            if tag == "error":
                if not (rans == "IndexError" and a == "IndexError"):
                    c.disagree(input=rline[:600], impl=a, model=rans, kind=kind, what=["index_error"])
                continue
            cfg = a
            parts = rans.split(" ")
            walkers = parts[0].split("|") if len(parts) == 2 else []
            if len(walkers) != cfg["n"]:
                c.disagree(input=rline[:600], impl="one step of the ensemble", model=rans[:200], kind=kind)
                res += ["bad-op"] * cfg["n"]
                continue
            res += [w.replace("/", " ") for w in walkers]
            new_sig = common.parse_list(parts[1], hex2f)
            for cl in range(cfg["K"]):
                empty = not np.any(cfg["assign"] == cl)
                c.count("adapt_empty_cluster_kept" if empty else "adapt_checked")
                want = float(obs["new_sig"][cl])
                ok = (want == float(obs["sig"][cl]) and new_sig[cl] == want) if empty else _close(want, new_sig[cl], abs(want))
                if len(new_sig) != cfg["K"] or not ok:
                    c.disagree(input=rline[:600], impl={"new_sigmas": obs["new_sig"].tolist()}, model={"new_sigmas": new_sig},
                               kind=kind, what=["adapt"])
                    break
        for (cfg, obs, k), line, ans in zip(metas, lines, res):
            toks = ans.split(" ")
            seen, tape = obs["seen"], obs["tape"]
            if len(toks) != 13:
                c.disagree(input=line, impl="one step", model=ans, kind=kind)
                continue
            shape, scale, s = (hex2f(t) for t in toks[:3])
            draws = int(toks[3])
            cand = common.parse_list(toks[4], hex2f)
            inb = toks[5] == "1"
            prop = common.parse_list(toks[6], hex2f)
            dot, dotp, fac, alpha = (hex2f(t) for t in toks[7:11])
            acc = toks[11] == "1"
            new_u = common.parse_list(toks[12], hex2f)
            impl = {"candidate": seen["cand"][k].tolist(), "in_bounds": obs["inb"][k], "u_prime": seen["u_prime"][k].tolist(),
                    "factor": float(seen["factor"][k]), "alpha": float(seen["alpha"][k]),
                    "draws": len(tape.z_calls.get(k, [])), "new_u": obs["new_u"][k].tolist()}
            bad = []
            if draws != impl["draws"]:
                bad.append("draws")
            if kind == "tpcn" and k in tape.gamma_calls:
                gsh, gsc, _ = tape.gamma_calls[k]
                impl["gamma_shape"], impl["gamma_scale"] = gsh, gsc
                if not _close(gsh, shape, abs(shape)):
                    bad.append("gamma_shape")
                if not _close(gsc, scale, abs(scale)):
                    bad.append("gamma_scale")
            if not bad and (len(cand) != cfg["d"] or not all(_close(a, b, abs(b)) for a, b in zip(impl["candidate"], cand))):
                bad.append("candidate")
            if not bad and inb != impl["in_bounds"]:
                if _margin(obs, k) < 1e-9:
                    c.near_ties += 1
                    continue
                bad.append("in_bounds")
            if not bad:
                if len(prop) != cfg["d"] or not all(_close(a, b, abs(b)) for a, b in zip(impl["u_prime"], prop)):
                    bad.append("proposal_passed_on")
                fscale = abs(fac) + abs(dot) + abs(dotp)
                if not _close(impl["factor"], fac, fscale):
                    bad.append("factor")
                lp_, l_ = float(seen["logl_prime"][k]), float(obs["logl"][k])
                ascale = fscale + (abs(cfg["beta"] * (lp_ - l_)) if math.isfinite(lp_ - l_) else 0.0)
                if not _close(impl["alpha"], alpha, ascale):
                    bad.append("alpha")
            if not bad:
                r = tape.r[k]
                if impl["in_bounds"] and (abs(r - impl["alpha"]) < 1e-9 or abs(r - alpha) < 1e-9):
                    c.near_ties += 1
                else:
                    impl_acc = bool(r < impl["alpha"])
                    if impl_acc != acc:
                        bad.append("accept")
                    elif not all(_close(a, b, abs(b)) for a, b in zip(impl["new_u"], new_u)):
                        bad.append("new_state")
                    c.count("accepted" if impl_acc else "rejected")
            if bad:
                c.disagree(input=line, impl=impl, model=ans, what=bad, kind=kind)
            c.sample({"op": line[:400], "impl": impl, "model": ans})
        out.append(c)
    out.append(_mode_stats_consistency(tier))
    return out


def _mode_stats_consistency(tier):
    """the theorems ASSUME the precomputed quantities the kernels use are consistent with the covariance: the factor the
    proposal multiplies the normal vector with satisfies L L^T = Sigma (and is the lower factor the code's `chol_cov @ randn`
    expects), and inv_cov = Sigma^-1.  Checked here on the real ModeStatistics for correlated matrices."""
    from tempest.modes import ModeStatistics
    c = Corr("mode-stats-consistency", "toleranced (1e-9 relative): L L^T = Sigma, L lower-triangular, inv_cov Sigma = I")
    rng = common.rng_for("C03.modestats")
    for _ in range(120 if tier == "quick" else 1500):
        d = rng.randint(1, 5)
        K = rng.randint(1, 3)
        covs = np.array([_spd(rng, d, rng.uniform(0.05, 0.5)) for _ in range(K)])
        ms = ModeStatistics(np.zeros((K, d)), covs, np.full(K, 3.0))
        c.case([common.f2hex(v) for v in covs.ravel()[:6]], d >= 2)
        for k in range(K):
            L, S, Si = ms.chol_covariances[k], covs[k], ms.inv_covariances[k]
            sc = float(np.abs(S).max())
            bad = None
            if np.abs(L @ L.T - S).max() > 1e-9 * sc:
                bad = "chol_cov @ chol_cov.T != covariance (the proposal noise chol_cov @ z does not have covariance Sigma)"
            elif np.abs(np.triu(L, 1)).max() > 0:
                bad = "chol_cov is not lower-triangular"
            elif np.abs(Si @ S - np.eye(d)).max() > 1e-8:
                bad = "inv_cov @ covariance != I"
            if bad:
                c.disagree(input={"cov": S.tolist()}, impl=bad, model="L L^T = Sigma, inv_cov = Sigma^-1 (hypotheses of C03_tpcn_interior)", kind="tpcn")
                break
    c.sample({"checked": "ModeStatistics(means, covs, dof) for random correlated SPD covs, d in 1..5"})
    return c


# ------------------------------------------------------------------ property oracle on the real code
# One-step invariance: exact draws from pi_beta on [0,1] -> ONE real step with fixed sigma -> chi-square of the 20-bin
# histogram against the exact bin probabilities.  Under invariance the walkers stay i.i.d. pi_beta, so the statistic is
# chi2(19) and the threshold p < 1e-9 cannot fire on a correct kernel (except with that probability).
NBINS = 20
CHI2_P = 1e-9

TARGETS = {
    # name: (log-likelihood l(x), exact inverse CDF of pi_beta ∝ exp(beta l), exact CDF)
    "uniform": dict(l=lambda x: np.zeros_like(x)),
    "tilted": dict(l=lambda x: 3.0 * x),
    "corner": dict(l=lambda x: 8.0 * np.log(np.maximum(x, 1e-300))),
    "interior": dict(l=lambda x: -0.5 * ((x - 0.5) / 0.05) ** 2),
}


def _target_cdf(name, beta, x):
    x = np.asarray(x, dtype=float)
    if name == "uniform":
        return x
    if name == "tilted":
        c = 3.0 * beta
        return np.expm1(c * x) / math.expm1(c)
    if name == "corner":
        return x ** (8.0 * beta + 1.0)
    if name == "interior":
        from scipy.stats import norm
        sd = 0.05 / math.sqrt(beta)
        a, b = norm.cdf(0.0, 0.5, sd), norm.cdf(1.0, 0.5, sd)
        return (norm.cdf(x, 0.5, sd) - a) / (b - a)
    raise KeyError(name)


def _target_sample(name, beta, v):
    """inverse CDF at uniforms v"""
    if name == "uniform":
        return v
    if name == "tilted":
        c = 3.0 * beta
        return np.log1p(v * math.expm1(c)) / c
    if name == "corner":
        return v ** (1.0 / (8.0 * beta + 1.0))
    if name == "interior":
        from scipy.stats import norm
        sd = 0.05 / math.sqrt(beta)
        a, b = norm.cdf(0.0, 0.5, sd), norm.cdf(1.0, 0.5, sd)
        return norm.ppf(a + v * (b - a), 0.5, sd)
    raise KeyError(name)


MODE = {
    # proposal statistics used for the cells (the property holds for ANY statistics; these are fixed, mid-range ones)
    "wide": dict(mu=0.5, var=1.0 / 12.0, nu=3.0),
    "narrow": dict(mu=0.47, var=0.06 ** 2, nu=3.0),
}


def chi2_threshold():
    from scipy.stats import chi2
    return float(chi2.isf(CHI2_P, NBINS - 1))


TWO_MODES = [dict(mu=0.3, var=0.12 ** 2, nu=2.5), dict(mu=0.7, var=0.25 ** 2, nu=60.0)]


def one_step_cell(kernel, boundary, sigma, beta, target, seed, n=200000, mode=None, steps=1):
    """the oracle: returns dict(chi2, chi2_before, threshold, fails).
    mode="two": K = 2 modes with distinct means, scales and CLEARLY different dof (TWO_MODES); the assignment is a function of
    the walker index (parity), fixed during the step, so each half is a chain with one fixed kernel and must keep the same
    target: the statistic is the larger of the two per-half chi-squares."""
    from tempest.modes import ModeStatistics
    mode = mode or ("narrow" if target == "interior" else "wide")
    mos = TWO_MODES if mode == "two" else [MODE[mode]]
    rs = np.random.RandomState(seed)
    u = np.clip(_target_sample(target, beta, rs.rand(n)), 0.0, 1.0).reshape(n, 1)
    lfun = TARGETS[target]["l"]

    def log_likelihood(x):
        return lfun(np.asarray(x, dtype=float)[:, 0]), None

    ms = ModeStatistics(np.array([[m["mu"]] for m in mos]), np.array([[[m["var"]]] for m in mos]),
                        np.array([m["nu"] for m in mos]))
    assign = (np.arange(n) % len(mos)).astype(int)
    per = np.array([0]) if boundary == "periodic" else None
    refl = np.array([0]) if boundary == "reflective" else None
    logl, _ = log_likelihood(u)
    runner = _runner_cls(kernel)(u, u.copy(), logl, None, assign, beta, ms, log_likelihood,
                                 lambda t: t, None, 1, 1, per, refl)
    runner._check_convergence = lambda a: True
    runner._adapt_sigma = lambda c, a: None        # fixed step size: the property quantifies over one sigma
    # equiprobable bins (expected count n/NBINS in each; for the uniform target these are the equal-width bins)
    edges = np.asarray(_target_sample(target, beta, np.linspace(0.0, 1.0, NBINS + 1)), dtype=float)
    edges[0], edges[-1] = 0.0, 1.0
    prob = np.diff(_target_cdf(target, beta, edges))
    ok = prob > 0
    with warnings.catch_warnings():
        warnings.simplefilter("ignore")
        with common.patched(np.random, "gamma", rs.gamma), common.patched(np.random, "randn", rs.randn), \
                common.patched(np.random, "rand", rs.rand):
            for _ in range(steps):
                runner.sigmas[:] = sigma
                out = runner.run()
    v = np.asarray(out[0])[:, 0]
    chi_b, chi_a, ratios = [], [], []
    for c in range(len(mos)):
        sel = assign == c
        expct = sel.sum() * prob
        before = np.histogram(u[sel, 0], bins=edges)[0]
        after = np.histogram(v[sel], bins=edges)[0]
        chi_b.append(float(np.sum((before[ok] - expct[ok]) ** 2 / expct[ok])))
        chi_a.append(float(np.sum((after[ok] - expct[ok]) ** 2 / expct[ok])))
        ratios.append([float(after[0] / expct[0]), float(after[-1] / expct[-1])] if expct[0] > 0 and expct[-1] > 0 else None)
    thr = chi2_threshold()
    res = {"chi2": max(chi_a), "chi2_before": max(chi_b), "threshold": thr, "fails": max(chi_a) > thr and max(chi_b) <= thr,
           "edge_ratio": ratios[int(np.argmax(chi_a))]}
    if len(mos) > 1:
        res["chi2_per_mode"] = chi_a
    return res


def one_step_cell_2d(kernel, boundary, rho, sigma, seed, n=200000, bins=5):
    """d = 2, uniform target (every in-cube proposal of RWM is accepted), BOTH coordinates of the given boundary type, mode
    covariance (1/12) [[1, rho], [rho, 1]]: chi-square of the bins x bins histogram after one step against the uniform law"""
    from scipy.stats import chi2
    from tempest.modes import ModeStatistics
    rs = np.random.RandomState(seed)
    u = rs.rand(n, 2)
    cov = np.array([[1.0, rho], [rho, 1.0]]) / 12.0
    ms = ModeStatistics(np.array([[0.5, 0.5]]), np.array([cov]), np.array([3.0]))
    idx = np.array([0, 1])
    per = idx if boundary == "periodic" else (np.array([0]) if boundary == "periodic+hard" else None)
    refl = idx if boundary == "reflective" else None
    runner = _runner_cls(kernel)(u, u.copy(), np.zeros(n), None, np.zeros(n, dtype=int), 1.0, ms,
                                 lambda x: (np.zeros(len(x)), None), lambda t: t, None, 1, 1, per, refl)
    runner._check_convergence = lambda a: True
    runner._adapt_sigma = lambda c, a: None
    runner.sigmas[:] = sigma
    edges = np.linspace(0.0, 1.0, bins + 1)
    e = n / bins / bins
    before = np.histogram2d(u[:, 0], u[:, 1], bins=[edges, edges])[0]
    with warnings.catch_warnings():
        warnings.simplefilter("ignore")
        with common.patched(np.random, "gamma", rs.gamma), common.patched(np.random, "randn", rs.randn), \
                common.patched(np.random, "rand", rs.rand):
            out = runner.run()
    v = np.asarray(out[0])
    after = np.histogram2d(v[:, 0], v[:, 1], bins=[edges, edges])[0]
    chi_b = float(((before - e) ** 2 / e).sum())
    chi_a = float(((after - e) ** 2 / e).sum())
    thr = float(chi2.isf(CHI2_P, bins * bins - 1))
    return {"chi2": chi_a, "chi2_before": chi_b, "threshold": thr, "fails": chi_a > thr and chi_b <= thr,
            "corner_ratio": {"diag": [float(after[0, 0] / e), float(after[-1, -1] / e)],
                             "anti": [float(after[0, -1] / e), float(after[-1, 0] / e)]}}


CELLS_2D = [
    # (kernel, boundary, rho, sigma, known_id)
    ("tpcn", "hard", 0.9, 0.5, None),                                 # proved: C03_tpcn_hard_reject (needs L L^T = Sigma)
    ("rwm", "periodic", 0.9, 0.5, None),                              # proved: fold_periodic_symmetric_nd
    ("rwm", "periodic+hard", 0.9, 0.5, None),                         # proved: C03_rwm_mixed_boundaries (coordinate 0 periodic, 1 hard)
    ("rwm", "reflective", 0.0, 0.5, None),                            # proved: fold_reflective_symmetric_nd (diagonal Sigma)
    ("rwm", "reflective", 0.9, 0.5, "F21_reflective_correlated"),     # counter-example C03_reflect_correlated_asymmetric
]


def known_id(kernel, boundary, target):
    """the recorded defect of the 1-D cells: tpCN x folded coordinate (F17).  Hard-boundary cells are no longer excused (F16 is
    fixed: out-of-cube proposals are rejected), a failure there is a new violation.  The `interior` target keeps all mass and
    (with the narrow mode) all proposals away from the faces, so no boundary rule can be blamed there."""
    if target == "interior":
        return None
    if kernel == "tpcn" and boundary in ("periodic", "reflective"):
        return "F17_tpcn_fold"
    return None


def _cells(tier):
    """(detectors, rest): `detectors` are the cells where no recorded defect can be blamed — interior targets (no boundary can
    intervene), hard boundaries (both kernels) and RWM on folded coordinates; `rest` is the remaining boundary grid (its
    tpCN-fold cells carry the known_id F17)."""
    det = []
    for kernel in ("tpcn", "rwm"):
        det.append((kernel, "hard", 0.5, 0.5, "interior", 1))
        det.append((kernel, "hard", 0.9, 0.5, "interior", 2))
    # K = 2 modes with different dof / scale / mean (assignment by walker parity): a per-walker mix-up of mode statistics
    # (e.g. one mode's dof used for every walker in the tpCN factor) is invisible to the single-mode cells
    for kernel in ("tpcn", "rwm"):
        det.append((kernel, "hard", 0.5, 1.0, "tilted", 1, "two"))
    det.append(("tpcn", "hard", 0.8, 1.0, "uniform", 1, "two"))
    for kernel in ("rwm", "tpcn"):
        for target in ("uniform", "tilted"):
            det.append((kernel, "hard", 0.5, 1.0, target, 1))
    for boundary in ("periodic", "reflective"):
        for target in ("tilted", "uniform", "corner"):
            det.append(("rwm", boundary, 0.5, 1.0, target, 1))
    if tier != "quick":
        for kernel in ("tpcn", "rwm"):
            det.append((kernel, "hard", 0.2, 1.0, "interior", 2))
            for boundary in ("periodic", "reflective"):
                det.append((kernel, boundary, 0.2, 0.5, "interior", 2))
    rest = []
    sig_all = (0.2, 0.5, 0.9)
    for kernel in ("tpcn", "rwm"):
        for boundary in ("hard", "periodic", "reflective"):
            for target in ("uniform", "tilted", "corner"):
                for sigma in (sig_all if (tier != "quick" or target == "uniform") else (0.5,)):
                    cell = (kernel, boundary, sigma, 1.0, target, 1)
                    if cell not in det:
                        rest.append(cell)
    return det, rest


def search(tier, hints):
    base = common.seed()
    n = 200000 if tier == "quick" else 500000
    kinds = {h.get("kind") for h in hints if h.get("kind")}
    det, rest = _cells(tier)
    if kinds:
        det.sort(key=lambda c: 0 if c[0] in kinds else 1)      # stable sort: the suspected kernel first
        rest.sort(key=lambda c: 0 if c[0] in kinds else 1)
    found, new = [], 0
    for phase, cells in (("det", det), ("rest", rest)):
        for cell in cells:
            kernel, boundary, sigma, beta, target, steps = cell[:6]
            mode = cell[6] if len(cell) > 6 else None
            tag = f"{kernel}/{boundary}/{sigma}/{beta}/{target}/{steps}" + (f"/{mode}" if mode else "")
            seed = (base * 1000003 + int(common.digest(tag), 16)) % (2 ** 31 - 1)
            r = one_step_cell(kernel, boundary, sigma, beta, target, seed, n=n, steps=steps, mode=mode)
            if r["chi2_before"] > r["threshold"]:
                raise common.LeanError(f"oracle self-check failed: exact sampler of target {target} has chi2 {r['chi2_before']}")
            if r["fails"]:
                f = {"what": f"one-step invariance violated: chi2={r['chi2']:.1f} > {r['threshold']:.1f} (p<1e-9, {NBINS} bins, N={n})",
                     "kernel": kernel, "boundary": boundary, "sigma": sigma, "beta": beta, "target": target, "steps": steps, "mode": mode,
                     "seed": seed, "n": n, "chi2": r["chi2"], "edge_ratio": r["edge_ratio"]}
                kid = known_id(kernel, boundary, target)
                if kid:
                    f["known_id"] = kid
                else:
                    new += 1
                found.append(f)
        if new:
            break       # a new violation is established; the boundary grid would only add the recorded ones
        if phase == "det":
            for kernel, boundary, rho, sigma, kid in CELLS_2D:
                tag = f"2d/{kernel}/{boundary}/{rho}/{sigma}"
                seed = (base * 1000003 + int(common.digest(tag), 16)) % (2 ** 31 - 1)
                r = one_step_cell_2d(kernel, boundary, rho, sigma, seed, n=n)
                if r["fails"]:
                    f = {"what": f"one-step invariance violated in d=2: chi2={r['chi2']:.1f} > {r['threshold']:.1f} (p<1e-9, 5x5 bins, N={n})",
                         "kernel": kernel, "boundary": boundary, "sigma": sigma, "beta": 1.0, "target": "uniform", "dim": 2, "rho": rho,
                         "seed": seed, "n": n, "chi2": r["chi2"], "corner_ratio": r["corner_ratio"]}
                    if kid:
                        f["known_id"] = kid
                    else:
                        new += 1
                    found.append(f)
            if new:
                break
    found.sort(key=lambda f: 1 if "known_id" in f else 0)      # unknown findings first
    return found


def replay(obj):
    f = obj.get("failing_input", obj)
    if "witness" in f.get("replay", {}):
        from . import witnesses
        return witnesses.ALL[f["replay"]["witness"]]()
    if "kernel" not in f:
        return {"fails": None, "detail": "no concrete failing input recorded (broken obligation only): "
                                         + "; ".join(obj.get("broken_obligations", [])[:5])}
    if f.get("dim") == 2:
        r = one_step_cell_2d(f["kernel"], f["boundary"], f["rho"], f["sigma"], f["seed"], n=f.get("n", 200000))
        return {"fails": bool(r["fails"]), "detail": f"chi2={r['chi2']:.1f} threshold={r['threshold']:.1f} "
                                                     f"(before step: {r['chi2_before']:.1f}) corners={r['corner_ratio']}"}
    r = one_step_cell(f["kernel"], f["boundary"], f["sigma"], f["beta"], f["target"], f["seed"], n=f.get("n", 200000), mode=f.get("mode"),
                      steps=f.get("steps", 1))
    return {"fails": bool(r["fails"]), "detail": f"chi2={r['chi2']:.1f} threshold={r['threshold']:.1f} "
                                                 f"(before step: {r['chi2_before']:.1f}) edge_ratio={r['edge_ratio']}"}
