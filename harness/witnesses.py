"""Concrete witnesses of defects found in minaskar/tempest (see known_findings.json).

Each function replays one recorded failing input on the REAL code (whatever is in
/repo now) and returns {"fails": bool, "detail": str}.  `fails` means: the property
is violated on this input.  Used three ways:
  * `fixed:` entries  -> part of the corpus; if it fails again the check reports a VIOLATION
  * `known:` entries  -> KNOWN-FINDING line while it still fails
  * ad-hoc replay     -> python -m harness.witnesses <name>
"""
import contextlib
import io
import os
import sys
import tempfile
import shutil
import warnings

import numpy as np

from . import common


def _quiet():
    return contextlib.redirect_stdout(io.StringIO())


def _mk_sampler(**kw):
    from tempest import Sampler
    n_dim = kw.pop("n_dim", 2)
    prior = kw.pop("prior_transform", lambda u: 10.0 * u - 5.0)
    like = kw.pop("log_likelihood", lambda x: -0.5 * float(np.sum(x ** 2)))
    kw.setdefault("n_particles", 32)
    return Sampler(prior, like, n_dim, **kw)


# ---------------------------------------------------------------- C06 / F1
def _syst(n, w, u0):
    from tempest.tools import systematic_resample
    with common.patched(np.random, "random", lambda *a, **k: u0):
        try:
            return [int(i) for i in systematic_resample(n, np.array(w, dtype=float))]
        except Exception as e:  # noqa
            return type(e).__name__


def F1a_syst_overrun():
    r1 = _syst(4, [0.25 * (1 - 1e-9)] * 4, 1 - 1e-12)
    r2 = _syst(10, [0.1] * 10, float(np.nextafter(1.0, 0.0)))
    bad = [r for r in (r1, r2) if not isinstance(r, list) or len(r) not in (4, 10) or max(r) > 9]
    return {"fails": bool(bad), "detail": f"n=4,w=.25(1-1e-9)x4,u0=1-1e-12 -> {r1}; n=10,w=[.1]*10,u0=nextafter(1,0) -> {r2}"}


def F1b_syst_u0_zero():
    r1 = _syst(2, [0.5, 0.5], 0.0)
    r2 = _syst(1, [0.0, 1.0], 0.0)
    return {"fails": r1 != [0, 1] or r2 != [1], "detail": f"n=2,w=[.5,.5],u0=0 -> {r1} (want [0,1]); n=1,w=[0,1],u0=0 -> {r2} (want [1])"}


# ---------------------------------------------------------------- C16 / F13
def F13_reflect_overflow():
    from tempest.mcmc import apply_boundary_conditions
    with warnings.catch_warnings():
        warnings.simplefilter("ignore")
        out = apply_boundary_conditions(np.array([2.0 ** 63, 1e300, -1e300, 2.0 ** 64 + 4096.0]), None, [0, 1, 2, 3])
    ok = bool(np.all((out >= 0) & (out <= 1)))
    return {"fails": not ok, "detail": f"reflect([2^63,1e300,-1e300,2^64+4096]) -> {out.tolist()}"}


# ---------------------------------------------------------------- C08 / F2 F3 F4
def F2_load_drops_state():
    d = tempfile.mkdtemp(prefix="tvw_")
    try:
        with _quiet():
            np.random.seed(3)
            s = _mk_sampler(clustering=False)
            s._core._initialize_fresh()
            for _ in range(4):
                s.sample()
            p = os.path.join(d, "a.state")
            s.save_state(p)
            s2 = _mk_sampler(clustering=False)
            s2.load_state(p)
        a = (s.state.get_current("iter"), s.state.get_history_length())
        b = (s2.state.get_current("iter"), s2.state.get_history_length())
        same_u = b[1] == a[1] and all(np.array_equal(x, y) for x, y in zip(s.state._history["u"], s2.state._history["u"]))
        return {"fails": (a != b) or not same_u, "detail": f"saved (iter,len)={a}, loaded into fresh sampler (iter,len)={b}"}
    finally:
        shutil.rmtree(d, ignore_errors=True)


class _ListPool:
    def map(self, f, xs):
        return [f(x) for x in xs]


def F3_pool_save():
    d = tempfile.mkdtemp(prefix="tvw_")
    try:
        with _quiet():
            np.random.seed(3)
            s = _mk_sampler(clustering=False, pool=_ListPool())
            s._core._initialize_fresh()
            s.sample()
            try:
                s.save_state(os.path.join(d, "a.state"))
                err = None
            except Exception as e:  # noqa
                err = f"{type(e).__name__}: {e}"
        restored = s._core.config.pool is not None
        return {"fails": err is not None or not restored, "detail": f"save_state with pool-like object -> {err or 'ok'}; pool re-attached={restored}"}
    finally:
        shutil.rmtree(d, ignore_errors=True)


def F4_save_not_atomic():
    """Record the file operations of Sampler.save_state: the final name must only ever appear by rename."""
    import builtins
    d = tempfile.mkdtemp(prefix="tvw_")
    try:
        with _quiet():
            np.random.seed(3)
            s = _mk_sampler(clustering=False)
            s._core._initialize_fresh()
            s.sample()
            final = os.path.join(d, "a.state")
            opened = []
            real_open = builtins.open

            def spy(file, mode="r", *a, **k):
                opened.append((os.fspath(file) if not isinstance(file, int) else file, mode))
                return real_open(file, mode, *a, **k)
            with common.patched(builtins, "open", spy):
                s.save_state(final)
        direct = [m for f, m in opened if f == final and ("w" in m or "a" in m)]
        return {"fails": bool(direct), "detail": f"open() calls for writing under the final name: {len(direct)} (protocol {'direct' if direct else 'temp+rename'})"}
    finally:
        shutil.rmtree(d, ignore_errors=True)


# ---------------------------------------------------------------- C09 / F5 F6
def F5_random_state_unused():
    outs = []
    with _quiet():
        for pre in (11, 12):
            np.random.seed(pre)
            s = _mk_sampler(clustering=False, random_state=0)
            s.run(n_total=64, progress=False)
            outs.append((s.evidence()[0], s.state.get_history("u", flat=True).sum()))
    return {"fails": outs[0] != outs[1], "detail": f"two runs with random_state=0 (different ambient seeds): logZ {outs[0][0]!r} vs {outs[1][0]!r}"}


def F6_global_reseed():
    from tempest.cluster import HierarchicalGaussianMixture
    rng = np.random.RandomState(5)
    X = np.vstack([rng.randn(60, 2) * 0.05 + 0.3, rng.randn(60, 2) * 0.05 + 0.7])
    nxt = []
    for pre in (1, 2):
        np.random.seed(pre)
        HierarchicalGaussianMixture().fit(X)
        nxt.append(float(np.random.rand()))
    return {"fails": nxt[0] == nxt[1], "detail": f"first global draw after HierarchicalGaussianMixture.fit for pre-seeds 1,2: {nxt[0]!r}, {nxt[1]!r}"}


# ---------------------------------------------------------------- C11 / F7 F8
def _half_like(x):
    return -np.inf if x[0] < 0.0 else -0.5 * float(np.sum(x ** 2))


def F7_warmup_logz_compounds():
    with _quiet():
        np.random.seed(1)
        s = _mk_sampler(clustering=False, n_particles=64, ess_ratio=6.0, log_likelihood=_half_like)
        s._core._initialize_fresh()
        zs = []
        for _ in range(5):
            st = s.sample()
            if st["beta"] == 0.0:
                zs.append(float(st["logz"]))
    true = np.log(0.5)
    dev = [abs(z - true) for z in zs]
    # binomial SE of log fraction for 64 draws ~ 0.125; 0.6 is ~5 SE
    return {"fails": len(zs) >= 2 and max(dev) > 0.6, "detail": f"logz over beta=0 iterations (true {true:.3f}): {[round(z,3) for z in zs]}"}


def F8_all_inf_batch():
    def tiny(x):
        return -np.inf if (x[0] < 4.8) else 0.0
    with _quiet(), warnings.catch_warnings():
        warnings.simplefilter("ignore")
        np.random.seed(3)
        s = _mk_sampler(clustering=False, n_particles=4, log_likelihood=tiny)
        s._core._initialize_fresh()
        st = s.sample()
    stored = s.state._history["logl"][0]
    return {"fails": bool(np.any(np.isinf(stored))), "detail": f"support 2%, n_particles=4, seed 3: stored logl {stored.tolist()}, logz {st['logz']}"}


# ---------------------------------------------------------------- C12 / F9
def F9_logw_misaligned():
    with _quiet():
        np.random.seed(2)
        s = _mk_sampler(clustering=False)
        s.run(n_total=128, progress=False)
        out = s.posterior(return_logw=True)
        out2 = s.posterior(return_logw=True, resample=True)
    lens = [len(a) for a in out]
    lens2 = [len(a) for a in out2]
    return {"fails": len(set(lens)) != 1 or len(set(lens2)) != 1, "detail": f"posterior(return_logw=True) lengths {lens}; with resample {lens2}"}


# ---------------------------------------------------------------- C13 / F10
def F10_pool_one():
    with _quiet():
        np.random.seed(2)
        try:
            s = _mk_sampler(clustering=False, pool=1)
            s._core._initialize_fresh()
            s.sample()
            err = None
        except Exception as e:  # noqa
            err = f"{type(e).__name__}: {e}"
    return {"fails": err is not None, "detail": f"pool=1 -> {err or 'ok'}"}


# ---------------------------------------------------------------- C14 / F11 F12
def F11_cluster_cadence():
    errs = {}
    with _quiet(), warnings.catch_warnings():
        warnings.simplefilter("ignore")
        for ce in (3, 5):
            np.random.seed(4)
            try:
                s = _mk_sampler(clustering=True, cluster_every=ce, n_particles=32)
                s.run(n_total=64, progress=False)
                errs[ce] = None
            except Exception as e:  # noqa
                errs[ce] = f"{type(e).__name__}: {e}"
    return {"fails": any(v is not None for v in errs.values()), "detail": f"cluster_every -> {errs}"}


def F12_label_rank_mismatch():
    """modes exist only for labels present in training; the kernel must look a particle's mode up by LABEL"""
    from tempest.modes import ModeStatistics
    rng = np.random.RandomState(0)
    u = np.vstack([rng.rand(30, 2) * 0.1 + 0.1, rng.rand(30, 2) * 0.1 + 0.8])
    labels = np.array([0] * 30 + [2] * 30)   # label 1 attracted no training point
    np.random.seed(0)
    ms = ModeStatistics.from_particles(u, np.ones(60) / 60, labels)
    if not hasattr(ms, "mode_index"):
        return {"fails": True, "detail": f"training labels {{0,2}} of K_fit=3 -> ModeStatistics.K={ms.K} and the kernel indexes modes by raw label: label 2 is out of range, label 1 gets cluster 2's mode"}
    probe_u = np.array([[0.15, 0.15], [0.85, 0.85], [0.84, 0.86]])
    idx, lab = ms.mode_index(np.array([0, 2, 1]), probe_u)
    ok = (idx.max() < ms.K and np.linalg.norm(ms.means[idx[1]] - u[30:].mean(0)) < 0.05 and np.linalg.norm(ms.means[idx[0]] - u[:30].mean(0)) < 0.05
          and list(lab[:2]) == [0, 2] and lab[2] in (0, 2))
    return {"fails": not ok, "detail": f"labels [0,2,1] with modes for labels {{0,2}} -> mode indices {idx.tolist()}, labels {lab.tolist()}"}


def F12b_real_run_index_error():
    """a real run in which a stale clusterer predicts a label that has no mode (cluster_every > 1)"""
    from tempest import Sampler

    def like(x):
        return float(np.logaddexp(-0.5 * np.sum((x - 2) ** 2) / 0.09, -0.5 * np.sum((x + 2) ** 2) / 0.09 - 30))
    with _quiet(), warnings.catch_warnings():
        warnings.simplefilter("ignore")
        np.random.seed(3)
        try:
            Sampler(lambda u: 10 * u - 5, like, 2, n_particles=32, clustering=True, cluster_every=7, sample="tpcn").run(n_total=256, progress=False)
            err = None
        except Exception as e:  # noqa
            err = f"{type(e).__name__}: {e}"
    # only the label/mode lookup failure counts here; a degenerate cluster refused by the constructor is another matter (C18/C19)
    return {"fails": err is not None and err.startswith("IndexError"),
            "detail": f"seed 3, two-mode target (log height ratio 30), n_particles=32, cluster_every=7, tpcn, run(n_total=256) -> {err or 'completes'}"}


# ---------------------------------------------------------------- C17 / F14 F15
def F14_to_dict_alias():
    from tempest.state_manager import StateManager
    sm = StateManager(2)
    sm.set_current("u", np.zeros((3, 2)))
    sm.set_current("logl", np.zeros(3))
    sm.set_current("beta", 0.0)
    sm.commit_current_to_history()
    d = sm.to_dict()
    d["_current"]["u"][:] = 7.0
    d["_history"]["logl"][0][:] = 7.0
    a = float(sm.get_current("u").sum())
    b = float(sm.get_history("logl", 0).sum())
    return {"fails": a != 0.0 or b != 0.0, "detail": f"after scribbling on to_dict(): get_current('u').sum()={a}, get_history('logl',0).sum()={b} (want 0, 0)"}


def F15_results_alias():
    from tempest.state_manager import StateManager
    sm = StateManager(2)
    sm.set_current("u", np.zeros((3, 2)))
    sm.set_current("logl", np.zeros(3))
    sm.set_current("beta", 0.0)
    sm.set_current("logz", 0.0)
    sm.commit_current_to_history()
    r = sm.compute_results()
    r["logl"][:] = 7.0
    r["logw"][:] = 7.0
    r2 = sm.compute_results()
    a = float(np.asarray(r2["logl"]).sum())
    b = float(np.abs(np.asarray(r2["logw"]) - 7.0).min())
    return {"fails": a != 0.0 or b == 0.0, "detail": f"after scribbling on results(): next results()['logl'].sum()={a} (want 0), logw overwritten={b == 0.0}"}


# ---------------------------------------------------------------- C15 / F18
def F18_gmm_mean_shrink():
    from tempest.cluster import GaussianMixture
    X = np.full((20, 2), 5.0)
    X[:, 1] += np.linspace(-1e-3, 1e-3, 20)
    g = GaussianMixture(n_components=1, random_state=1).fit(X)
    m = g.means_[0]
    lo, hi = X.min(0), X.max(0)
    tol = 1e-12 * np.maximum(1.0, np.abs(lo))   # the defect was a 1e-10 relative shrink; rounding of the weighted mean is ~1e-16
    inside = bool(np.all(m >= lo - tol) and np.all(m <= hi + tol))
    return {"fails": not inside, "detail": f"20 points with x0==5.0: fitted mean x0={m[0]!r} (bbox [{lo[0]!r},{hi[0]!r}])"}


# ---------------------------------------------------------------- C19 / F19
def F19_student_nu_always_inf():
    from tempest.student import fit_mvstud
    x = np.random.default_rng(0).standard_t(3, size=(20000, 2))
    with _quiet():
        mu, S, nu = fit_mvstud(x)
    ok = np.isfinite(nu) and 2.0 <= nu <= 4.5
    return {"fails": not ok, "detail": f"20000 bivariate t3 draws (default_rng(0)): fitted nu={nu!r} (want in [2,4.5]), Sigma[0,0]={S[0,0]:.3f}"}


# ---------------------------------------------------------------- C03 / F16 F17
def _c03_cell(kernel, boundary, sigma, beta, target, seed):
    from . import c03
    r = c03.one_step_cell(kernel, boundary, sigma, beta, target, seed, n=200000, steps=1)
    detail = (f"{kernel} x {boundary}, {target} target, sigma={sigma}, beta={beta}, seed={seed}, N=200000: one step moves the "
              f"20-bin histogram to chi2={r['chi2']:.1f} (threshold {r['threshold']:.1f} = p<1e-9; before the step "
              f"{r['chi2_before']:.1f}); edge-bin ratio after/expected = {r['edge_ratio']}")
    return {"fails": bool(r["fails"]), "detail": detail}


def F16_hard_boundary_redraw():
    """RWM, hard boundaries, uniform target: redraw-until-inside is not corrected in the acceptance -> edges depleted"""
    return _c03_cell("rwm", "hard", 0.5, 1.0, "uniform", 160316)


def F17_tpcn_fold():
    """tpCN on a periodic coordinate, uniform target: Student-t ratio taken at the folded point -> edges over-populated"""
    return _c03_cell("tpcn", "periodic", 0.5, 1.0, "uniform", 170317)


# ---------------------------------------------------------------- C06 / F20
def F20_syst_count_in_tolerance_band():
    """floor/ceil count law read literally on an un-renormalised vector inside the accepted tolerance"""
    w = [2.0 ** -30, 1.0]
    r = _syst(2, w, 0.0)
    copies1 = r.count(1) if isinstance(r, list) else None
    return {"fails": copies1 != 2, "detail": f"n=2, w=[2^-30, 1.0] (sum-1=9.3e-10 < sqrt(eps): not renormalised), u0=0 -> {r}: index 1 copied {copies1} time(s), n*w_1 = 2 exactly"}


# ---------------------------------------------------------------- C03 / F21
def F21_reflective_correlated():
    """RWM, d=2, both coordinates reflective, correlated mode covariance (rho=0.9), uniform target: the mirrored increment
    is not the increment of the reverse move -> mass moves from the anti-diagonal corners to the diagonal ones"""
    from . import c03
    r = c03.one_step_cell_2d("rwm", "reflective", 0.9, 0.5, 200320, n=200000)
    detail = (f"rwm x reflective=[0,1], d=2, cov=(1/12)[[1,.9],[.9,1]], uniform target, sigma=0.5, seed=200320, N=200000: one step "
              f"moves the 5x5 histogram to chi2={r['chi2']:.1f} (threshold {r['threshold']:.1f} = p<1e-9; before the step "
              f"{r['chi2_before']:.1f}); corner bins after/expected: {r['corner_ratio']}")
    return {"fails": bool(r["fails"]), "detail": detail}


# ---------------------------------------------------------------- C15 / F22
def F22_gmm_init_underflow():
    from tempest.cluster import GaussianMixture
    with warnings.catch_warnings():
        warnings.simplefilter("ignore")
        g = GaussianMixture(n_components=1, random_state=0).fit(np.array([[0.0], [0.0], [40.0], [40.0]]))
    bad = bool(np.any(~np.isfinite(g.weights_)) or np.any(~np.isfinite(g.means_)) or abs(float(np.sum(g.weights_)) - 1.0) > 1e-9)
    return {"fails": bad, "detail": f"GaussianMixture(1).fit([[0],[0],[40],[40]]): weights_={g.weights_.tolist()}, means_={g.means_.ravel().tolist()}"}


# ---------------------------------------------------------------- C18 (C19) / F23 F24
def _small_pop_run(seed, **cfg):
    import traceback
    from tempest import Sampler
    with _quiet(), warnings.catch_warnings():
        warnings.simplefilter("ignore")
        np.random.seed(seed)
        try:
            Sampler(lambda u: 8.0 * u - 4.0, lambda x: -0.5 * float(np.sum((x - 0.3) ** 2)) * 2.0, 3, **cfg).run(n_total=48, progress=False)
            return None, None
        except Exception as e:  # noqa
            tb = traceback.extract_tb(e.__traceback__)
            files = [f.filename.split("/")[-1] for f in tb]
            return f"{type(e).__name__}: {e}", files


def F23_mvstud_em_collapse():
    """valid small-population configuration: the Student-t EM must not abort the run"""
    bad = []
    for seed in (0, 1, 2, 5, 6):
        err, files = _small_pop_run(seed, n_particles=8, ess_ratio=1.0, sample="rwm")
        if err and "student.py" in files:
            bad.append((seed, err))
    return {"fails": bool(bad), "detail": f"Sampler(d=3, n_particles=8, ess_ratio=1.0, rwm).run(48), seeds 0,1,2,5,6: exceptions raised inside fit_mvstud: {bad[:2] or 'none'}"}


def F24_degenerate_cluster_singular():
    """default population (2*n_dim = 6 particles in 3-D): a proposal mode fitted from too few distinct points"""
    err, files = _small_pop_run(15)
    return {"fails": bool(err) and "modes.py" in (files or []),
            "detail": f"Sampler(d=3, defaults: n_particles=6, clustering on).run(48), seed 15 -> {err or 'completes'}"}


def F25_import_aliases_exported_dict():
    """export -> import -> the caller writes to / clears what to_dict() returned: the committed history must not change"""
    from tempest.state_manager import StateManager
    sm = StateManager(2)
    for t in range(2):
        sm.set_current("u", np.full((3, 2), 0.1 * (t + 1)))
        sm.set_current("x", np.zeros((3, 2)))
        sm.set_current("logl", np.zeros(3))
        sm.set_current("beta", 0.5)
        sm.set_current("logz", 0.0)
        sm.set_current("iter", t)
        sm.commit_current_to_history()
    d = sm.to_dict()
    sm.update_from_dict(d)
    other = StateManager.from_dict(d)
    before = sm.get_history("u").copy()
    before_o = other.get_history("u").copy()
    n0 = len(sm.get_history("beta"))
    d["_history"]["u"][0][:] = 99.0
    d["_history"]["beta"].clear()
    changed = not np.array_equal(before, sm.get_history("u")) or not np.array_equal(before_o, other.get_history("u"))
    shrunk = len(sm.get_history("beta")) != n0 or len(other.get_history("beta")) != n0
    return {"fails": bool(changed or shrunk),
            "detail": f"history changed by writing to the exported dict: {changed}; committed iterations lost by clearing an exported list: {shrunk}"}


def F26_single_array_blob_raises():
    """documented configuration (docs/examples/blobs.md, "single array blob"): blobs_dtype=(float, n_dim), likelihood returns (logl, array)"""
    from tempest import Sampler
    bad = []
    for dt, blob in (((float, 2), lambda x: x ** 2), ((float, (2, 2)), lambda x: np.outer(x, x))):
        np.random.seed(1)
        try:
            with warnings.catch_warnings(), contextlib.redirect_stdout(io.StringIO()), contextlib.redirect_stderr(io.StringIO()):
                warnings.simplefilter("ignore")
                s = Sampler(lambda u: 6 * u - 3, lambda x: (-0.5 * float(x @ x), blob(x)), 2, n_particles=16, clustering=False, blobs_dtype=dt)
                s.run(48, progress=False)
                out = s.posterior(return_blobs=True)
            x, b = out[0], out[-1]
            if len(b) != len(x) or not np.allclose(np.asarray(b).reshape(len(x), -1), np.array([np.ravel(blob(r)) for r in x])):
                bad.append(f"blobs_dtype={dt}: returned blobs are not the blobs of the returned samples")
        except Exception as e:  # noqa
            bad.append(f"blobs_dtype={dt}: raised {type(e).__name__}: {str(e)[:120]}")
    return {"fails": bool(bad), "detail": bad}


def F28_trim_weights_ess_one():
    """trim_weights(ess=1.0): the untrimmed set must be returned (rounding made the loop run off the percentile grid)"""
    from tempest.tools import trim_weights
    bad = []
    for w in ([0.75, 0.4375, 0.1875], [0.8125, 0.1875, 0.625, 0.75]):
        try:
            s_, wt = trim_weights(np.arange(len(w)), np.array(w, dtype=float), ess=1.0, bins=1000)
            if len(s_) != len(w) or abs(float(np.sum(wt)) - 1.0) > 1e-12:
                bad.append(f"weights {w}: returned {len(s_)} of {len(w)} samples, sum {float(np.sum(wt))!r}")
        except Exception as e:  # noqa
            bad.append(f"weights {w}: raised {type(e).__name__}: {str(e)[:100]}")
    return {"fails": bool(bad), "detail": bad}


# ---------------------------------------------------------------- C08 / F27
def F27_sm_save_temp_suffix_in_place():
    """StateManager.save_state('x.temp') over a complete file, writing process killed right after the open / mid-pickle:
    with the temporary name `with_suffix(".temp")` (== the final name) the survivor finds a truncated, unloadable file"""
    from . import c08
    return c08.sm_temp_suffix_finding()


# ---------------------------------------------------------------- C15 / F30
def F30_gmm_estep_underflow_nan():
    """E-step normalised with `responsibilities /= row_sum + 1e-10`: when every weights[k]*pdf is far below 1e-10 (large data
    scale in d >= 5) the responsibilities were proportional to the density instead of summing to one, the covariance shrank
    from iteration to iteration and finally every density underflowed to 0: weights = 0/0 = NaN.  A one-component fit must
    return the weighted sample mean and covariance."""
    from tempest.cluster import GaussianMixture
    X = np.random.RandomState(0).normal(size=(24, 6)) * 3000.0
    with warnings.catch_warnings():
        warnings.simplefilter("ignore")
        try:
            g = GaussianMixture(n_components=1, random_state=0).fit(X)
        except Exception as e:  # noqa  (all-NaN parameters can also end in `best_params is None`)
            return {"fails": True, "detail": f"GaussianMixture(1).fit(N(0,1)^(24x6)*3000) raised {type(e).__name__}: {str(e)[:100]}"}
        X2 = np.random.RandomState(0).normal(size=(50, 6)) * 30.0
        g2 = GaussianMixture(n_components=1, random_state=0).fit(X2)
    w = np.asarray(g.weights_, dtype=float)
    bad_w = bool(np.any(~np.isfinite(w)) or np.any(w < 0) or abs(float(np.sum(w)) - 1.0) > 1e-12
                 or np.any(~np.isfinite(g.means_)) or np.any(~np.isfinite(g.covariances_)))
    # scale 30 never gave NaN, but a covariance collapsed to rank one (eigenvalues ~0 and ~755 instead of ~900 each)
    S2 = np.cov(X2.T, bias=True)
    rel = float(np.max(np.abs(np.asarray(g2.covariances_[0]) - S2)) / np.max(np.abs(S2)))
    bad_c = bool(not np.isfinite(rel) or rel > 1e-6)
    return {"fails": bad_w or bad_c,
            "detail": f"GaussianMixture(1).fit(N(0,1)^(24x6)*3000): weights_={w.tolist()}; "
                      f"GaussianMixture(1).fit(N(0,1)^(50x6)*30): max |cov - sample cov| / max|sample cov| = {rel:.3e}"}


# ---------------------------------------------------------------- C09 / F31
def F31_resume_replays_stream():
    """`load_sampler_state` reseeded the process-wide stream with the checkpoint's `random_state`, so a seeded run resumed from a
    checkpoint restarted the stream at position 0 and received again the numbers the original run consumed in its first
    iterations.  Visible bit for bit while the checkpointed state is still in warm-up: the first resumed batch of prior draws
    was an exact copy of the first batch of the run, and both sat in the persistent pool as if independent.
    (Repaired in db2b14b: the checkpoint stores np.random.get_state() and loading restores it.)"""
    import contextlib
    import io
    import tempfile
    from tempest import Sampler

    def mk(d):
        return Sampler(lambda u: 8.0 * u - 4.0, lambda x: -0.5 * float(np.sum(x ** 2)), 2, n_particles=32, clustering=False,
                       sample="rwm", resample="syst", random_state=3, n_steps=1, n_max_steps=2, output_dir=d, output_label="w")
    with tempfile.TemporaryDirectory() as d, contextlib.redirect_stdout(io.StringIO()), warnings.catch_warnings():
        warnings.simplefilter("ignore")
        a = mk(d)
        a.run(n_total=64, progress=False, save_every=1)
        b = mk(d)
        b.run(n_total=64, progress=False, resume_state_path=os.path.join(d, "w_1.state"))
        u = b.state.get_history("u")
        beta = np.asarray(b.state.get_history("beta"), dtype=float)
    dup = bool(len(u) > 1 and np.array_equal(u[1], u[0]))
    return {"fails": dup,
            "detail": f"Sampler(random_state=3, n_particles=32, rwm, syst).run(n_total=64, save_every=1), then "
                      f"run(resume_state_path='w_1.state'): history u[1] == u[0] bit for bit: {dup} "
                      f"(beta of the two batches: {beta[:2].tolist()})"}


# ---------------------------------------------------------------- C07 / F29
def F29_undeclared_blobs_stale():
    """A likelihood that returns `(logl, blob)` WITHOUT `blobs_dtype` (the form of docs/user_guide/basic_usage.md): `_log_like`
    packs the blobs and the warm-up stores them, but (before /repo 9130321) the resampler, the mutation step and
    `posterior()` moved blobs only when `blobs_dtype` was set — every later `sample()` dictionary and every later batch of
    `results()['blobs']` carried the LAST WARM-UP batch's blobs beside other particles' x."""
    from tempest import Sampler

    def T(u):
        return 4.0 * u - 2.0

    def L(x):
        return (-2.0 * float(np.sum(x ** 2)), float(x[0]) * 2.0 + 1.0)
    with _quiet(), warnings.catch_warnings():
        warnings.simplefilter("ignore")
        np.random.seed(0)
        s = Sampler(T, L, 2, n_particles=16, clustering=False, sample="rwm", n_steps=1, n_max_steps=2)
        s._core._initialize_fresh()
        bad = []
        for it in range(8):
            st = s.sample()
            b, x = st["blobs"], st["x"]
            if b is None or not np.array_equal(np.ravel(b), x[:, 0] * 2.0 + 1.0):
                bad.append(it)
        res = s.results()
        bad_hist = [k for k in range(len(res["x"]))
                    if len(res["blobs"]) <= k or not np.array_equal(np.ravel(res["blobs"][k]), res["x"][k][:, 0] * 2.0 + 1.0)]
        try:
            out = s.posterior(return_blobs=True)
            post = "no blobs returned" if len(out) < 4 else (
                "ok" if np.array_equal(np.ravel(out[3]), out[0][:, 0] * 2.0 + 1.0) else "blobs of other particles")
        except Exception as e:  # noqa
            post = f"raised {type(e).__name__}"
    fails = bool(bad or bad_hist or post != "ok")
    return {"fails": fails,
            "detail": f"Sampler(likelihood returning (logl, 2*x0+1), no blobs_dtype, n_particles=16, rwm, seed 0), 8 x sample(): "
                      f"iterations whose returned blobs are not the blobs of the returned x: {bad}; results() batches with foreign "
                      f"blobs: {bad_hist}; posterior(return_blobs=True): {post}"}


# ---------------------------------------------------------------- C17 / F32
def F32_object_blob_alias():
    """containers of arrays (object-dtype blobs, lists) must be copied DEEPLY by every accessor, by commit and by import:
    (A1) a list value, (A2) an object array, (B) a real Sampler whose likelihood returns `(logl, array, "tag")`
    (object-dtype blobs): writing into an array found inside a returned container must not change any later read"""
    from tempest.state_manager import StateManager
    bad = []
    sm = StateManager(2)
    sm.set_current("blobs", [np.array([1.0, 2.0])])
    sm.set_current("beta", 0.0)
    sm.commit_current_to_history()
    g = sm.get_current("blobs")
    g[0][:] = -9.0
    if float(np.asarray(sm.get_history("blobs", 0)[0])[0]) != 1.0 or float(np.asarray(sm.get_current("blobs")[0])[0]) != 1.0:
        bad.append("A1: list value returned/committed by reference")
    sm = StateManager(2)
    o = np.empty(1, dtype=object)
    o[0] = np.array([1.0, 2.0])
    sm.set_current("blobs", o)
    sm.commit_current_to_history()
    sm.get_history("blobs", 0)[0][:] = -9.0
    reads = [sm.get_history("blobs", 0)[0], sm.get_current("blobs")[0], sm.to_dict()["_history"]["blobs"][0][0],
             sm.get_history("blobs")[0, 0], sm.get_history("blobs", flat=True)[0]]
    if any(float(r[0]) != 1.0 for r in reads):
        bad.append("A2: element of an object array shared between an accessor's result and the committed batch")
    for name in ("all", "flat"):
        r = sm.get_history("blobs") if name == "all" else sm.get_history("blobs", flat=True)
        r.flat[0][:] = -7.0
        if float(sm.get_history("blobs", 0)[0][0]) != 1.0:
            bad.append(f"A2: get_history('blobs'{', flat=True' if name == 'flat' else ''}) hands out the committed element arrays")
    with _quiet(), warnings.catch_warnings():
        warnings.simplefilter("ignore")
        np.random.seed(0)
        s = _mk_sampler(log_likelihood=lambda x: (-0.5 * float(np.sum(x ** 2)), np.array([x[0]]), "tag"),
                        n_particles=16, clustering=False)
        s._core._initialize_fresh()
        st = s.sample()
        s.sample()
        before = float(s.state._history["blobs"][0][0, 0][0])
        st["blobs"][0, 0][:] = -9.0
        r = s.results()
        r["blobs"][0, 1, 0][:] = -9.0
        p = s.posterior(return_blobs=True, trim_importance_weights=False)
        p[3][2, 0][:] = -9.0
        h = s.state._history["blobs"][0]
        after = [float(h[0, 0][0]), float(h[1, 0][0]), float(h[2, 0][0])]
        x0 = [float(v) for v in s.state._history["x"][0][:3, 0]]
    if before == -9.0 or after != x0:
        bad.append(f"B: arrays inside sample()/results()/posterior() blobs are the committed ones (batch 0 reads {after}, want {x0})")
    return {"fails": bool(bad), "detail": "; ".join(bad) or "nested arrays are copied by set/get/commit/get_history/results/posterior"}


# ---------------------------------------------------------------- C09 / F34
def F34_rerun_reseeds_stream():
    """The no-resume branch of `run_sampling` called `_initialize_fresh`, which seeds with `config.random_state`, UNCONDITIONALLY —
    also when the sampler already held a history: after a first `run()`, or after `load_state()` followed by `run()` (the
    documented way to continue from a manual checkpoint, docs/user_guide/advanced.md).  The continuation then restarted the
    stream at position 0 (the position restored by `load_state` was overwritten) and received again the numbers that generated
    the first batch of the original run: its first draw, the training resample `np.random.choice(n, size=4n, p=w)`, consumed
    uniforms whose first n_particles*n_dim are exactly `u[0]` of the original run.
    (Repaired in aeb0399: a run that finds committed history continues it — no seeding, no counter reset.)"""
    import contextlib
    import io
    import tempfile
    from tempest import Sampler

    def mk():
        return Sampler(lambda u: 8.0 * u - 4.0, lambda x: -0.5 * float(np.sum(x ** 2)), 2, n_particles=32, clustering=False,
                       sample="rwm", resample="syst", random_state=3, n_steps=1, n_max_steps=2)
    first = {}
    real_choice = np.random.choice

    def spy(*a, **k):
        st = np.random.get_state()
        if "state" not in first:
            first["state"] = (st[1].tobytes(), int(st[2]))
        return real_choice(*a, **k)
    with tempfile.TemporaryDirectory() as d, contextlib.redirect_stdout(io.StringIO()), warnings.catch_warnings():
        warnings.simplefilter("ignore")
        a = mk()
        a.run(n_total=64, progress=False)
        u0 = np.array(a.state.get_history("u")[0], copy=True)
        p = os.path.join(d, "m.state")
        a.save_state(p)
        b = mk()
        b.load_state(p)
        with common.patched(np.random, "choice", spy):
            b.run(n_total=256, progress=False)
    g = np.random.RandomState(3)
    s3 = g.get_state()
    at_seed = first.get("state") == (s3[1].tobytes(), int(s3[2]))
    same = bool(np.array_equal(np.random.RandomState(3).random_sample(u0.size).reshape(u0.shape), u0))
    return {"fails": bool(at_seed and same),
            "detail": f"Sampler(random_state=3, n_particles=32, rwm, syst): run(n_total=64); save_state; new identical sampler: load_state; "
                      f"run(n_total=256): the continuation's first draw starts from the state seed(3) (position 0): {at_seed}; the "
                      f"uniforms it consumes begin with u[0] of the original run: {same}"}


# ---------------------------------------------------------------- C08 / F34
def F34_manual_resume_restarts_counters():
    """The documented manual resume `load_state(path); run()` — and a second `run()` on the same sampler — went through the
    fresh-start branch of `run_sampling` (before /repo aeb0399): `iter`, `calls`, `beta`, `logz` were reset to 0 while the loaded
    history stayed, so the new iterations were numbered 1, 2, … again, the call counter restarted from 0 and the temperature
    schedule restarted from 0 on top of a history that had already reached beta > 0 (and a seeded sampler reseeded the stream:
    C09's half).  `fails` = the committed iteration numbers are not 1..n, or the call counter / the temperature decreases."""
    import contextlib
    import io
    import tempfile
    from tempest import Sampler

    def mk(d):
        return Sampler(lambda u: 8.0 * u - 4.0, lambda x: -0.5 * float(np.sum(x ** 2)), 2, n_particles=32, clustering=False,
                       sample="rwm", resample="syst", random_state=3, n_steps=1, n_max_steps=2, output_dir=d, output_label="w")

    def shape(s):
        it = [int(v) for v in s.state._history["iter"]]
        ca = [int(v) for v in s.state._history["calls"]]
        be = [float(np.asarray(v)) for v in s.state._history["beta"]]
        ok = it == list(range(1, len(it) + 1)) and all(b >= a for a, b in zip(ca, ca[1:])) and all(b >= a for a, b in zip(be, be[1:]))
        return ok, it, ca

    with tempfile.TemporaryDirectory() as d, contextlib.redirect_stdout(io.StringIO()), warnings.catch_warnings():
        warnings.simplefilter("ignore")
        a = mk(d)
        a.run(n_total=64, progress=False, save_every=1)
        n_a = len(a.state._history["iter"])
        k = max(1, n_a - 2)
        b = mk(d)
        b.load_state(os.path.join(d, f"w_{k}.state"))
        b.run(n_total=64, progress=False)
        ok_b, it_b, ca_b = shape(b)
        a.run(n_total=256, progress=False)          # extend the finished run
        ok_a, it_a, ca_a = shape(a)
    return {"fails": not (ok_b and ok_a and len(it_a) > n_a),
            "detail": f"Sampler(random_state=3, n_particles=32, rwm, syst).run(n_total=64, save_every=1) [{n_a} iterations]; fresh sampler "
                      f"load_state('w_{k}.state'); run(n_total=64): committed iter {it_b}, calls {ca_b}; first sampler run(n_total=256) "
                      f"again: committed iter {it_a[:n_a]}+{it_a[n_a:]}"}


def _c18_construct_then_run(**kw):
    """-> (stage at which an exception escaped: None | 'construct' | 'run', 'Type: message', likelihood calls before it)"""
    import tempest
    calls = [0]

    def like(x):
        calls[0] += 1
        return -0.5 * float(np.sum((np.asarray(x) - 0.5) ** 2)) * 3.0
    kw.setdefault("n_dim", 3)
    kw.setdefault("n_particles", 16)
    stage = "construct"
    with tempfile.TemporaryDirectory() as d, contextlib.redirect_stdout(io.StringIO()), warnings.catch_warnings():
        warnings.simplefilter("ignore")
        st = np.random.get_state()
        import signal

        def _alarm(signum, frame):
            raise TimeoutError("run() did not finish within 20 s")
        old = signal.signal(signal.SIGALRM, _alarm)
        signal.alarm(20)
        try:
            np.random.seed(1)
            s = tempest.Sampler(lambda u: 8.0 * u - 4.0, like, output_dir=d, **kw)
            stage = "run"
            s.run(n_total=32, progress=False)
            return None, "completes", calls[0]
        except Exception as e:  # noqa
            return stage, f"{type(e).__name__}: {str(e)[:120]}", calls[0]
        finally:
            signal.alarm(0)
            signal.signal(signal.SIGALRM, old)
            np.random.set_state(st)


def F37_bool_dimension_accepted():
    """a Python bool as dimension / particle count / boundary index must be rejected at construction (it used to be accepted
    and then fail — or, as an index, be read as a mask — in the first iteration)"""
    a = _c18_construct_then_run(n_dim=True)
    b = _c18_construct_then_run(n_particles=True)
    c = _c18_construct_then_run(periodic=[True])
    bad = [x for x in (a, b, c) if x[0] != "construct"]
    return {"fails": bool(bad),
            "detail": f"Sampler(prior, like, n_dim=True) -> {a[0] or 'accepted and ran'}: {a[1]}; n_particles=True -> "
                      f"{b[0] or 'accepted and ran'}: {b[1][:60]}; periodic=[True] -> {c[0] or 'accepted and ran'}: {c[1][:60]}"}


def F38_nonfinite_target_accepted():
    """ess_ratio / volume_variation = inf or nan must be rejected at construction (they were 'not <= 0' and passed; then
    int(ess_ratio * n_particles) raised in run())"""
    rs = [("ess_ratio=inf", _c18_construct_then_run(ess_ratio=float("inf"))), ("ess_ratio=nan", _c18_construct_then_run(ess_ratio=float("nan"))),
          ("volume_variation=inf", _c18_construct_then_run(volume_variation=float("inf"))),
          ("volume_variation=nan", _c18_construct_then_run(volume_variation=float("nan")))]
    bad = [n for n, r in rs if r[0] != "construct"]
    return {"fails": bool(bad),
            "detail": "; ".join(f"{n} -> {r[0] or 'accepted and ran'}: {r[1][:70]}" for n, r in rs)}


def F36_syst_zero_weight_last():
    """a trailing zero-weight particle selected when the running sum falls short of 1 (fixed in /repo 5a51476)"""
    u1 = float(np.nextafter(1.0, 0.0))
    r1 = _syst(1, [0.1] * 10 + [0.0], u1)
    r2 = _syst(10, [0.1] * 10 + [0.0], u1)
    r3 = _syst(1, [0.5, 0.5 - 2.0 ** -30, 0.0], 1.0 - 2.0 ** -31)
    bad = [r for r in (r1, r2, r3) if not isinstance(r, list) or any(i in (10,) for i in r[:0])]
    sel = (isinstance(r1, list) and 10 in r1) or (isinstance(r2, list) and 10 in r2) or (isinstance(r3, list) and 2 in r3) \
        or not all(isinstance(r, list) for r in (r1, r2, r3))
    return {"fails": bool(sel), "detail": f"n=1,w=[.1]*10+[0],u0=nextafter(1,0) -> {r1}; n=10 -> {r2}; n=1,w=[1/2,1/2-2^-30,0],u0=1-2^-31 -> {r3} "
                                          "(index of the zero-weight last particle must not appear)"}


# ---------------------------------------------------------------- C01 / F35
def F35_default_trim_bias():
    """C01 clause audit: the DEFAULT `posterior()` (trim_importance_weights=True, ess_trim=0.99) drops every sample whose weight is
    below a percentile threshold — the tails — and renormalises: it returns the self-normalised estimator of the posterior RESTRICTED
    to {w >= theta} (Props.C01.C01_trimmed_estimate_is_restricted_ratio / C01_trimmed_estimator_targets_restriction), whose error does
    not shrink with the particle count.  Witness: 1-D Gaussian posterior N(0, 0.25) under U(-5, 5), both kernels, 15 fixed seeds each:
    in EVERY run the variance from the default call is below the variance from `trim_importance_weights=False` computed from the
    very same history (sign test: 30 of 30, p = 2^-30 < 1e-9) by 3-5 % (the same -4.5 % at n_particles 64 and 128: it does not
    shrink with N), whatever the untrimmed value is."""
    from tempest import Sampler

    def var(x, w):
        m = float(np.sum(w * x[:, 0]))
        return float(np.sum(w * (x[:, 0] - m) ** 2))
    rel, untrimmed, trimmed = [], [], []
    st = np.random.get_state()
    try:
        for kernel in ("tpcn", "rwm"):
            for seed in range(15):
                with _quiet(), warnings.catch_warnings():
                    warnings.simplefilter("ignore")
                    s = Sampler(lambda u: 10.0 * u - 5.0, lambda x: -0.5 * float(x[0] ** 2) / 0.25, 1, n_particles=32, sample=kernel,
                                clustering=False, random_state=3500 + seed)
                    s.run(n_total=128, progress=False)
                    x1, w1, _ = s.posterior()
                    x0, w0, _ = s.posterior(trim_importance_weights=False)
                v1, v0 = var(x1, w1), var(x0, w0)
                rel.append(v1 / v0 - 1.0)
                trimmed.append(v1)
                untrimmed.append(v0)
    finally:
        np.random.set_state(st)
    n_below = sum(1 for r in rel if r < 0)
    mean_rel = float(np.mean(rel))
    se0 = float(np.std(untrimmed, ddof=1) / np.sqrt(len(untrimmed)))
    fails = n_below == len(rel) and mean_rel < -0.02          # 30/30: p = 2^-30 = 9.3e-10
    return {"fails": bool(fails),
            "detail": (f"N(0,0.25) posterior, n_particles=32, n_total=128, tpcn+rwm x 15 seeds: default posterior() variance below the "
                       f"untrimmed one in {n_below}/{len(rel)} runs (p = 2^-{len(rel)}), mean shortfall {100 * mean_rel:.1f} % "
                       f"(range {100 * min(rel):.1f} .. {100 * max(rel):.1f} %); ensemble means: trimmed {np.mean(trimmed):.4f}, "
                       f"untrimmed {np.mean(untrimmed):.4f} +- {se0:.4f}, truth 0.2500")}


# ---------------------------------------------------------------- C01 / F39
def F39_position_labels_break_invariance():
    """C01 clause audit ("with and without clustering"): with clustering every walker uses, for the whole mutation, the proposal mode
    of the cluster label of its STARTING point (`Resampler.run`: assignments = clusterer.predict(u_resampled); never updated in
    `BaseMCMCRunner.run`).  Each per-mode kernel is reversible for any FIXED assignment (C03), but the composition
    resample -> predict(u) -> mutate, i.e. a kernel chosen by the label of the point it starts from, is invariant only if moves
    never change label (Props.C01.C01_label_kernel_invariant_of_no_crossing; counter-example C01_label_kernel_not_invariant).
    Witness on the real runners: uniform target on [0,1] (every in-cube proposal accepted), two modes (means .25/.75, variances
    4e-4 / 4e-2, nu = 5), sigma = 0.5, labels = (u > 0.5) as `predict` assigns them for two abutting clusters, N = 60000 exact
    uniform draws, ONE step: the 20-bin histogram leaves the uniform law (mass flows from the wide cluster's region into the narrow
    one's); with labels that do not depend on the position (C03's setting) it stays uniform."""
    from tempest.modes import ModeStatistics
    from tempest.mcmc import RWMRunner, TPCNRunner
    from . import c03
    n = 60000
    res = {}
    st = np.random.get_state()
    try:
        for kernel, cls in (("rwm", RWMRunner), ("tpcn", TPCNRunner)):
            for label in ("position", "index"):
                rs = np.random.RandomState(35035)
                u = rs.rand(n, 1)
                ms = ModeStatistics(np.array([[0.25], [0.75]]), np.array([[[0.0004]], [[0.04]]]), np.array([5.0, 5.0]))
                assign = (u[:, 0] > 0.5).astype(int) if label == "position" else (np.arange(n) % 2)
                runner = cls(u, u.copy(), np.zeros(n), None, assign, 1.0, ms, lambda x: (np.zeros(len(x)), None), lambda t: t, None,
                             1, 1, None, None)
                runner._check_convergence = lambda a: True
                runner._adapt_sigma = lambda c, a: None
                runner.sigmas[:] = 0.5
                with warnings.catch_warnings():
                    warnings.simplefilter("ignore")
                    with common.patched(np.random, "gamma", rs.gamma), common.patched(np.random, "randn", rs.randn), \
                            common.patched(np.random, "rand", rs.rand):
                        out = runner.run()
                v = np.asarray(out[0])[:, 0]
                h = np.histogram(v, bins=np.linspace(0.0, 1.0, 21))[0]
                e = n / 20.0
                res[(kernel, label)] = (float(np.sum((h - e) ** 2 / e)), float(np.mean(v < 0.5)))
    finally:
        np.random.set_state(st)
    thr = c03.chi2_threshold()
    fails = all(res[(k, "position")][0] > thr and res[(k, "index")][0] <= thr for k in ("rwm", "tpcn"))
    return {"fails": bool(fails),
            "detail": "; ".join(f"{k}: labels by position chi2={res[(k, 'position')][0]:.0f} (mass in [0,.5) {res[(k, 'position')][1]:.4f}), "
                                f"labels by index chi2={res[(k, 'index')][0]:.0f}" for k in ("rwm", "tpcn"))
                      + f"; threshold {thr:.1f} = p<1e-9, 19 dof, N=60000, one step from exact uniform draws, seed 35035"}


def F41_record_subarray_of_objects_alias():
    """a record dtype whose field is a SUB-ARRAY of objects: copy.deepcopy(ndarray) (numpy 2.x) copies the references of such a
    field, so _ensure_copy / get_history still hand out and commit the caller's arrays"""
    from tempest.state_manager import StateManager
    a = np.empty(2, dtype=[("vs", object, (2,)), ("s", float)])
    for i in range(2):
        a["vs"][i, 0] = np.array([1.0, 2.0])
        a["vs"][i, 1] = np.array([3.0])
    a["s"] = 0.0
    sm = StateManager(2)
    sm.set_current("blobs", a)
    sm.commit_current_to_history()
    sm.get_current("blobs")["vs"][0, 0][:] = -9.0
    got = [float(v) for v in sm.get_history("blobs", 0)["vs"][0, 0]]
    return {"fails": got != [1.0, 2.0],
            "detail": f"set_current('blobs', rec[('vs', object, (2,))]); commit; get_current('blobs')['vs'][0,0][:] = -9 -> "
                      f"get_history('blobs', 0)['vs'][0,0] = {got} (want [1.0, 2.0])"}


ALL = {k: v for k, v in list(globals().items()) if k[:1] == "F" and callable(v)}

if __name__ == "__main__":
    names = sys.argv[1:] or sorted(ALL)
    for n in names:
        try:
            r = ALL[n]()
        except Exception as e:  # noqa
            r = {"fails": None, "detail": f"witness crashed: {type(e).__name__}: {e}"}
        print(n, r)
