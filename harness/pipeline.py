"""Whole-pipeline trace recording (shared by C01, C02, C10).

A real `Sampler` (clustering off, ESS mode, no blobs) is run with its randomness observed:
  * prior draws (`np.random.rand(n, d)` in Mutator.run), their log-likelihoods, the -inf replacement picks,
  * the resampling uniforms (systematic offset; multinomial: `np.random.choice` is replaced by numpy's own legacy
    algorithm written out — cumsum, normalise, searchsorted(side='right') on `random_sample(n)` — so the uniforms are visible),
  * per accept/reject step the proposals, their log-likelihoods, the Hastings log-factors and the Metropolis uniforms.
Every particle gets a TAG (an integer naming its (u, x) record); the model (lean/TempestVerif/Model/Pipeline.lean, run through
`pipe.F`) consumes the same tape and must reproduce beta, ESS, logZ, resampled indices, accept masks and the committed batches.
"""
import contextlib
import io
import sys
import warnings

import numpy as np

from . import common
from .common import f2hex


def _quiet():
    return contextlib.redirect_stdout(io.StringIO())


class Recorder:
    def __init__(self, kernel, resample, n, d, like, prior, ess_ratio=2.0, n_steps=1, n_max_steps=2, periodic=None, reflective=None):
        from tempest import Sampler
        self.n, self.d = n, d
        self.kernel, self.resample = kernel, resample
        self.like_user = like
        self.s = Sampler(prior, like, d, n_particles=n, clustering=False, sample=kernel, resample=resample, ess_ratio=ess_ratio,
                         n_steps=n_steps, n_max_steps=n_max_steps, periodic=periodic, reflective=reflective)
        self.tag_u = {}          # tag -> u bytes
        self.next_tag = 0
        self.tapes = []          # model tape strings
        self.impl = []           # per-iteration impl record
        self.pool_tags = []      # tags of the flat pool

    def _new_tags(self, U):
        t = list(range(self.next_tag, self.next_tag + len(U)))
        self.next_tag += len(U)
        for k, u in zip(t, U):
            self.tag_u[k] = np.array(u, dtype=float).tobytes()
        return t

    def iteration(self):
        import tempest.mcmc as mcmc
        import tempest.steps.resample as rsm
        s, core = self.s, self.s._core
        rec = {"draw": None, "choice": [], "resU": None, "idx": None, "steps": [], "alphas": []}
        real_rand, real_random = np.random.rand, np.random.random
        real_sr = rsm.systematic_resample

        def rand(*shape):
            out = real_rand(*shape)
            fr = sys._getframe(1)
            if fr.f_code.co_name == "run" and fr.f_code.co_filename.endswith("mutate.py"):
                # after 959029e a batch without a finite draw is drawn again: the LAST block is the one that is stored
                rec["blocks"] = rec.get("blocks", 0) + 1
                rec["draw"] = out.copy()
            elif fr.f_code.co_name == "run" and fr.f_code.co_filename.endswith("mcmc.py"):
                rec["steps"][-1]["r"] = out.copy()
            return out

        def random(*a):
            out = real_random(*a)
            if sys._getframe(1).f_code.co_name == "systematic_resample":
                rec["resU"] = [float(out)]
            return out

        def choice(a, size=None, replace=True, p=None):
            a = np.asarray(a)
            if a.ndim == 0:
                a = np.arange(int(a))
            fr = sys._getframe(1)
            if p is None:
                # Mutator.run: np.random.choice(finite_idx, size=k): uniform picks; legacy algorithm = randint
                pick = np.random.randint(0, len(a), size=size)
                out = a[pick]
                rec["choice"].append([int(v) for v in out])
                return out
            us = np.random.random_sample(size)
            cdf = np.cumsum(p)
            cdf /= cdf[-1]
            idx = cdf.searchsorted(us, side="right")
            if fr.f_code.co_filename.endswith("resample.py"):
                rec["resU"] = [float(v) for v in us]
                rec["idx"] = [int(v) for v in idx]
            return a[idx]

        def spy_sr(size, weights=None, random_state=None):
            r = real_sr(size, weights=weights)
            rec["idx"] = [int(v) for v in r]
            return r

        real_cb = mcmc.check_bounds

        def spy_cb(u, periodic=None, reflective=None):
            out = real_cb(u, periodic, reflective)
            if getattr(u, "ndim", 1) == 2 and sys._getframe(1).f_code.co_name == "run":
                rec["pending_inb"] = np.atleast_1d(out).copy()
            return out

        def wrap_factor(orig):
            def f(self_, u_prime, logl_prime):
                out = orig(self_, u_prime, logl_prime)
                l = np.array(logl_prime, dtype=float)
                inb = rec.pop("pending_inb", None)
                if inb is not None:
                    # a proposal outside the prior cube has zero target density: on the tape it is a -inf proposal
                    l = np.where(inb, l, -np.inf)
                rec["steps"].append({"u": np.array(u_prime), "l": l, "f": np.array(out, dtype=float), "r": None})
                return out
            return f

        def wrap_pb(orig):
            def f(self_, alpha):
                rec["alphas"].append(np.array(alpha, dtype=float))
                return orig(self_, alpha)
            return f
        patches = [common.patched(np.random, "rand", rand), common.patched(np.random, "random", random),
                   common.patched(np.random, "choice", choice), common.patched(rsm, "systematic_resample", spy_sr),
                   common.patched(mcmc, "check_bounds", spy_cb),
                   common.patched(mcmc.TPCNRunner, "_compute_acceptance_factor", wrap_factor(mcmc.TPCNRunner._compute_acceptance_factor)),
                   common.patched(mcmc.RWMRunner, "_compute_acceptance_factor", wrap_factor(mcmc.RWMRunner._compute_acceptance_factor)),
                   common.patched(mcmc.BaseMCMCRunner, "_update_progress_bar", wrap_pb(mcmc.BaseMCMCRunner._update_progress_bar))]
        with contextlib.ExitStack() as st, _quiet(), warnings.catch_warnings():
            warnings.simplefilter("ignore")
            for p in patches:
                st.enter_context(p)
            # evidence written by the reweighting step: observe through the resampler hook
            logz_rw = {}
            orig_res = core.resampler.run

            def res_run(w):
                logz_rw["v"] = float(s.state.get_current("logz"))
                logz_rw["w"] = np.array(w, dtype=float)
                return orig_res(w)
            core.resampler.run = res_run
            try:
                cur = s.sample()
            finally:
                core.resampler.run = orig_res
        beta = float(cur["beta"])
        k = len(self.impl)
        if beta == 0.0:
            U = rec["draw"]
            tags = self._new_tags(U)
            X = np.array([self.s._core.config.prior_transform(u) for u in U])
            L = [float(self.like_user(x)) for x in X]       # pure likelihood: same values the sampler saw
            picks = rec["choice"][0] if rec["choice"] else []
            ls = ",".join("x" if not np.isfinite(v) else f2hex(v) for v in L)
            disc = (rec.get("blocks", 1) - 1) * self.n
            self.tapes.append(f"D/{','.join(map(str, tags))}/{ls}/{','.join(map(str, picks)) if picks else '-'}"
                              + (f"/{disc}" if disc else ""))
            masks = []
        else:
            steps_s = []
            masks = []
            for st_, al in zip(rec["steps"], rec["alphas"]):
                ptags = self._new_tags(st_["u"])
                ls = ",".join("x" if not np.isfinite(v) else f2hex(v) for v in st_["l"])
                steps_s.append(f"{','.join(map(str, ptags))}~{ls}~{','.join(f2hex(v) for v in st_['f'])}~{','.join(f2hex(v) for v in st_['r'])}")
                masks.append([bool(a) for a in (st_["r"] < al)])
                st_["margin"] = float(np.min(np.abs(st_["r"] - al)))
            self.tapes.append(f"A/{','.join(f2hex(v) for v in rec['resU'])}/{'+'.join(steps_s) if steps_s else '-'}")
        self.impl.append({"beta": beta, "ess": float(cur["ess"]), "logz_rw": logz_rw.get("v"), "logz": float(cur["logz"]),
                          "idx": rec["idx"] or [], "masks": masks, "weights": logz_rw.get("w"),
                          "margins": [st_.get("margin") for st_ in rec["steps"]] if beta != 0.0 else [],
                          "u": np.array(cur["u"]), "logl": np.array(cur["logl"], dtype=float)})
        return cur

    def model_line(self):
        from tempest.config import BETA_TOLERANCE, ESS_TOLERANCE
        c = self.s._core.config
        return (f"pipe.F ratio={f2hex(c.ess_ratio)} n={self.n} tolE={f2hex(ESS_TOLERANCE)} tolB={f2hex(BETA_TOLERANCE)} fuel=64 "
                f"syst={int(self.resample == 'syst')} tapes={'|'.join(self.tapes)}")


def close(a, b, tol=1e-9):
    if a == b:
        return True
    if not (np.isfinite(a) and np.isfinite(b)):
        return False
    return abs(a - b) <= tol * (1.0 + max(abs(a), abs(b)))


def compare(rec, answer):
    """returns (problem or None, near_tie: bool) comparing the model's answer with the recorded implementation trace"""
    from .common import hex2f
    if answer.startswith("error") or answer == "bad-op":
        return f"model left its domain: {answer}", False
    its, hs, ev = answer.split("#")
    its = its.split("|") if its else []
    if len(its) != len(rec.impl):
        return f"model ran {len(its)} iterations, implementation {len(rec.impl)}", False
    for k, (m, i) in enumerate(zip(its, rec.impl)):
        beta, ess, zrw, z, idx, masks, branch = m.split(";")
        beta, ess, zrw, z = hex2f(beta), hex2f(ess), hex2f(zrw), hex2f(z)
        if not close(beta, i["beta"]):
            return f"iteration {k + 1}: beta impl {i['beta']!r} model {beta!r} ({branch})", False
        if not close(ess, i["ess"], 1e-7):
            return f"iteration {k + 1}: ESS impl {i['ess']!r} model {ess!r}", False
        if i["logz_rw"] is not None and not close(zrw, i["logz_rw"]):
            return f"iteration {k + 1}: logz after reweighting impl {i['logz_rw']!r} model {zrw!r}", False
        if not close(z, i["logz"]):
            return f"iteration {k + 1}: committed logz impl {i['logz']!r} model {z!r}", False
        midx = [] if idx == "-" else [int(t) for t in idx.split(",")]
        if midx != i["idx"]:
            # near tie?  a position within 1e-9 of a cumulative sum of the weights the resampler received
            w = i["weights"]
            if w is not None and len(midx) == len(i["idx"]):
                cs = np.cumsum(w / np.sum(w))
                diff = [a for a, b in zip(midx, i["idx"]) if a != b]
                if len(diff) <= 2 and all(abs(a - b) == 1 for a, b in zip(midx, i["idx"]) if a != b):
                    return None, True
            return f"iteration {k + 1}: resampled indices differ (impl {i['idx'][:8]}…, model {midx[:8]}…)", False
        mm = [] if masks == "-" else [[c == "1" for c in s_] for s_ in masks.split("+")]
        if mm != i["masks"]:
            if i["margins"] and min(x for x in i["margins"] if x is not None) < 1e-9:
                return None, True
            return f"iteration {k + 1}: accept masks differ", False
    # committed batches: tags -> u bytes and logl bit for bit
    batches = hs.split("|") if hs else []
    st = rec.s.state
    if len(batches) != st.get_history_length():
        return f"model committed {len(batches)} batches, implementation {st.get_history_length()}", False
    for k, b in enumerate(batches):
        tg, ls = b.split("/")
        tags = [int(t) for t in tg.split(",")]
        lh = [hex2f(h) for h in ls.split(",")]
        U = st.get_history("u", k)
        Lh = st.get_history("logl", k)
        for j, t in enumerate(tags):
            if rec.tag_u[t] != np.array(U[j], dtype=float).tobytes():
                return f"batch {k + 1} particle {j}: stored u is not the record the model says (tag {t})", False
            if f2hex(lh[j]) != f2hex(float(Lh[j])):
                return f"batch {k + 1} particle {j}: stored logl {float(Lh[j])!r} != model {lh[j]!r}", False
    return None, False
