"""C09 — seeded runs are reproducible and the library never resets the global RNG."""
import contextlib
import io
import os
import sys
import warnings

import numpy as np

from . import common
from .common import Corr

ID = "C09"
LEAN_MODULES = ["TempestVerif.Props.C09"]
RULE = ("(a) call-site cross-check: sampler runs (clustering on/off, both kernels, both resamplers, a -inf prior region) and "
        "clustering fits with every numpy.random attribute wrapped; each observed (file, line) must be in the static RNG "
        "effect table G3. (b) seeded determinism predicted by the model (program = seedArg :: draws): the same random_state "
        "twice gives bit-identical history / weights / evidence, two different random_states differ — over the configuration "
        "lattice. (c) no-reset predicted by the model (program without seedLit is injective in the pre-state): for each "
        "library operation (GMM fit, HGMM fit, from_particles, one sampler iteration with clustering on/off, "
        "systematic_resample) and two different ambient seeds the first draws afterwards differ. "
        "Non-trivial = configuration with clustering on or a distinct operation/seed pair.")
MODELLED = ["MT19937 is an abstract generator (state type with `next`, `seed`); injectivity of its step is an assumption of C09_no_reseed_injective",
            "draws made inside worker processes of a pool are not observed"]
ASSUMPTIONS = ["all draws go through numpy.random module attributes or a private RandomState (G3 fails loudly on any other source)"]

WRAPPED = ["seed", "rand", "randn", "random", "random_sample", "gamma", "choice", "uniform", "normal", "randint", "permutation", "shuffle"]


def translators():
    from translate import g3_rng
    return [g3_rng.generate()]


def _quiet():
    return contextlib.redirect_stdout(io.StringIO())


@contextlib.contextmanager
def trace_rng(log):
    """wrap numpy.random attributes; log (relative file, line, name) of callers inside the package"""
    saved = {}
    root = os.path.realpath(common.REPO) + os.sep

    def mk(name, real):
        def w(*a, **k):
            f = sys._getframe(1)
            fn = os.path.realpath(f.f_code.co_filename)
            if fn.startswith(root):
                log.add((os.path.relpath(fn, root), f.f_lineno, name))
            return real(*a, **k)
        return w
    try:
        for n in WRAPPED:
            saved[n] = getattr(np.random, n)
            setattr(np.random, n, mk(n, saved[n]))
        yield
    finally:
        for n, v in saved.items():
            setattr(np.random, n, v)


def _like_half(x):
    return -np.inf if x[0] < -3.5 else -0.5 * float(np.sum(x ** 2))


def _like_bimodal(x):
    # two well separated modes: with clustering on, the hierarchical model accepts a 2-component split, whose fit is the
    # only clustering step that draws random numbers (the k-means++ start of a 2-component mixture)
    a = -0.5 * float(np.sum((x - 2.0) ** 2)) / 0.09
    b = -0.5 * float(np.sum((x + 2.0) ** 2)) / 0.09
    return float(np.logaddexp(a, b))


def _sampler(clustering, kernel, resample, random_state=None, like=None, d=2, **kw):
    from tempest import Sampler
    if like is None and clustering:
        like = _like_bimodal
        kw.setdefault("n_particles", 48)
    return Sampler(lambda u: 8.0 * u - 4.0, like or (lambda x: -0.5 * float(np.sum((x - 0.3) ** 2)) * 2.0), d,
                   n_particles=kw.pop("n_particles", 24), clustering=clustering, sample=kernel, resample=resample,
                   random_state=random_state, n_steps=1, n_max_steps=2, **kw)


def _fingerprint(s):
    st = s.state
    h = [st.get_history("u", flat=True).tobytes(), st.get_history("logl", flat=True).tobytes(),
         np.asarray(st.get_history("beta")).tobytes(), np.asarray(st.get_history("logz")).tobytes()]
    x, w, l = s.posterior()
    return common.digest([b.hex() for b in h] + [w.tobytes().hex(), repr(s.evidence()[0])])


def _run(s, n_total=48):
    if s.clustering:
        n_total = 192
    with _quiet(), warnings.catch_warnings():
        warnings.simplefilter("ignore")
        s.run(n_total=n_total, progress=False)
    return s


def suite_sites(tier):
    from translate import g3_rng
    c = Corr("rng-call-sites", "exact (observed call sites ⊆ static effect table)")
    static = g3_rng.static_sites()
    log = set()
    runs = [(True, "tpcn", "mult"), (False, "rwm", "syst"), (True, "rwm", "syst"), (False, "tpcn", "mult")]
    for clustering, kernel, resample in runs:
        np.random.seed(5)
        with trace_rng(log):
            _run(_sampler(clustering, kernel, resample, like=_like_half))
        c.case(("run", clustering, kernel, resample), True)
    from tempest.cluster import HierarchicalGaussianMixture, GaussianMixture
    from tempest.tools import systematic_resample
    rng = np.random.RandomState(1)
    X = np.vstack([rng.randn(50, 2) * 0.05 + 0.3, rng.randn(50, 2) * 0.05 + 0.7])
    with trace_rng(log):
        HierarchicalGaussianMixture().fit(X)
        GaussianMixture(n_components=2).fit(X)
        systematic_resample(5, np.ones(5) / 5)
        systematic_resample(5, np.ones(5) / 5, random_state=3)
    c.case("cluster-fits", True)
    observed = {(f, ln) for f, ln, _ in log}
    extra = sorted(observed - static)
    c.stats["observed_sites"] = len(observed)
    c.stats["static_sites"] = len(static)
    c.stats["static_sites_not_observed"] = sorted(f"{f}:{ln}" for f, ln in static - observed)
    if extra:
        c.disagree(input="dynamic trace", impl=[f"{f}:{ln}" for f, ln in extra], model="not in the static RNG effect table")
    c.sample({"observed": sorted(f"{f}:{ln}:{n}" for f, ln, n in log)[:12]})
    return c


def repro_violations(configs):
    bad = []
    for cfg in configs:
        clustering, kernel, resample, seed_a, seed_b = cfg
        fps = []
        for ambient in (101, 202):
            np.random.seed(ambient)
            fps.append(_fingerprint(_run(_sampler(clustering, kernel, resample, random_state=seed_a))))
        if fps[0] != fps[1]:
            bad.append({"what": f"two samplers constructed with random_state={seed_a} on the same inputs gave different histories/weights/evidence",
                        "config": {"clustering": clustering, "kernel": kernel, "resample": resample}, "random_state": seed_a})
            continue
        np.random.seed(101)
        other = _fingerprint(_run(_sampler(clustering, kernel, resample, random_state=seed_b)))
        if other == fps[0]:
            bad.append({"what": f"random_state={seed_a} and random_state={seed_b} gave bit-identical runs",
                        "config": {"clustering": clustering, "kernel": kernel, "resample": resample}, "random_state": [seed_a, seed_b]})
    return bad


def _ops():
    from tempest.cluster import HierarchicalGaussianMixture, GaussianMixture
    from tempest.modes import ModeStatistics
    from tempest.tools import systematic_resample
    rng = np.random.RandomState(7)
    X = np.vstack([rng.rand(40, 2) * 0.2 + 0.1, rng.rand(40, 2) * 0.2 + 0.6])

    def it(clustering, kernel):
        def f():
            s = _sampler(clustering, kernel, "mult")
            with _quiet(), warnings.catch_warnings():
                warnings.simplefilter("ignore")
                s._core._initialize_fresh()
                for _ in range(5):
                    s.sample()
        return f

    def seeded_run():
        s = _sampler(False, "rwm", "syst", random_state=7)
        with _quiet(), warnings.catch_warnings():
            warnings.simplefilter("ignore")
            s._core._initialize_fresh()
            for _ in range(4):
                s.sample()
        return s
    return {
        "GaussianMixture(n_components=2).fit": lambda: GaussianMixture(n_components=2).fit(X),
        "GaussianMixture(random_state=42).fit": lambda: GaussianMixture(n_components=2, random_state=42).fit(X),
        "HierarchicalGaussianMixture.fit": lambda: HierarchicalGaussianMixture().fit(X),
        "HierarchicalGaussianMixture(normalize).fit+predict": lambda: HierarchicalGaussianMixture(normalize=True).fit(X).predict(X),
        "ModeStatistics.from_particles": lambda: ModeStatistics.from_particles(X, np.ones(80) / 80, np.array([0] * 40 + [1] * 40)),
        "ModeStatistics.from_global": lambda: ModeStatistics.from_global(X, np.ones(80) / 80),
        "systematic_resample": lambda: systematic_resample(8, np.ones(8) / 8),
        "5 sampler iterations (clustering on, tpcn)": it(True, "tpcn"),
        "5 sampler iterations (clustering off, rwm)": it(False, "rwm"),
        "5 sampler iterations (clustering on, rwm)": it(True, "rwm"),
        # read-side operations of a SEEDED sampler that has already run (set up before the ambient seed is applied):
        # the documented seeding point is the start of a fresh run, nothing after it may put the stream back
        "seeded sampler: posterior(resample=True)": (seeded_run, lambda s: s.posterior(resample=True)),
        "seeded sampler: posterior()": (seeded_run, lambda s: s.posterior()),
        "seeded sampler: posterior(resample=True, trim)": (seeded_run, lambda s: s.posterior(resample=True, trim_importance_weights=True)),
        "seeded sampler: evidence()": (seeded_run, lambda s: s.evidence()),
        "seeded sampler: one more iteration": (seeded_run, lambda s: s.sample()),
        "seeded sampler: posterior(resample=True) then iteration": (seeded_run, lambda s: (s.posterior(resample=True), s.sample())),
    }


def reset_violations(names=None):
    bad = []
    ops = _ops()
    for name, op in ops.items():
        if names and name not in names:
            continue
        after = []
        for pre in (1, 2):
            arg = ()
            if isinstance(op, tuple):
                arg = (op[0](),)
            np.random.seed(pre)
            with _quiet(), warnings.catch_warnings():
                warnings.simplefilter("ignore")
                (op[1] if isinstance(op, tuple) else op)(*arg)
            after.append(np.random.rand(3).tolist())
        if after[0] == after[1]:
            bad.append({"what": f"after `{name}` the global stream is the same for ambient seeds 1 and 2 (first draws {after[0]})", "op": name})
    return bad


def correspond(tier):
    out = [suite_sites(tier)]
    c = Corr("seeded-run-deterministic", "exact (bit-identical fingerprints)")
    configs = [(False, "rwm", "syst", 0, 1), (True, "tpcn", "mult", 7, 8), (True, "rwm", "syst", 3, 4), (False, "tpcn", "mult", 11, 12)]
    if tier == "thorough":
        configs += [(cl, k, r, a, a + 1) for cl in (True, False) for k in ("tpcn", "rwm") for r in ("mult", "syst") for a in (20, 40, 60)]
    for cfg in configs:
        c.case(cfg, True)
        c.count("clustering" if cfg[0] else "no_clustering")
        for b in repro_violations([cfg]):
            c.disagree(input=cfg, impl=b["what"], model="exec g a (seedArg :: p) is independent of the ambient state (C09_seeded_run_deterministic)")
    c.sample({"config": configs[0], "check": "same random_state twice -> identical fingerprint; different -> different"})
    out.append(c)
    c2 = Corr("no-global-reset", "exact (post-operation draws differ for different ambient seeds)")
    for name in _ops():
        c2.case(name, True)
        for b in reset_violations([name]):
            c2.disagree(input=name, impl=b["what"], model="program without seedLit: post-state injective in the pre-state (C09_no_reseed_injective)")
    c2.sample({"ops": list(_ops())})
    out.append(c2)
    return out


def search(tier, hints):
    found = reset_violations()
    configs = [(cl, k, r, a, a + 1) for cl in (True, False) for k in ("tpcn", "rwm") for r in ("mult", "syst") for a in ((0,) if tier == "quick" else (0, 5, 9))]
    found += repro_violations(configs)
    return found[:5]


def replay(obj):
    f = obj.get("failing_input", obj)
    if "witness" in f.get("replay", {}):
        from . import witnesses
        return witnesses.ALL[f["replay"]["witness"]]()
    if "op" in f:
        b = reset_violations([f["op"]])
    else:
        cfg = f["config"]
        rs = f["random_state"]
        a, bb = (rs if isinstance(rs, list) else (rs, rs + 1))
        b = repro_violations([(cfg["clustering"], cfg["kernel"], cfg["resample"], a, bb)])
    return {"fails": bool(b), "detail": b[:1]}
