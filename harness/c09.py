"""C09 — seeded runs are reproducible and the library never resets the global RNG."""
import contextlib
import io
import os
import sys
import warnings

import numpy as np

from . import common
from . import c09_obs as ob
from .common import Corr

ID = "C09"
LEAN_MODULES = ["TempestVerif.Props.C09", "TempestVerif.Props.C09Run", "TempestVerif.Props.C09Sites", "TempestVerif.Props.C09Graph"]
RULE = ("(a) call-site cross-check: sampler runs (clustering on/off, both kernels, both resamplers, a -inf prior region) and "
        "clustering fits with every numpy.random attribute wrapped; each observed (file, line) must be in the static RNG "
        "effect table G3. (b) seeded determinism predicted by the model (program = seedArg :: draws): the same random_state "
        "twice gives bit-identical history / weights / evidence, two different random_states differ — over the configuration "
        "lattice; plus seed pairs across the whole valid range [0, 2^32) (differing by 2^31-1, 2^31, 2^32-1, 2^16 ..., both "
        "ends): the first batch of each is exactly RandomState(seed)'s stream and the two differ; invalid seed values (negative, "
        ">= 2^32, float) are refused or at least do not reproduce a valid seed's run. (c) no-reset predicted by the model (program without seedLit is injective in the pre-state): for each "
        "library operation (GMM fit, HGMM fit, from_particles, one sampler iteration with clustering on/off, "
        "systematic_resample) and two different ambient seeds the first draws afterwards differ. "
        "Non-trivial = configuration with clustering on or a distinct operation/seed pair. "
        "(d) plumbing: random_state in {None, 0, 1, 7, 2^32-1} reaches config / property / checkpoint unchanged. "
        "(e) iteration-requests: real runs over the configuration lattice (clustering on/off x tpcn/rwm x mult/syst, a -inf prior "
        "region, a bimodal target that triggers cluster splits) with every numpy.random attribute and the RandomState constructor "
        "wrapped at VALUE granularity; for every iteration the observables (warm-up?, outside/inside-support counts, refit?, "
        "mixture fits, label-group sizes, trimmed pool size, MCMC sweeps) are taken from sources independent of the RNG log and "
        "the model program `Model.RngSites.iteration` is executed on them by the driver: the run-length-encoded event sequences "
        "(kinds, counts, private vs process-wide, seedings) must be identical, per iteration and for the whole run "
        "(`Model.RngRun.runSampling`), and so must the iteration start positions. Non-trivial = annealing iteration or warm-up "
        "iteration with replacement picks. (f) stream-replay: every process-wide call of a seeded (resp. unseeded) real run is "
        "replayed, same function and arguments, on a fresh RandomState(seed) (resp. a generator put to the ambient state): "
        "bit-identical values and identical final generator state (so no draw or seeding escaped the wrappers), pairwise "
        "distinct generator states at iteration starts. (g) fits: get_state() before/after clustering fits and predictions. "
        "(h) resume: a writer run with save_every=1 and runs resumed from its first / middle / last checkpoint: the generator "
        "state right after load equals the state the writer had when it saved, the resumed run's event log (one restore, then "
        "the iterations) and absolute stream positions equal the model's (`c09.run resume=at:k`), it is bit-identical to the "
        "uninterrupted run and independent of ambient stream and constructor seed; a checkpoint without stored position "
        "continues the ambient stream; every way a file without stored position can arise (key removed, rng_state=None, "
        "StateManager.save_state format, checkpoints written while the sampler cannot be pickled — none on a tree that refuses to "
        "write them) goes through the property oracle: after load_state the stream still depends on the ambient seed, no batch "
        "of the resumed run is a bit-copy of an earlier one, the resumed run depends on the ambient stream; three run() calls with "
        "growing n_total on one object after load_state / run(resume_state_path) / a fresh run, the ambient stream reseeded before "
        "each: a call that does not load never starts from an earlier iteration's generator state and what follows it differs "
        "for two ambient seeds. "
        "(i) call-graph: call edges observed with sys.setprofile on real runs must be in the static graph of G3b. "
        "(j) pool: a pool with an order-preserving map gives the serial fingerprint.")
MODELLED = ["MT19937 is an abstract generator: any family of deterministic state transformers `next k` (one per request kind) and a "
            "seeding map; nothing about its period or equidistribution is proved",
            "no-cycle hypothesis of C09_iteration_starts_distinct / C09_sampler_iterations_never_replay (the stream does not return "
            "to an earlier state within a run; MT19937 period 2^19937-1): assumption, checked on every stream-replay case "
            "(generator states at iteration starts pairwise distinct)",
            "hypothesis `hfirst` of C09_different_seeds_differ / C09_run_different_seeds_differ (first value of two seeds differs): "
            "assumption about MT19937, checked for the seed pairs of suite seeded-run-deterministic",
            "the numerics of an iteration (weights, BIC decisions, acceptance test, step-count rule) are the abstract `Numerics` of "
            "Model.RngSites: pure functions of the data state and of the numbers drawn so far",
            "user functions (prior_transform, log_likelihood) are pure and draw nothing from the process-wide stream",
            "draws made inside worker processes of a pool are not observed; `pool.map` is assumed to return results in input order",
            "the call graph of G3b is an over-approximation built by name / inferred receiver class; its soundness is checked "
            "dynamically (suite call-graph), not proved"]
ASSUMPTIONS = ["all draws go through numpy.random module attributes or a private RandomState (G3 fails loudly on any other source; "
               "suite stream-replay compares the final generator state, so a process-wide draw that bypassed the wrappers is detected)",
               "random_state is None or an integer in [0, 2^32-1] (np.random.seed raises otherwise; SamplerConfig does not validate it)"]

WRAPPED = ["seed", "rand", "randn", "random", "random_sample", "gamma", "choice", "uniform", "normal", "randint", "permutation", "shuffle",
           "get_state", "set_state"]


def translators():
    from translate import g3_rng, g3_graph
    return [g3_rng.generate(), g3_graph.generate()]


def _quiet():
    return contextlib.redirect_stdout(io.StringIO())


@contextlib.contextmanager
def trace_rng(log):
    """wrap numpy.random attributes; log (relative file, line, name) of callers inside the package"""
    saved = {}
    root = os.path.realpath(common.REPO) + os.sep

    def mk(name, real):
        def w(*a, **k):
            f = sys._getframe(1)
            fn = os.path.realpath(f.f_code.co_filename)
            if fn.startswith(root):
                log.add((os.path.relpath(fn, root), f.f_lineno, name))
            return real(*a, **k)
        return w
    real_rs = np.random.RandomState

    class TracedRandomState(real_rs):
        """a genuine RandomState (isinstance checks keep working) whose construction site is logged"""

        def __init__(self, *a, **k):
            f = sys._getframe(1)
            fn = os.path.realpath(f.f_code.co_filename)
            if fn.startswith(root):
                log.add((os.path.relpath(fn, root), f.f_lineno, "RandomState"))
            super().__init__(*a, **k)
    try:
        for n in WRAPPED:
            saved[n] = getattr(np.random, n)
            setattr(np.random, n, mk(n, saved[n]))
        saved["RandomState"] = real_rs
        np.random.RandomState = TracedRandomState
        yield
    finally:
        for n, v in saved.items():
            setattr(np.random, n, v)


def _like_half(x):
    return -np.inf if x[0] < -3.5 else -0.5 * float(np.sum(x ** 2))


def _like_tiny(x):
    # support = 1/80 of the prior cube in one coordinate: most warm-up batches of 24 hold no finite draw and are redrawn
    return -np.inf if x[0] < 3.9 else -0.5 * float(np.sum((x - 3.95) ** 2))


def _like_bimodal(x):
    # two well separated modes: with clustering on, the hierarchical model accepts a 2-component split, whose fit is the
    # only clustering step that draws random numbers (the k-means++ start of a 2-component mixture)
    a = -0.5 * float(np.sum((x - 2.0) ** 2)) / 0.09
    b = -0.5 * float(np.sum((x + 2.0) ** 2)) / 0.09
    return float(np.logaddexp(a, b))


def _sampler(clustering, kernel, resample, random_state=None, like=None, d=2, **kw):
    from tempest import Sampler
    if like is None and clustering:
        like = _like_bimodal
        kw.setdefault("n_particles", 48)
    return Sampler(lambda u: 8.0 * u - 4.0, like or (lambda x: -0.5 * float(np.sum((x - 0.3) ** 2)) * 2.0), d,
                   n_particles=kw.pop("n_particles", 24), clustering=clustering, sample=kernel, resample=resample,
                   random_state=random_state, n_steps=1, n_max_steps=2, **kw)


def _fingerprint(s):
    st = s.state
    h = [st.get_history("u", flat=True).tobytes(), st.get_history("logl", flat=True).tobytes(),
         np.asarray(st.get_history("beta")).tobytes(), np.asarray(st.get_history("logz")).tobytes(),
         st.get_history("x", flat=True).tobytes(), np.asarray(st.get_history("calls")).tobytes(),
         np.asarray(st.get_history("acceptance"), dtype=float).tobytes()]
    x, w, l = s.posterior()
    return common.digest([b.hex() for b in h] + [w.tobytes().hex(), repr(s.evidence()[0])])


def _run(s, n_total=48):
    if s.clustering:
        n_total = 192
    with _quiet(), warnings.catch_warnings():
        warnings.simplefilter("ignore")
        s.run(n_total=n_total, progress=False)
    return s


def suite_sites(tier):
    from translate import g3_rng
    c = Corr("rng-call-sites", "exact (observed call sites ⊆ static effect table)")
    static = g3_rng.static_sites()
    log = set()
    runs = [(True, "tpcn", "mult"), (False, "rwm", "syst"), (True, "rwm", "syst"), (False, "tpcn", "mult")]
    for clustering, kernel, resample in runs:
        np.random.seed(5)
        with trace_rng(log):
            _run(_sampler(clustering, kernel, resample, like=_like_half))
        c.case(("run", clustering, kernel, resample), True)
    from tempest.cluster import HierarchicalGaussianMixture, GaussianMixture
    from tempest.tools import systematic_resample
    # a seeded run that writes checkpoints, and a run resumed from one: the seeding, get_state and set_state sites
    import tempfile
    with tempfile.TemporaryDirectory() as d, trace_rng(log):
        s1 = _sampler(False, "rwm", "syst", random_state=3, output_dir=d, output_label="cs")
        with _quiet(), warnings.catch_warnings():
            warnings.simplefilter("ignore")
            s1.run(n_total=48, progress=False, save_every=2)
            _sampler(False, "rwm", "syst", random_state=3, output_dir=d, output_label="cs2").run(
                n_total=48, progress=False, resume_state_path=os.path.join(d, "cs_2.state"))
    c.case("seeded-run-with-checkpoints-and-resume", True)
    rng = np.random.RandomState(1)
    X = np.vstack([rng.randn(50, 2) * 0.05 + 0.3, rng.randn(50, 2) * 0.05 + 0.7])
    with trace_rng(log):
        HierarchicalGaussianMixture().fit(X)
        GaussianMixture(n_components=2).fit(X)
        systematic_resample(5, np.ones(5) / 5)
        systematic_resample(5, np.ones(5) / 5, random_state=3)
    c.case("cluster-fits", True)
    observed = {(f, ln) for f, ln, _ in log}
    extra = sorted(observed - static)
    c.stats["observed_sites"] = len(observed)
    c.stats["static_sites"] = len(static)
    c.stats["static_sites_not_observed"] = sorted(f"{f}:{ln}" for f, ln in static - observed)
    if extra:
        c.disagree(input="dynamic trace", impl=[f"{f}:{ln}" for f, ln in extra], model="not in the static RNG effect table")
    c.sample({"observed": sorted(f"{f}:{ln}:{n}" for f, ln, n in log)[:12]})
    return c


def repro_violations(configs):
    bad = []
    for cfg in configs:
        clustering, kernel, resample, seed_a, seed_b = cfg[:5]
        like_tag = cfg[5] if len(cfg) > 5 else None
        lk = {"tiny": _like_tiny, "half": _like_half}.get(like_tag)
        fps = []
        for ambient in (101, 202):
            np.random.seed(ambient)
            fps.append(_fingerprint(_run(_sampler(clustering, kernel, resample, random_state=seed_a, like=lk))))
        if fps[0] != fps[1]:
            bad.append({"what": f"two samplers constructed with random_state={seed_a} on the same inputs gave different histories/weights/evidence",
                        "config": {"clustering": clustering, "kernel": kernel, "resample": resample}, "random_state": seed_a,
                        "repro_like": like_tag})
            continue
        np.random.seed(101)
        other = _fingerprint(_run(_sampler(clustering, kernel, resample, random_state=seed_b, like=lk)))
        if other == fps[0]:
            bad.append({"what": f"random_state={seed_a} and random_state={seed_b} gave bit-identical runs",
                        "config": {"clustering": clustering, "kernel": kernel, "resample": resample}, "random_state": [seed_a, seed_b],
                        "repro_like": like_tag})
    return bad


def _ops():
    from tempest.cluster import HierarchicalGaussianMixture, GaussianMixture
    from tempest.modes import ModeStatistics
    from tempest.tools import systematic_resample
    rng = np.random.RandomState(7)
    X = np.vstack([rng.rand(40, 2) * 0.2 + 0.1, rng.rand(40, 2) * 0.2 + 0.6])

    def it(clustering, kernel):
        def f():
            s = _sampler(clustering, kernel, "mult")
            with _quiet(), warnings.catch_warnings():
                warnings.simplefilter("ignore")
                s._core._initialize_fresh()
                for _ in range(5):
                    s.sample()
        return f

    def tiny_warmup():
        s = _sampler(False, "rwm", "syst", like=_like_tiny, n_particles=4)
        with _quiet(), warnings.catch_warnings():
            warnings.simplefilter("ignore")
            s._core._initialize_fresh()
            s.sample()
            s.sample()

    def seeded_run():
        s = _sampler(False, "rwm", "syst", random_state=7)
        with _quiet(), warnings.catch_warnings():
            warnings.simplefilter("ignore")
            s._core._initialize_fresh()
            for _ in range(4):
                s.sample()
        return s
    return {
        "GaussianMixture(n_components=2).fit": lambda: GaussianMixture(n_components=2).fit(X),
        "GaussianMixture(random_state=42).fit": lambda: GaussianMixture(n_components=2, random_state=42).fit(X),
        "HierarchicalGaussianMixture.fit": lambda: HierarchicalGaussianMixture().fit(X),
        "HierarchicalGaussianMixture(normalize).fit+predict": lambda: HierarchicalGaussianMixture(normalize=True).fit(X).predict(X),
        "ModeStatistics.from_particles": lambda: ModeStatistics.from_particles(X, np.ones(80) / 80, np.array([0] * 40 + [1] * 40)),
        "ModeStatistics.from_global": lambda: ModeStatistics.from_global(X, np.ones(80) / 80),
        "systematic_resample": lambda: systematic_resample(8, np.ones(8) / 8),
        "5 sampler iterations (clustering on, tpcn)": it(True, "tpcn"),
        "5 sampler iterations (clustering off, rwm)": it(False, "rwm"),
        "5 sampler iterations (clustering on, rwm)": it(True, "rwm"),
        # support 1/80 and 4 particles: the warm-up batch almost always holds no finite draw and is redrawn (Mutator.run loop)
        "2 warm-up iterations (tiny support, redraws)": tiny_warmup,
        # read-side operations of a SEEDED sampler that has already run (set up before the ambient seed is applied):
        # the documented seeding point is the start of a fresh run, nothing after it may put the stream back
        "seeded sampler: posterior(resample=True)": (seeded_run, lambda s: s.posterior(resample=True)),
        "seeded sampler: posterior()": (seeded_run, lambda s: s.posterior()),
        "seeded sampler: posterior(resample=True, trim)": (seeded_run, lambda s: s.posterior(resample=True, trim_importance_weights=True)),
        "seeded sampler: evidence()": (seeded_run, lambda s: s.evidence()),
        "seeded sampler: one more iteration": (seeded_run, lambda s: s.sample()),
        "seeded sampler: posterior(resample=True) then iteration": (seeded_run, lambda s: (s.posterior(resample=True), s.sample())),
    }


def reset_violations(names=None):
    bad = []
    ops = _ops()
    for name, op in ops.items():
        if names and name not in names:
            continue
        # correct code never gives equal draws for two ambient seeds; an operation whose reset path is taken only with some
        # probability (the redraw loop) is tried on several pairs
        for pair in (((1, 2), (3, 4), (5, 6)) if "tiny" in name else ((1, 2),)):
            after = []
            for pre in pair:
                arg = ()
                if isinstance(op, tuple):
                    arg = (op[0](),)
                np.random.seed(pre)
                with _quiet(), warnings.catch_warnings():
                    warnings.simplefilter("ignore")
                    (op[1] if isinstance(op, tuple) else op)(*arg)
                after.append(np.random.rand(3).tolist())
            if after[0] == after[1]:
                bad.append({"what": f"after `{name}` the global stream is the same for ambient seeds {pair[0]} and {pair[1]} (first draws {after[0]})", "op": name})
                break
    return bad


# ============================================================================================ clause-audit suites (wave 2)
FUEL = 1000000


def _lattice(tier):
    """(clustering, kernel, resample, likelihood tag, seed) — every combination of the statement's quantifier"""
    base = [(cl, k, r) for cl in (False, True) for k in ("tpcn", "rwm") for r in ("mult", "syst")]
    out = []
    rq = common.rng_for("c09-lattice-quick")
    for i, (cl, k, r) in enumerate(base):
        out.append((cl, k, r, "half" if i % 2 == 0 else "plain", 11 + i if common.seed() == 0 else rq.randrange(0, 2 ** 32)))
    out.append((True, "tpcn", "mult", "bimodal", 5))      # cluster splits: more than one label group
    out.append((True, "rwm", "syst", "bimodal", 6))
    out.append((False, "rwm", "mult", "tiny", 7))         # tiny support: warm-up batches without a finite draw are redrawn
    out.append((False, "tpcn", "syst", "tiny", 8))
    if tier == "thorough":
        rng = common.rng_for("c09-lattice")
        for rep in range(2):
            for cl, k, r in base:
                for like in ("half", "plain", "bimodal"):
                    out.append((cl, k, r, like, rng.randrange(0, 2 ** 32) if rep else rng.randrange(0, 1000)))
    return out


def _mk(cfg, random_state="cfg", **kw):
    cl, k, r, like, seed = cfg
    lk = {"half": _like_half, "plain": None, "bimodal": _like_bimodal, "tiny": _like_tiny}[like]
    if like == "plain" and cl:
        lk = lambda x: -0.5 * float(np.sum((x - 0.3) ** 2)) * 2.0   # noqa: E731  (unimodal target with clustering on)
    if like == "bimodal":
        kw.setdefault("n_particles", 48)
    return _sampler(cl, k, r, random_state=seed if isinstance(random_state, str) else random_state, like=lk, **kw)


def _n_total(cfg):
    return 192 if cfg[3] == "bimodal" else 64


def _observed_run(cfg, random_state="cfg", ambient=None, keep_calls=False, resume=None, **kw):
    """one instrumented real run -> (sampler, EventLog, [IterObs], final generator state)"""
    s = _mk(cfg, random_state=random_state, **kw)
    log, obs = ob.EventLog(keep_calls=keep_calls), []
    if ambient is not None:
        np.random.seed(ambient)
    with ob.trace_events(log), ob.observe_iterations(s, log, obs):
        ob.run_quiet(lambda: s.run(n_total=_n_total(cfg), progress=False, resume_state_path=resume))
    return s, log, obs, ob.state_key()


def suite_plumbing(tier):
    c = Corr("rng-plumbing", "exact (random_state reaches config, property and checkpoint unchanged)")
    import tempfile
    import dill
    for rs in (None, 0, 1, 7, 2 ** 32 - 1):
        np.random.seed(4242)
        before = ob.state_key()
        s = _sampler(False, "rwm", "syst", random_state=rs)
        sc = _sampler(True, "tpcn", "mult", random_state=rs)
        if ob.state_key() != before:
            c.disagree(input={"random_state": rs}, impl="constructing a sampler changed the process-wide generator state",
                       model="C09_construction_uses_no_rng")
        del sc
        got = {"property": s.random_state, "config": s._core.config.random_state}
        with tempfile.TemporaryDirectory() as d:
            ob.run_quiet(lambda: (s._core._initialize_fresh(), s.sample(), s.save_state(os.path.join(d, "p.state"))))
            with open(os.path.join(d, "p.state"), "rb") as fh:
                got["checkpoint"] = dill.load(fh).get("random_state", "missing")
        c.case(("plumbing", rs), True)
        c.count("seed_none" if rs is None else "seed_int")
        for k, v in got.items():
            if v != rs or type(v) is not type(rs):
                c.disagree(input={"random_state": rs}, impl={k: repr(v)}, model="random_state handed on unchanged (C09_random_state_plumbing)")
        try:
            s._core.config.random_state = 99
            c.disagree(input={"random_state": rs}, impl="config.random_state is assignable", model="SamplerConfig is frozen")
        except Exception:
            pass
    c.sample({"values": [None, 0, 1, 7, 2 ** 32 - 1]})
    return c


def suite_requests(tier):
    """model program of every iteration / of the whole run vs the value-level event log of the real code"""
    c = Corr("iteration-requests", "exact (run-length-encoded event sequences and stream positions)")
    drv = common.Driver()
    lines, expect, keys = [], [], []
    for cfg in _lattice(tier):
        s, log, obs, _ = _observed_run(cfg)
        args = ob.cfg_args(s)
        for i, o in enumerate(obs):
            ev = [e for e in log.events if e["it"] == i]
            lines.append(f"c09.iter {args} fuel={FUEL} it={o.token()}")
            expect.append(ob.rle(ev))
            keys.append(("iter", cfg, i, o.token()))
            lines.append(f"c09.count {args} it={o.token()}")
            expect.append(str(sum(e["n"] for e in ev if not e["tag"].startswith("p") and ":" not in e["tag"])))
            keys.append(None)
            c.count("warm" if o.warm else "anneal")
            if o.warm and o.n_inf and o.n_fin:
                c.count("warm_with_replacement_picks")
            if o.warm and o.discarded:
                c.count("warm_with_discarded_batches")
                c.count("discarded_batches", o.discarded)
            if not o.warm:
                c.count(f"sweeps={min(o.steps, 5)}{'+' if o.steps > 5 else ''}")
                if o.groups and len(o.groups) > 1:
                    c.count("several_label_groups")
                if o.refit and len(o.fits) > 3:
                    c.count("cluster_split_tried_deeper")
        # whole run: seeding first, then the iterations; positions at which the iterations start
        its = " ".join(f"i{i}={o.token()}" for i, o in enumerate(obs))
        lines.append(f"c09.run {args} fuel={FUEL} rs={cfg[4]} resume=fresh n={len(obs)} {its}")
        starts, pos = [], 0
        for i in range(len(obs)):
            starts.append(pos)
            pos += sum(e["n"] for e in log.events if e["it"] == i and e["tag"] in ("U", "Z", "G", "I"))
        expect.append(ob.rle(log.events) + " starts=" + (",".join(map(str, starts)) if starts else "-"))
        keys.append(("run", cfg, len(obs)))
        outside = [e for e in log.events if e["it"] == -1 and not e["tag"].startswith("S:")]
        if outside:
            c.disagree(input=cfg, impl=f"RNG use outside any iteration: {ob.rle(outside)[:80]}", model="only the seeding precedes the iterations")
    out = drv.batch(lines)
    for ln, o, e, k in zip(lines, out, expect, keys):
        if k is not None:
            c.case(k, k[0] == "run" or not k[3].startswith("w/0/0/"))
        if o != e:
            c.disagree(input=ln[:300], impl=e[:300], model=o[:300])
    c.sample({"op": lines[0], "model_and_real": out[0]})
    return c


def _replay_calls(events, gen):
    """replay the recorded process-wide calls on `gen`; returns index of the first call whose result differs (or None)"""
    for j, e in enumerate(events):
        if ":" in e["tag"] or e["tag"].startswith("p"):
            continue
        f = getattr(gen, e["name"])
        r = f(*e["args"], **e["kwargs"])
        if not np.array_equal(np.asarray(r), np.asarray(e["result"])):
            return j
    return None


def stream_violations(configs):
    """property oracle on the REAL code: an uninterrupted run in which an iteration starts from a generator state an earlier
    iteration started from, or receives exactly the numbers an earlier iteration received"""
    bad = []
    for cfg in configs:
        s, log, obs, _ = _observed_run(cfg, keep_calls=True)
        seen = {}
        for i, o in enumerate(obs):
            first = [e for e in log.events if e["it"] == i and e["tag"] in ("U", "Z", "G", "I") and e.get("result") is not None]
            sig = None
            if first:
                sig = (first[0]["name"], np.asarray(first[0]["result"]).ravel()[:8].tobytes())
            for key in ((("state",) + o.start_state), ("values", sig) if sig else None):
                if key is None:
                    continue
                if key in seen:
                    bad.append({"what": f"iteration {i} of a run with random_state={cfg[4]} replays iteration {seen[key]} "
                                        f"({'same generator state at its start' if key[0] == 'state' else 'same first numbers drawn'})",
                                "config": {"clustering": cfg[0], "kernel": cfg[1], "resample": cfg[2]}, "random_state": cfg[4],
                                "like": cfg[3], "stream": True})
                    break
                seen[key] = i
            else:
                continue
            break
    return bad


def suite_stream(tier):
    c = Corr("stream-replay", "exact (bit-identical values and final generator state against a fresh RandomState)")
    cfgs = _lattice(tier)
    if tier == "quick":
        cfgs = cfgs[:6] + cfgs[8:9] + cfgs[10:11]
    all_states = {}
    for n, cfg in enumerate(cfgs):
        seeded = n % 3 != 2
        ambient = 1000 + n
        s, log, obs, final = _observed_run(cfg, random_state="cfg" if seeded else None, ambient=ambient, keep_calls=True)
        c.case(("stream", cfg, seeded), True)
        c.count("seeded" if seeded else "unseeded_ambient")
        gen = np.random.RandomState(cfg[4] if seeded else ambient)
        seeds = [e["tag"] for e in log.events if e["tag"].startswith("S:")]
        want = [f"S:{cfg[4]}"] if seeded else []
        if seeds != want:
            c.disagree(input=cfg, impl=f"seeding events {seeds}", model=f"{want} (initFresh, then seed-free iterations)")
            continue
        j = _replay_calls(log.events, gen)
        if j is not None:
            e = log.events[j]
            c.disagree(input=cfg, impl=f"call #{j} {e['name']} at {e['site']} returned numbers that are not the next segment of the stream",
                       model="gvals log = emit g (gkinds log) (seed a)  (C09_run_fresh_log_is_stream)")
            continue
        if ob.state_key(gen.get_state()) != final:
            c.disagree(input=cfg, impl="final process-wide generator state differs from the replayed stream: a draw or seeding bypassed the wrapped numpy.random attributes",
                       model="final state = advance g (gkinds log) (seed a)")
        starts = [o.start_state for o in obs]
        if len(set(starts)) != len(starts):
            c.disagree(input=cfg, impl="two iterations start from the same generator state", model="C09_sampler_iterations_never_replay")
        for o in obs:
            if o.end_state == o.start_state:
                c.disagree(input=cfg, impl="an iteration left the generator state unchanged", model="C09_iteration_draws: every iteration draws")
        stream_id = ("mt19937", cfg[4] if seeded else ambient)
        for st in starts:
            if st in all_states and all_states[st] != stream_id:
                c.disagree(input=cfg, impl=f"generator state shared with a run on another stream {all_states[st]}", model="differently seeded runs never replay")
            all_states[st] = stream_id
        c.count("iterations", len(obs))
        c.count("process_wide_values", sum(e["n"] for e in log.events if e["tag"] in ("U", "Z", "G", "I")))
    c.sample({"config": cfgs[0], "check": "recorded calls replayed on RandomState(seed): identical values, identical final state"})
    return c


def suite_fits(tier):
    c = Corr("fit-streams", "exact (generator state before/after fits; model event sequence; private values)")
    from tempest.cluster import HierarchicalGaussianMixture, GaussianMixture
    drv = common.Driver()
    rng = np.random.RandomState(common.seed() + 17)
    n_sets = 6 if tier == "quick" else 40
    lines, expect = [], []
    for t in range(n_sets):
        d = 1 + t % 3
        k = 1 + t % 3
        X = np.vstack([rng.randn(40 + (5 * t) % 20, d) * 0.03 + 0.15 + 0.7 * (j / max(1, k - 1) if k > 1 else 0) for j in range(k)])
        w = rng.rand(len(X)) + 0.5
        np.random.seed(300 + t)
        before = ob.state_key()
        log = ob.EventLog(keep_calls=True)
        normalize = bool(t % 2)
        with ob.trace_events(log):
            h = ob.run_quiet(lambda: HierarchicalGaussianMixture(normalize=normalize, n_init=1 + t % 2).fit(X, w))
            ob.run_quiet(lambda: (h.predict(X), h.predict_proba(X)))
        c.case(("hgmm", t, d, k, normalize), True)
        c.count(f"hgmm_clusters={h.n_clusters_}")
        if ob.state_key() != before:
            c.disagree(input=("hgmm", t), impl="process-wide generator state changed by HierarchicalGaussianMixture.fit/predict",
                       model="C09_hgmm_fit_global_untouched: state after = state before")
        glob = [e for e in log.events if not e["tag"].startswith("p")]
        if glob:
            c.disagree(input=("hgmm", t), impl=f"process-wide events {ob.rle(glob)[:80]}", model="no process-wide event")
        # the private generator restarts from 42 at every mixture fit: its numbers are RandomState(42)'s, every time
        seg, ref = [], None
        for e in log.events + [{"tag": "pS:end", "result": None}]:
            if e["tag"].startswith("pS:"):
                if ref is not None:
                    want = np.random.RandomState(42).rand(len(seg)) if seg else np.array([])
                    if not np.array_equal(np.array(seg, dtype=float), want):
                        c.disagree(input=("hgmm", t), impl="private initialisation numbers are not the stream of RandomState(42) from position 0",
                                   model="C09_gmm_seeded_fit_private_values")
                if e["tag"] not in ("pS:42", "pS:end"):
                    c.disagree(input=("hgmm", t), impl=f"private generator created from {e['tag']}", model="literal 42 (gmmInstantiations)")
                seg, ref = [], e["tag"]
            elif e["tag"].startswith("p") and e.get("result") is not None:
                seg += list(np.asarray(e["result"], dtype=float).ravel())
        # direct mixture fits: with and without random_state
        for rs in (None, 3 + t):
            ni, nc = 1 + t % 2, 1 + (t // 2) % 3
            np.random.seed(500 + t)
            before = ob.state_key()
            log2 = ob.EventLog()
            with ob.trace_events(log2):
                ob.run_quiet(lambda: GaussianMixture(n_components=nc, n_init=ni, random_state=rs).fit(X, w))
            lines.append(f"c09.gmm rs={'none' if rs is None else rs} ninit={ni} ncomp={nc}")
            expect.append(ob.rle(log2.events))
            c.case(("gmm", t, rs is None, ni, nc), True)
            c.count("gmm_unseeded" if rs is None else "gmm_seeded")
            after = ob.state_key()
            if rs is not None and after != before:
                c.disagree(input=("gmm", t, rs), impl="process-wide state changed by a fit with random_state", model="C09_gmm_seeded_fit_global_untouched")
            if rs is None:
                g = np.random.RandomState(500 + t)
                g.random_sample(ni * nc)
                if ob.state_key(g.get_state()) != after:
                    c.disagree(input=("gmm", t, None), impl="process-wide state after an unseeded fit is not the ambient state advanced by n_init*n_components doubles",
                               model="C09_gmm_unseeded_fit_draws_global")
    # read-side operations of a sampler that has run: posterior(resample=True) takes ONE uniform (systematicResample none),
    # everything else nothing
    for cfgr in ((False, "rwm", "syst", "plain", 41), (True, "tpcn", "mult", "bimodal", 42)):
        sr = _run_cfg(_mk(cfgr), cfgr)
        for tag, op, want in (("posterior()", lambda: sr.posterior(), "-"),
                              ("posterior(resample=True)", lambda: sr.posterior(resample=True), None),
                              ("posterior(resample=True, trim_importance_weights=False)",
                               lambda: sr.posterior(resample=True, trim_importance_weights=False), None),
                              ("posterior(return_logw=True)", lambda: sr.posterior(return_logw=True), "-"),
                              ("evidence()", lambda: sr.evidence(), "-"), ("results()", lambda: sr.results(), "-"),
                              ("save_state", None, "-")):
            log4 = ob.EventLog()
            import tempfile
            with tempfile.TemporaryDirectory() as dsave, ob.trace_events(log4):
                ob.run_quiet(op if op is not None else (lambda: sr.save_state(os.path.join(dsave, "x.state"))))
            c.case(("read-side", cfgr[0], tag), True)
            c.count("read_side_ops")
            if want is None:
                lines.append("c09.syst rs=none")
                expect.append(ob.rle(log4.events))
            elif ob.rle(log4.events) != want:
                c.disagree(input=tag, impl=ob.rle(log4.events), model=f"{want} (no RNG effect)")
    from tempest.tools import systematic_resample
    for rs in (None, 0, 9):
        log3 = ob.EventLog()
        with ob.trace_events(log3):
            systematic_resample(6, np.ones(6) / 6, **({} if rs is None else {"random_state": rs}))
        lines.append(f"c09.syst rs={'none' if rs is None else rs}")
        expect.append(ob.rle(log3.events))
        c.case(("syst", rs), True)
    out = drv.batch(lines)
    for ln, o, e in zip(lines, out, expect):
        if o != e:
            c.disagree(input=ln, impl=e, model=o)
    c.sample({"op": lines[0], "model_and_real": out[0]})
    return c


def _positions(log, n_iter):
    starts, pos = [], 0
    for i in range(n_iter):
        starts.append(pos)
        pos += sum(e["n"] for e in log.events if e["it"] == i and e["tag"] in ("U", "Z", "G", "I"))
    return starts, pos


def _writer(cfg, d, random_state="cfg", ambient=None):
    """an instrumented run that writes a checkpoint before every iteration (save_every=1)"""
    s = _mk(cfg, random_state=random_state, output_dir=d, output_label="ck")
    log, obs = ob.EventLog(), []
    if ambient is not None:
        np.random.seed(ambient)
    with ob.trace_events(log), ob.observe_iterations(s, log, obs):
        ob.run_quiet(lambda: s.run(n_total=_n_total(cfg), progress=False, save_every=1))
    cks = {int(f.split("_")[1].split(".")[0]): os.path.join(d, f) for f in os.listdir(d)
           if f.startswith("ck_") and not f.endswith("final.state")}
    return s, log, obs, cks


def _saved_rng_state(path):
    import dill
    with open(path, "rb") as fh:
        return dill.load(fh)["rng_state"]


def resume_violations(configs):
    """property oracle on the REAL code: a run resumed from a checkpoint that receives again numbers the writer had already
    consumed (its first iteration starts from a generator state at which an EARLIER iteration of the writer started, or its
    first batch of prior draws is a copy of the writer's first batch)"""
    import tempfile
    bad = []
    for cfg in configs:
        with tempfile.TemporaryDirectory() as d:
            s0, log0, obs0, cks = _writer(cfg, d)
            for k in sorted(cks)[:1] + sorted(cks)[-1:]:
                s, log, obs, _ = _observed_run(cfg, random_state=cfg[4], ambient=999, resume=cks[k])
                if not obs:
                    continue
                earlier = [o.start_state for o in obs0[:k]]
                u = s.state.get_history("u")
                dup = len(u) > k and np.array_equal(u[k], u[0])
                if obs[0].start_state in earlier or dup:
                    bad.append({"what": f"run(resume_state_path=checkpoint written before iteration {k}) of a sampler with random_state={cfg[4]} "
                                        f"replays the stream of the run that wrote it ("
                                        f"{'resumed batch == first batch bit for bit' if dup else 'starts from the generator state of an earlier iteration'})",
                                "config": {"clustering": cfg[0], "kernel": cfg[1], "resample": cfg[2]}, "random_state": cfg[4],
                                "like": cfg[3], "resume": k})
                    break
    return bad


def rerun_violations(configs):
    """property oracle on the REAL code: a second run() on a sampler that has run (or load_state(); run()) whose first
    iteration starts from a generator state at which an iteration of the first run started — the stream was put back"""
    bad = []
    for cfg in configs:
        s = _mk(cfg)
        log, obs = ob.EventLog(), []
        np.random.seed(808)
        with ob.trace_events(log), ob.observe_iterations(s, log, obs):
            ob.run_quiet(lambda: s.run(n_total=_n_total(cfg), progress=False))
            n1 = len(obs)
            ob.run_quiet(lambda: s.run(n_total=4 * _n_total(cfg), progress=False))
        if len(obs) > n1 and obs[n1].start_state in [o.start_state for o in obs[:n1]]:
            bad.append({"what": f"a second run() of a sampler with random_state={cfg[4]} starts from the generator state at which "
                                f"iteration {[o.start_state for o in obs[:n1]].index(obs[n1].start_state)} of its first run started",
                        "config": {"clustering": cfg[0], "kernel": cfg[1], "resample": cfg[2]}, "random_state": cfg[4],
                        "like": cfg[3], "rerun": True})
    return bad


class _Unpicklable:
    """stands for an open handle / a captured stream: refuses to be pickled"""

    def __reduce_ex__(self, protocol):
        raise TypeError("cannot pickle '_Unpicklable' instances")


class _HandleLikelihood:
    """a likelihood OBJECT holding an unpicklable attribute (same values as the plain test likelihood)"""

    def __init__(self):
        self.handle = _Unpicklable()

    def __call__(self, x):
        return -0.5 * float(np.sum((x - 0.3) ** 2)) * 2.0


class _CapturedStream(io.StringIO):
    """a text stream that refuses to be pickled (pytest capture, notebook OutStream)"""

    def __reduce_ex__(self, protocol):
        raise TypeError("cannot pickle '_CapturedStream' instances")


def _positionless_files(cfg, d):
    """every way a checkpoint file WITHOUT a stored stream position can reach load_state / resume_state_path:
    (tag, path, sampler factory).  All derive from the first checkpoint of a seeded run (still in warm-up, where a replay of the
    stream shows as a bit-copy of the first batch).  A route the library refuses (it raises while writing) yields no file."""
    import dill
    out = []
    s0, log0, obs0, cks = _writer(cfg, d)
    k = min(cks)
    with open(cks[k], "rb") as fh:
        dd = dill.load(fh)
    for tag, edit in (("rng_state key removed (file written before the position was recorded)", lambda x: x.pop("rng_state", None)),
                      ("rng_state = None", lambda x: x.__setitem__("rng_state", None))):
        d2 = dict(dd)
        edit(d2)
        p = os.path.join(d, f"pl_{len(out)}.state")
        with open(p, "wb") as fh:
            dill.dump(d2, fh)
        out.append((tag, p, lambda: _mk(cfg)))
    # StateManager's own (state-only) file format
    carrier = _mk(cfg)
    ob.run_quiet(lambda: carrier.load_state(cks[k]))
    p = os.path.join(d, "pl_statemanager.state")
    ob.run_quiet(lambda: carrier.state.save_state(p))
    out.append(("file written by sampler.state.save_state (state-only format)", p, lambda: _mk(cfg)))
    # checkpoints written by run(save_every=1) while the sampler object cannot be pickled
    if cfg[3] == "plain" and not cfg[0]:
        def mk_handle(**kw):
            return _sampler(cfg[0], cfg[1], cfg[2], random_state=cfg[4], like=_HandleLikelihood(), **kw)
        for tag, label, progress in (("checkpoint written while the likelihood object is not picklable", "ckh", False),
                                     ("checkpoint written while the progress stream is not picklable", "ckp", True)):
            sw = mk_handle(output_dir=d, output_label=label) if not progress else _mk(cfg, output_dir=d, output_label=label)
            real_err = sys.stderr
            if progress:
                sys.stderr = _CapturedStream()
            try:
                ob.run_quiet(lambda: sw.run(n_total=_n_total(cfg), progress=progress, save_every=1))
            except Exception:      # the library refuses to write such a checkpoint: nothing to resume from
                pass
            finally:
                sys.stderr = real_err
            p = os.path.join(d, f"{label}_{k}.state")
            if os.path.exists(p):
                out.append((tag, p, (lambda: mk_handle()) if not progress else (lambda: _mk(cfg))))
    return out, k


def positionless_violations(configs, counter=None):
    """property oracle on the REAL code for checkpoint files that carry no stream position: nothing can be restored from them,
    so (A) after load_state the process-wide stream must still depend on the seed in force before the load, and (B) a run resumed
    from them must not receive again numbers an earlier iteration received (no batch is a bit-copy of an earlier batch) and
    must depend on the ambient stream.  A load the library refuses (exception) is not a violation."""
    import tempfile
    bad = []
    for cfg in configs:
        with tempfile.TemporaryDirectory() as d:
            files, k = _positionless_files(cfg, d)
            for tag, path, mk in files:
                if counter is not None:
                    counter(tag)
                desc = {"config": {"clustering": cfg[0], "kernel": cfg[1], "resample": cfg[2]}, "random_state": cfg[4],
                        "like": cfg[3], "positionless": tag}
                after, firsts, refused = [], [], False
                for ambient in (1, 2):
                    np.random.seed(ambient)
                    np.random.rand(5)
                    s = mk()
                    try:
                        ob.run_quiet(lambda: s.load_state(path))
                    except Exception:
                        refused = True
                        break
                    after.append(np.random.rand(3).tolist())
                if refused:
                    continue
                if after[0] == after[1]:
                    bad.append(dict(desc, what=f"after load_state({tag}) on a sampler with random_state={cfg[4]} the global stream is the same "
                                               f"for ambient seeds 1 and 2 (first draws {after[0]}): the load reset it to a fixed value"))
                    continue
                for ambient in (1, 2):
                    np.random.seed(ambient)
                    s = mk()
                    try:
                        ob.run_quiet(lambda: s.run(n_total=_n_total(cfg), progress=False, resume_state_path=path))
                    except Exception:
                        refused = True
                        break
                    u = s.state.get_history("u")
                    copies = [(j, i) for i in range(k, len(u)) for j in range(i) if np.array_equal(u[i], u[j])]
                    if copies:
                        bad.append(dict(desc, what=f"run(resume_state_path={tag}) with random_state={cfg[4]}: batch {copies[0][1]} of the history is a "
                                                   f"bit-for-bit copy of batch {copies[0][0]} (the stream was put back and replayed)"))
                        break
                    firsts.append(np.array(u[k], copy=True) if len(u) > k else None)
                else:
                    if len(firsts) == 2 and firsts[0] is not None and np.array_equal(firsts[0], firsts[1]):
                        bad.append(dict(desc, what=f"run(resume_state_path={tag}) with random_state={cfg[4]}: the first resumed batch is the same "
                                                   f"for ambient seeds 1 and 2 (no stream position in the file, so the stream was reset)"))
    return bad


def multirun_violations(configs, counter=None):
    """property oracle on the REAL code for a sampler object on which run() is called SEVERAL times after its state came from a
    checkpoint (load_state(path), or run(resume_state_path=path)) or from a fresh run: growing n_total, the ambient stream
    reseeded before every call.  Only a call that LOADS a file may put the stream to a stored position; every later call must
    continue the stream it finds: (A) its first iteration does not start from a generator state at which an earlier iteration
    of this object started; (B) what follows the call differs for two different ambient seeds; (C) no batch is a bit-copy of an
    earlier batch."""
    import tempfile
    bad = []
    for cfg in configs:
        with tempfile.TemporaryDirectory() as d:
            s0, log0, obs0, cks = _writer(cfg, d)
            ks = sorted(cks)
            ck = cks[ks[len(ks) // 2]]
            n = _n_total(cfg)
            for how in ("load_state", "resume_state_path", "fresh run"):
                if counter is not None:
                    counter(how)
                desc = {"config": {"clustering": cfg[0], "kernel": cfg[1], "resample": cfg[2]}, "random_state": cfg[4],
                        "like": cfg[3], "multirun": how}
                after = {}
                found = None
                for inst, base in (("A", 100), ("B", 200)):
                    s = _mk(cfg)
                    log, obs = ob.EventLog(), []
                    with ob.trace_events(log), ob.observe_iterations(s, log, obs):
                        calls = []
                        if how == "load_state":
                            ob.run_quiet(lambda: s.load_state(ck))
                            calls = [dict(n_total=2 * n), dict(n_total=4 * n), dict(n_total=6 * n)]
                        elif how == "resume_state_path":
                            calls = [dict(n_total=2 * n, resume_state_path=ck), dict(n_total=4 * n), dict(n_total=6 * n)]
                        else:
                            calls = [dict(n_total=n), dict(n_total=3 * n), dict(n_total=5 * n)]
                        for i, kw in enumerate(calls):
                            np.random.seed(base + i)
                            np.random.rand(3)
                            n_before = len(obs)
                            ob.run_quiet(lambda: s.run(progress=False, **kw))
                            after[(inst, i)] = np.random.rand(3).tolist()
                            loads = "resume_state_path" in kw or (how == "load_state" and i == 0)
                            if not loads and i > 0 and len(obs) > n_before and found is None \
                                    and obs[n_before].start_state in [o.start_state for o in obs[:n_before]]:
                                j = [o.start_state for o in obs[:n_before]].index(obs[n_before].start_state)
                                found = (f"run() call #{i + 1} (n_total={kw['n_total']}) on a sampler whose state came from {how} starts from the "
                                         f"generator state at which iteration {j} of an earlier call on this object started: the stream was put back")
                    u = s.state.get_history("u")
                    first_new = {"load_state": ks[len(ks) // 2], "resume_state_path": ks[len(ks) // 2], "fresh run": 1}[how]
                    copies = [(j, i) for i in range(first_new, len(u)) for j in range(i) if np.array_equal(u[i], u[j])]
                    if copies and found is None:
                        found = f"after {how} and three run() calls batch {copies[0][1]} of the history is a bit-for-bit copy of batch {copies[0][0]}"
                if found is None:
                    for i in (1, 2):
                        if after[("A", i)] == after[("B", i)]:
                            found = (f"after run() call #{i + 1} on a sampler whose state came from {how} the global stream is the same for "
                                     f"ambient seeds {100 + i} and {200 + i} (first draws {after[('A', i)]}): the call reset it to a fixed position")
                            break
                if found:
                    bad.append(dict(desc, what=found))
    return bad


def suite_resume(tier):
    """what save / run(resume_state_path=…) do to the stream, against Model.RngRun (saveState / loadState / runSampling)"""
    import tempfile
    import dill
    c = Corr("resume-semantics", "exact (generator state restored = state at save; event log vs model; fingerprints)")
    drv = common.Driver()
    cfgs = [(False, "rwm", "syst", "plain", 21), (True, "tpcn", "mult", "bimodal", 22), (False, "tpcn", "mult", "half", None)]
    if tier == "thorough":
        cfgs += [(True, "rwm", "syst", "plain", 24), (False, "rwm", "mult", "half", 25), (True, "tpcn", "syst", "bimodal", None)]
    lines, expect = [], []
    for cfg in cfgs:
        seeded = cfg[4] is not None
        with tempfile.TemporaryDirectory() as d:
            s0, log0, obs0, cks = _writer(cfg, d, ambient=555)
            fp0 = _fingerprint(s0)
            # writing checkpoints does not perturb the run (C09_saving_does_not_perturb)
            np.random.seed(555)
            if _fingerprint(_run_cfg(_mk(cfg), cfg)) != fp0:
                c.disagree(input=cfg, impl="the run with save_every=1 differs from the run without checkpoints",
                           model="C09_saving_does_not_perturb")
            c.case(("saving", cfg), True)
            if len(cks) < 3:
                c.error = "no checkpoints written"
                continue
            if any(":" in e["tag"] and not e["tag"].startswith("pS") for e in log0.events if e["it"] >= 0):
                c.disagree(input=cfg, impl="writing checkpoints seeded / restored the stream", model="saveState: getst only")
            pos0, _ = _positions(log0, len(obs0))
            ks = sorted(cks)
            points = [("warm-up", ks[0]), ("annealing", ks[-1])] + ([("middle", ks[len(ks) // 2])] if tier == "thorough" else [])
            for which, k in points:
                fps = []
                for ambient, ctor_seed in (((1, cfg[4]), (2, 4040)) if (tier == "thorough" or which == "warm-up") else ((1, 4040),)):
                    s, log, obs, _ = _observed_run(cfg, random_state=ctor_seed, ambient=ambient, resume=cks[k])
                    fps.append(_fingerprint(s))
                    if ambient != 1:
                        continue
                    tags = [e["tag"] for e in log.events if ":" in e["tag"] and not e["tag"].startswith("p")]
                    if tags != ["R:"]:
                        c.disagree(input=(cfg, which), impl=f"seeding / restore events of the resumed run: {tags}",
                                   model="exactly one restore (loadState (some s)), no seeding")
                    # position restored = position at save
                    if obs and obs[0].start_state != obs0[k].start_state:
                        c.disagree(input=(cfg, which), impl="generator state after load differs from the state the writer had when it saved",
                                   model="C09_resume_continues_stream / C09_save_reads_position")
                    # iteration by iteration the resumed run is on the writer's stream
                    for j, o in enumerate(obs):
                        if k + j < len(obs0) and o.start_state != obs0[k + j].start_state:
                            c.disagree(input=(cfg, which, j), impl="resumed iteration starts from another generator state than the uninterrupted run",
                                       model="C09_resume_continues_stream")
                            break
                    args = ob.cfg_args(s)
                    allobs = obs0[:k] + obs
                    its = " ".join(f"i{i}={o.token()}" for i, o in enumerate(allobs))
                    lines.append(f"c09.run {args} fuel={FUEL} rs={'none' if cfg[4] is None else cfg[4]} resume=at:{k} n={len(allobs)} {its}")
                    rel, _ = _positions(log, len(obs))
                    expect.append(ob.rle(log.events) + " starts=" + (",".join(str(pos0[k] + p) for p in rel) if rel else "-"))
                    u = s.state.get_history("u")
                    if len(u) > k and np.array_equal(u[k], u[0]):
                        c.count("resumed_batch_equals_first_batch")
                c.case(("resume", cfg, which), True)
                c.count(f"resume_{which}{'' if seeded else '_unseeded_writer'}")
                if fps[0] != fps[-1]:
                    c.disagree(input=(cfg, which), impl="resumed runs differ with the ambient stream or the constructor's random_state",
                               model="C09_run_resume_deterministic: a function of the checkpoint alone")
                if fps[0] != fp0:
                    c.disagree(input=(cfg, which), impl="the resumed run differs from the uninterrupted run",
                               model="C09_resume_continues_stream: same final state and data as the uninterrupted run")
            # the manual flow of the user guide: load_state(path); run() — the loaded state holds a history, so run() takes the
            # CONTINUE branch (no seeding; since aeb0399) and is the same as run(resume_state_path=path); a second run() on a
            # finished sampler continues likewise
            if cfg[3] != "bimodal":
                manual = os.path.join(d, "manual.state")
                s0.save_state(manual)
                fpm = []
                for how in ("load_state+run", "resume_state_path"):
                    sb = _mk(cfg)
                    logl = ob.EventLog()
                    np.random.seed(4)
                    if how == "load_state+run":
                        with ob.trace_events(logl):
                            ob.run_quiet(lambda: sb.load_state(manual))
                        if ob.rle(logl.events) != "R:":
                            c.disagree(input=(cfg, "load_state"), impl=ob.rle(logl.events), model="R: (loadState (some s))")
                    logb, obsb = ob.EventLog(), []
                    with ob.trace_events(logb), ob.observe_iterations(sb, logb, obsb):
                        ob.run_quiet(lambda: sb.run(n_total=4 * _n_total(cfg), progress=False,
                                                    resume_state_path=manual if how == "resume_state_path" else None))
                    fpm.append(_fingerprint(sb))
                    if how == "load_state+run":
                        args = ob.cfg_args(sb)
                        its = " ".join(f"i{i}={o.token()}" for i, o in enumerate(obsb))
                        lines.append(f"c09.run {args} fuel={FUEL} rs={'none' if cfg[4] is None else cfg[4]} resume=continue n={len(obsb)} {its}")
                        rel, _ = _positions(logb, len(obsb))
                        expect.append(ob.rle(logb.events) + " starts=" + (",".join(map(str, rel)) if rel else "-"))
                        if obsb and obsb[0].start_state != ob.state_key(_saved_rng_state(manual)):
                            c.disagree(input=(cfg, how), impl="the continuation does not start at the position stored in the checkpoint",
                                       model="C09_load_then_run_is_resume / C09_resume_continues_stream")
                if fpm[0] != fpm[1]:
                    c.disagree(input=(cfg, "manual continue"), impl="load_state(p); run() differs from run(resume_state_path=p)",
                               model="C09_load_then_run_is_resume")
                # extending a finished run: run(n); run(4n) on one object == run(4n) once? (same stream, nothing replayed):
                # the single run stops later than the first, so compare with a writer that ran to 4n from the start
                sx = _mk(cfg)
                np.random.seed(555)
                logx, obsx = ob.EventLog(), []
                ob.run_quiet(lambda: sx.run(n_total=_n_total(cfg), progress=False))
                with ob.trace_events(logx), ob.observe_iterations(sx, logx, obsx):
                    ob.run_quiet(lambda: sx.run(n_total=4 * _n_total(cfg), progress=False))
                if any(":" in e["tag"] and not e["tag"].startswith("p") for e in logx.events):
                    c.disagree(input=(cfg, "second run()"), impl=f"seeding / restore events in a second run(): {ob.rle(logx.events)[:60]}",
                               model="C09_run_with_history_continues: no seeding")
                if _fingerprint(sx) != fpm[0]:
                    c.disagree(input=(cfg, "second run()"), impl="run(n); run(4n) on one sampler differs from continuing its saved state",
                               model="C09_second_run_continues")
                c.case(("load_state-then-run", cfg), True)
                c.case(("second-run", cfg), True)
                c.count("manual_continue")
            # a checkpoint WITHOUT stored position (older file format): the resumed run continues the ambient stream
            with open(cks[ks[1]], "rb") as fh:
                dd = dill.load(fh)
            dd.pop("rng_state", None)
            legacy = os.path.join(d, "legacy.state")
            with open(legacy, "wb") as fh:
                dill.dump(dd, fh)
            fu = []
            for ambient in (1, 2):
                s, log, obs, final = _observed_run(cfg, random_state=99, ambient=ambient, resume=legacy, keep_calls=True)
                fu.append(_fingerprint(s))
                if any(":" in e["tag"] and not e["tag"].startswith("p") for e in log.events):
                    c.disagree(input=(cfg, "legacy checkpoint"), impl="the resumed run seeded / restored the process-wide stream",
                               model="loadState none = nothing (C09_run_resume_legacy_on_orbit)")
                gen = np.random.RandomState(ambient)
                if _replay_calls(log.events, gen) is not None or ob.state_key(gen.get_state()) != final:
                    c.disagree(input=(cfg, "legacy checkpoint"), impl="the resumed run did not continue the ambient stream",
                               model="C09_run_resume_legacy_on_orbit")
                if ambient == 1:
                    args = ob.cfg_args(s)
                    its = " ".join(f"i{i}={o.token()}" for i, o in enumerate(obs))
                    lines.append(f"c09.run {args} fuel={FUEL} rs=99 resume=legacy n={len(obs)} {its}")
                    rel, _ = _positions(log, len(obs))
                    expect.append(ob.rle(log.events) + " starts=" + (",".join(map(str, rel)) if rel else "-"))
            c.case(("resume-legacy", cfg), True)
            c.count("resume_legacy_checkpoint")
            if fu[0] == fu[1]:
                c.disagree(input=(cfg, "legacy checkpoint"), impl="resumed runs identical for ambient seeds 1 and 2",
                           model="ambient dependence preserved")
    # several run() calls on one object after load_state / run(resume_state_path) / a fresh run, ambient reseeded in between:
    # only the loading call may restore a position (model: C09_run_with_history_continues for every later call)
    mr_cfgs = [(False, "rwm", "syst", "plain", 21)] + ([(True, "tpcn", "mult", "bimodal", 22), (False, "tpcn", "mult", "half", 26)] if tier == "thorough" else [])
    for cfg in mr_cfgs:
        hows = []
        for bviol in multirun_violations([cfg], counter=hows.append):
            c.disagree(input=(cfg, bviol["multirun"]), impl=bviol["what"], model="a run() that does not load continues the stream it finds (C09_run_with_history_continues, C09_second_run_continues)")
        for h in hows:
            c.case(("multirun", cfg, h), True)
            c.count("three_run_calls_after_" + h.replace(" ", "_"))
    # files without a stored stream position, however they arise: no reset, no replay (model: loadState none)
    pl_cfgs = [(False, "rwm", "syst", "plain", 21)] + ([(True, "tpcn", "mult", "bimodal", 22), (False, "tpcn", "mult", "half", 26)] if tier == "thorough" else [])
    for cfg in pl_cfgs:
        tags = []
        for bviol in positionless_violations([cfg], counter=tags.append):
            c.disagree(input=(cfg, bviol["positionless"]), impl=bviol["what"], model="loadState none: no seeding, no restore (C09_run_resume_legacy_on_orbit)")
        for t in tags:
            c.case(("positionless", cfg, t), True)
            c.count("positionless_file: " + t.split(" (")[0][:60])
    out = drv.batch(lines)
    for ln, o, e in zip(lines, out, expect):
        if o != e:
            c.disagree(input=ln[:300], impl=e[:300], model=o[:300])
    if lines:
        c.sample({"op": lines[0][:200], "model_and_real": out[0][:200]})
    return c


def suite_callgraph(tier):
    from translate import g3_graph
    c = Corr("call-graph", "exact (observed call edges ⊆ static over-approximated graph)")
    a, spans = g3_graph.static_edges()
    observed = set()
    import tempfile
    runs = [(True, "tpcn", "mult", "bimodal", 5), (False, "rwm", "syst", "half", 6)]
    with ob.profile_edges(observed, spans):
        for cfg in runs:
            with tempfile.TemporaryDirectory() as d:
                s = _mk(cfg, output_dir=d, output_label="cg")
                ob.run_quiet(lambda: s.run(n_total=_n_total(cfg), progress=False, save_every=2))
                ob.run_quiet(lambda: (s.posterior(), s.posterior(resample=True), s.evidence(), s.results(), s.random_state, s.beta))
                ck = [f for f in os.listdir(d) if f.endswith("_2.state")]
                s2 = _mk(cfg, output_dir=d, output_label="cg2")
                ob.run_quiet(lambda: s2.run(n_total=_n_total(cfg), progress=False, resume_state_path=os.path.join(d, ck[0])))
                s3 = _mk(cfg)
                ob.run_quiet(lambda: s3.load_state(os.path.join(d, ck[0])))
            c.case(("profiled-run", cfg), True)
    edges = a["edges"]
    funcs = a["funcs"]
    missing = []
    n = 0
    for caller, callee in sorted(observed, key=str):
        if isinstance(caller, tuple):
            continue
        n += 1
        if callee not in edges[caller]:
            missing.append(f"{funcs[caller].qual} -> {funcs[callee].qual}")
    c.stats["observed_edges"] = n
    c.stats["static_edges"] = sum(len(v) for v in edges.values())
    c.stats["functions"] = len(funcs)
    if missing:
        c.disagree(input="profiled runs", impl=missing[:12], model="every call edge is in Gen.RngGraph.edges")
    c.sample({"observed_edges": n, "example": [f"{funcs[a_].qual} -> {funcs[b_].qual}" for a_, b_ in sorted(x for x in observed if not isinstance(x[0], tuple))[:4]]})
    return c


class _OrderedPool:
    """a pool whose map preserves input order (what the package assumes of a pool)"""

    def __init__(self):
        from multiprocessing.pool import ThreadPool
        self._p = ThreadPool(2)

    def map(self, f, xs):
        return self._p.map(f, list(xs))

    def close(self):
        self._p.close()


def pool_violations(configs):
    bad = []
    for cfg in configs:
        np.random.seed(1)
        serial = _fingerprint(_run_cfg(_mk(cfg), cfg))
        for tag, mk in (("pool object with map", _OrderedPool), ("pool=1", lambda: 1)):
            pool = mk()
            try:
                np.random.seed(2)
                par = _fingerprint(_run_cfg(_mk(cfg, pool=pool), cfg))
            finally:
                if hasattr(pool, "close"):
                    pool.close()
            if par != serial:
                bad.append({"what": f"random_state={cfg[4]} with {tag} differs from the serial run",
                            "config": {"clustering": cfg[0], "kernel": cfg[1], "resample": cfg[2]}, "random_state": cfg[4],
                            "like": cfg[3], "pool": tag})
    return bad


def _run_cfg(s, cfg):
    ob.run_quiet(lambda: s.run(n_total=_n_total(cfg), progress=False))
    return s


def suite_pool(tier):
    c = Corr("pool-reproducible", "exact (fingerprint with a pool = serial fingerprint)")
    cfgs = [(False, "rwm", "syst", "plain", 31), (True, "tpcn", "mult", "bimodal", 32)]
    if tier == "thorough":
        cfgs += [(False, "tpcn", "mult", "half", 33), (True, "rwm", "syst", "plain", 34)]
    for cfg in cfgs:
        c.case(("pool", cfg), True)
        for b in pool_violations([cfg]):
            c.disagree(input=cfg, impl=b["what"], model="library draws happen in the parent process only; pool.map preserves order")
    c.sample({"configs": cfgs})
    return c


SEED_PAIRS = [(5, 5 + 2 ** 31 - 1), (4000000000, 4000000000 - (2 ** 31 - 1)), (2 ** 31 - 1, 0), (0, 2 ** 31), (1, 2 ** 32 - 1),
              (2 ** 32 - 1, 2 ** 32 - 2), (2 ** 31, 2 ** 31 - 1), (7, 7 + 2 ** 16), (3, 3 + 2 ** 24), (123456789, 123456789 + 2 ** 31),
              (2 ** 32 - 1, 2 ** 31 - 1), (2 ** 32 - 2, 0), (65535, 65536), (2 ** 30, 2 ** 30 + 2 ** 31 - 1)]
INVALID_SEEDS = [-1, -5, 2 ** 32, 2 ** 32 + 5, 2 ** 33 + 1, 5.0, 1.5]


def _first_batch(seed, clustering=False):
    """the prior batch of the first iteration of a fresh seeded run (one warm-up iteration; cheap)"""
    np.random.seed(987654)
    s = _sampler(clustering, "rwm", "syst", random_state=seed)
    with _quiet(), warnings.catch_warnings():
        warnings.simplefilter("ignore")
        s._core._initialize_fresh()
        s.sample()
    return np.array(s.state.get_history("u")[0], copy=True)


def seedrange_violations(pairs=None, invalid=None, counter=None):
    """property oracle on the REAL code over the WHOLE range of valid seeds [0, 2^32): (A) the first batch of a run seeded with
    `a` is the stream of exactly that seed (np.random.RandomState(a).random_sample(N*D)); (B) two different valid seeds whose
    MT19937 streams start differently give different runs; (C) a value np.random.seed does not accept (negative, >= 2^32,
    float) is either refused or at least does not reproduce the run of a valid seed it could have been folded onto."""
    bad = []
    for a, b in (SEED_PAIRS if pairs is None else pairs):
        if counter is not None:
            counter("pair")
        ua, ub = _first_batch(a), _first_batch(b)
        for sd, u in ((a, ua), (b, ub)):
            want = np.random.RandomState(sd).random_sample(u.size).reshape(u.shape)
            if not np.array_equal(u, want):
                bad.append({"what": f"the first batch of a run with random_state={sd} is not the stream of seed {sd} "
                                    f"(u[0,0]={u[0, 0]!r}, RandomState({sd}) gives {want[0, 0]!r})", "seedrange": [a, b]})
                break
        else:
            if np.random.RandomState(a).random_sample() != np.random.RandomState(b).random_sample() and np.array_equal(ua, ub):
                bad.append({"what": f"random_state={a} and random_state={b} (both valid seeds) gave bit-identical first batches", "seedrange": [a, b]})
    for v in (INVALID_SEEDS if invalid is None else invalid):
        if counter is not None:
            counter("invalid")
        try:
            u = _first_batch(v)
        except Exception:
            continue              # refused: fine
        cands = {int(v) % (2 ** 31 - 1), int(v) % 2 ** 32, int(v) % 2 ** 31, abs(int(v)) % 2 ** 32, int(v) & 0xFFFFFFFF}
        for cnd in sorted(cands):
            if np.array_equal(u, np.random.RandomState(cnd).random_sample(u.size).reshape(u.shape)):
                bad.append({"what": f"random_state={v!r} (not a valid seed) is accepted and reproduces the run of the valid seed {cnd}",
                            "seedrange_invalid": repr(v)})
                break
    return bad


def correspond(tier):
    out = [suite_sites(tier)]
    c = Corr("seeded-run-deterministic", "exact (bit-identical fingerprints)")
    configs = [(False, "rwm", "syst", 0, 1), (True, "tpcn", "mult", 7, 8), (True, "rwm", "syst", 3, 4), (False, "tpcn", "mult", 11, 12)]
    configs.append((False, "rwm", "mult", 5, 6, "tiny"))     # warm-up batches redrawn (Mutator.run while-loop)
    if tier == "thorough":
        configs += [(cl, k, r, a, a + 1) for cl in (True, False) for k in ("tpcn", "rwm") for r in ("mult", "syst") for a in (20, 40, 60)]
    for cfg in configs:
        c.case(cfg, True)
        c.count("clustering" if cfg[0] else "no_clustering")
        # hypothesis `hfirst` of C09_different_seeds_differ / C09_run_different_seeds_differ, checked on MT19937 itself:
        # the first double of the two seeds differs (the first RNG event of a fresh run is the prior draw np.random.rand)
        if np.random.RandomState(cfg[3]).random_sample() == np.random.RandomState(cfg[4]).random_sample():
            c.count("hfirst_fails")
            c.stats.setdefault("hfirst_failed_for", []).append([cfg[3], cfg[4]])
        else:
            c.count("hfirst_holds")
        for b in repro_violations([cfg]):
            c.disagree(input=cfg, impl=b["what"], model="exec g a (seedArg :: p) is independent of the ambient state (C09_seeded_run_deterministic)")
    tags = []
    for bv in seedrange_violations(counter=tags.append):
        c.disagree(input=bv.get("seedrange", bv.get("seedrange_invalid")), impl=bv["what"],
                   model="initFresh (some a) = seed a: the run is the stream of exactly the given seed (C09_run_fresh_log_is_stream)")
    for i, t in enumerate(tags):
        c.case(("seedrange", t, i), True)
        c.count("seed_pairs_across_the_32bit_range" if t == "pair" else "invalid_seed_values")
    c.sample({"config": configs[0], "check": "same random_state twice -> identical fingerprint; different -> different"})
    out.append(c)
    c2 = Corr("no-global-reset", "exact (post-operation draws differ for different ambient seeds)")
    for name in _ops():
        c2.case(name, True)
        for b in reset_violations([name]):
            c2.disagree(input=name, impl=b["what"], model="program without seedLit: post-state injective in the pre-state (C09_no_reseed_injective)")
    c2.sample({"ops": list(_ops())})
    out.append(c2)
    out += [suite_plumbing(tier), suite_requests(tier), suite_stream(tier), suite_fits(tier), suite_resume(tier),
            suite_callgraph(tier), suite_pool(tier)]
    return out


def search(tier, hints):
    found = reset_violations()
    configs = [(cl, k, r, a, a + 1) for cl in (True, False) for k in ("tpcn", "rwm") for r in ("mult", "syst") for a in ((0,) if tier == "quick" else (0, 5, 9))]
    found += repro_violations(configs)
    if len(found) < 5:
        found += seedrange_violations()
    if len(found) < 5:
        found += repro_violations([(False, "rwm", "mult", 3, 4, "tiny"), (False, "tpcn", "syst", 0, 1, "tiny")])
    if len(found) < 5:
        lat = _lattice(tier)
        found += stream_violations(lat if tier == "thorough" else lat[:4] + lat[8:10])
    if len(found) < 5:
        found += resume_violations([(False, "rwm", "syst", "plain", 21), (True, "tpcn", "mult", "bimodal", 22)])
    if len(found) < 5:
        found += positionless_violations([(False, "rwm", "syst", "plain", 21), (True, "tpcn", "mult", "bimodal", 22)])
    if len(found) < 5:
        found += multirun_violations([(False, "rwm", "syst", "plain", 21), (True, "tpcn", "mult", "bimodal", 22)])
    if len(found) < 5:
        found += rerun_violations([(False, "rwm", "syst", "plain", 21), (True, "tpcn", "mult", "plain", 23)])
    if len(found) < 5:
        found += pool_violations([(False, "rwm", "syst", "plain", 31), (True, "tpcn", "mult", "bimodal", 32)])
    return found[:5]


def replay(obj):
    f = obj.get("failing_input", obj)
    if "witness" in f.get("replay", {}):
        from . import witnesses
        return witnesses.ALL[f["replay"]["witness"]]()
    if "op" in f:
        b = reset_violations([f["op"]])
    elif "seedrange" in f:
        b = seedrange_violations(pairs=[tuple(f["seedrange"])], invalid=[])
    elif "seedrange_invalid" in f:
        b = seedrange_violations(pairs=[], invalid=[v for v in INVALID_SEEDS if repr(v) == f["seedrange_invalid"]])
    elif f.get("multirun"):
        cfg = f["config"]
        t = (cfg["clustering"], cfg["kernel"], cfg["resample"], f.get("like", "plain"), f["random_state"])
        b = [x for x in multirun_violations([t]) if x["multirun"] == f["multirun"]]
    elif f.get("positionless"):
        cfg = f["config"]
        t = (cfg["clustering"], cfg["kernel"], cfg["resample"], f.get("like", "plain"), f["random_state"])
        b = [x for x in positionless_violations([t]) if x["positionless"] == f["positionless"]]
    elif f.get("stream") or f.get("pool") or "resume" in f or f.get("rerun"):
        cfg = f["config"]
        t = (cfg["clustering"], cfg["kernel"], cfg["resample"], f.get("like", "plain"), f["random_state"])
        b = (stream_violations([t]) if f.get("stream") else pool_violations([t]) if f.get("pool")
             else rerun_violations([t]) if f.get("rerun") else resume_violations([t]))
    else:
        cfg = f["config"]
        rs = f["random_state"]
        a, bb = (rs if isinstance(rs, list) else (rs, rs + 1))
        b = repro_violations([(cfg["clustering"], cfg["kernel"], cfg["resample"], a, bb) + ((f["repro_like"],) if f.get("repro_like") else ())])
    return {"fails": bool(b), "detail": b[:1]}
