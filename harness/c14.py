"""C14 — cluster labels and proposal modes stay coherent."""
import contextlib
import io
import os
import shutil
import tempfile
import warnings

import numpy as np

from . import common
from fractions import Fraction

from .common import Corr, flist, frac2s

ID = "C14"
LEAN_MODULES = ["TempestVerif.Props.C14", "TempestVerif.Props.C14Valid", "TempestVerif.Props.C14Resume", "TempestVerif.Props.C14Step",
                "TempestVerif.Props.C14Source"]
RULE = ("(1) labels->modes: generated label vectors (n<=14, K_fit<=6; full coverage permuted, gaps, singletons, sorted/reversed) fed to the "
        "REAL ModeStatistics.from_particles with fit_mvstud replaced by a tagging stub (point id in coordinate 0; scripted dof: finite/inf/nan; "
        "generated dof_fallback) and np.random.choice on a tape; K, the member list of every mode, the exact sequence fed to every fit "
        "(`modes.from`) and the stored degrees of freedom (`modes.dof`) are compared with Model.Modes. "
        "(2) label->mode lookup: scripted RAW assignments in 0..K_fit+2 (present labels, labels without a mode, out-of-range labels) and probe "
        "positions (dyadic, on and off the diagonal, d=1..3) on a real StateManager; the REAL Mutator.run (parallel_mcmc intercepted: the "
        "`assignments` it receives, and state['assignments'] afterwards), the real ModeStatistics.mode_index, then a real RWMRunner/TPCNRunner "
        "built with the received indices and `_propose(k)` with randn/gamma taped: the mode whose mean AND Cholesky factor were used (decoded "
        "from the proposal); index, relabelled assignment and mode members vs `modes.lookup d2=<exact squared distances to the stub means>` "
        "(the model takes the argmin itself; rows whose two smallest distances differ by < 1e-3 are not generated); also the labels=None "
        "path via the real from_global. "
        "(3) cadence: real Trainer+Resampler sharing a recording clusterer double on a real StateManager, cluster_every 1..7 x warm-up 1..6 x "
        "resume points (real to_dict/update_from_dict restore into fresh objects) x restored iter (+ random beta-bit schedules, clustering "
        "off); recorded N/F/P event string, verdict, iter vs `cad.trace`. "
        "(4) real runs: real Sampler.run with the real HierarchicalGaussianMixture over cluster_every {1,2,3,5} x n_max_clusters {None,1,2} x "
        "normalize, d in {1,2,3}, plus real save_state/load/resume; clusterer events vs `cad.trace` on the observed beta schedule, and at "
        "every parallel_mcmc call: indices<K, state labels = ModeStatistics.labels[index], present raw labels keep their own mode, labels "
        "without a mode go to the nearest mean, ModeStatistics.labels = sorted distinct training labels, finite means, symmetric scale "
        "matrices, cholesky ok, dof>0 finite, K<=cap (grid includes two-mode targets of unequal height with cluster_every 3 and 7, where a "
        "stale clusterer label has no mode); the wiring n_max_clusters -> max_iterations and the shared clusterer object vs `wire.maxit`. "
        "(5) cholesky contract: generated d=1..4 matrices (SPD, badly scaled SPD, indefinite, negative definite, rank deficient, zero, tiny, "
        "garbage above the diagonal, NaN) through the real np.linalg.cholesky and the real ModeStatistics constructor (batched): whatever is "
        "returned must satisfy Lemmas.CholeskyPD.IsCholeskyFactor within 1e-9, and no object may exist for a clearly non-PD finite matrix. "
        "(6) cadence-extended-real (second pass): REAL Sampler objects driven by scripts of run() / a second run() / save_state / load_state "
        "into the same or a new Sampler / run(resume_state_path) on the same or a new Sampler / iterations that raise (from_particles = a "
        "refused degenerate cluster, parallel_mcmc = the user's likelihood, trim_weights) followed by another run(); only the termination "
        "test is patched (k iterations per run); the real HierarchicalGaussianMixture is spied: N / F<generation> / P<generation> events, "
        "final iter and generation vs `c14x.trace` (Model.CadenceX) on the observed beta bits. "
        "(7) iteration-dataflow (second pass): real SamplerCore.execute_iteration (real Reweighter, Trainer, Resampler, Mutator, StateManager, "
        "trim_weights, from_particles, mode_index) with tempest.cluster.HierarchicalGaussianMixture replaced by a tagging double that the core "
        "constructs and shares itself, tagging fit_mvstud, parallel_mcmc intercepted (moves every walker to a fresh point); per annealing "
        "iteration: what fit / predict / from_particles received (ids and exact weights), the stored labels, the mode members, raw labels, "
        "indices and relabels vs `c14i.iter` (Model.TrainStep.annealIter on the same tagging components; the model decides fit-or-reuse "
        "itself from iter, cluster_every and the flag; trim_idx / weights_trimmed / resampled ids are read off the real run). "
        "(8) trainer-modes-real (second pass): generated clusters (generic, fewer points than d+1, one particle, one constant coordinate, "
        "points on a tilted line, duplicates) x flat / skewed / one-heavy weights, d=1..4, through the REAL from_particles with the real "
        "fit_mvstud and seeded np.random.choice: on every object that exists the statement's own oracle (K = distinct labels, mean finite and "
        "inside the bounding box of the particles carrying the label, scale symmetric with no eigenvalue below -1e-9 relative, dof positive "
        "finite); an exception other than LinAlgError is a disagreement; the constructor's verdict vs `c14g.gate` (Model.ModeGate.pdGate at "
        "Float) on every fitted scale matrix that is clearly positive definite (relative 1e-10) or has an exactly zero diagonal entry. "
        "(9) predict-batch-independence (seeded change C14f): generated pools of 2-3 neighbouring clusters of different width, all narrow in "
        "unit-cube coordinates (sigma 6e-4..1.1e-2), plus 3-13 far low-weight stragglers (>= 40 sigma from every cluster, where the "
        "densities underflow), d=1..3, through ONE real iteration (real Trainer.run with the real HierarchicalGaussianMixture wired as in "
        "core.py and the real fit_mvstud / trim_weights, real Resampler.run syst|mult, real Mutator.run, parallel_mcmc intercepted): model-free "
        "oracles -- every active particle that is also a training particle is sent to the mode fitted from the cluster the Trainer put THAT "
        "particle in; predict(batch)[i] == predict(batch[i:i+1])[0] on the active set, on training points + stragglers, on training points + "
        "points at +-1e3, on training points alone; a difference counts as a near_tie only if the point's two largest responsibilities differ "
        "by < 1e-9. The particle-wise oracle also runs at every mutation of suite 4. "
        "Non-trivial = (1,2) >=2 distinct labels and (a gap or unsorted order); (3) an annealing iteration with cluster_every>1 or a resume; "
        "(4) every run; (5) any batch that is not all plain SPD; (6) every script; (7) every annealing iteration; (8) a case with a "
        "non-generic cluster.")
MODELLED = ["fit_mvstud is replaced by a tagging stub in suites 1-3 (its numerical output is C19's subject); the real one runs in suite 4",
            "the weighted draw inside from_particles is modelled as an arbitrary tape of local indices (np.random.choice patched)",
            "the beta schedule is abstracted to one bit per iteration (beta == 0?), arbitrary in the model",
            "the clusterer is abstract in the cadence model (events fit/predict only): normalize on/off changes nothing there",
            "the nearest-mean fallback is modelled as the first minimum of a row of K distances; the row itself (Euclidean norms, "
            "BLAS/sqrt) is an input: suite 2 feeds the exact squared distances",
            "np.linalg.cholesky enters the theorems only through its contract on FINITE input (IsCholeskyFactor, checked by suite 5); on a "
            "matrix containing NaN/inf numpy returns a NaN factor without raising, so the constructor's gate does NOT reject non-finite "
            "scale matrices (ModeStatistics(zeros((1,2)), [[[1,0],[0,nan]]], [5.0]) builds); finiteness of what fit_mvstud returns is "
            "only checked on real runs",
            "finiteness of the mode means is an IEEE notion outside the exact-real model: checked on real runs only",
            "nan and +inf degrees of freedom are both the model's `none` (not finite)",
            "a clusterer `fit` that raises half-way (flag not set, object partly populated) is not modelled",
            "exceptions out of student.py / LinAlgError from the ModeStatistics constructor on a degenerate training cluster stop the run "
            "before mutation: counted, not C14's subject (C18/C19)",
            "second pass: the constructor's two LAPACK calls are the gate `Model.ModeGate.pdGate` (all Gauss-Jordan pivots > 0), proved equal to "
            "positive definiteness on positive semidefinite input (H_lapack as in C19; suites 5 and 8)",
            "second pass: in exact arithmetic a mode is refused iff its resample is constant in a coordinate (C14_mode_passes_gate_iff); in "
            "floats affinely degenerate resamples and Student-t EM collapse on <= 2d distinct points also come back numerically singular "
            "(counted by suite 8, finding F24), and a constant coordinate whose variance is not exactly 0 passes with a rounding-level scale",
            "second pass: an iteration that raises is one of three shapes (before the fit returned / inside Trainer.run after the clusterer "
            "calls / after Resampler.run); a `clusterer.fit` that raises half-way leaves the flag unset (the next Trainer.run refits)",
            "second pass: the resampled indices and the trimming mask of suite 7 are inputs of the model (C06 / C20 model them)"]
ASSUMPTIONS = ["cluster_every >= 1 and n_max_clusters in {None, 1, 2, ...} (SamplerConfig does not validate them: C18)",
               "labels returned by predict are non-negative integers (C15_predict_range)",
               "the trimmed training pool is non-empty whenever Trainer.run reaches from_particles (beta > 0 implies a committed history)",
               "C14_cap_hgmm rests on Props.C15.C15_cap and its own hypothesis (the split oracle labels children validly)",
               "C14_dof_positive: fit_mvstud answers a positive value whenever it answers a finite one (Props.C19.C19_nu_range)",
               "C14_scale_matrices_posDef: a factor returned by cholesky on finite input honours the LAPACK contract (suite 5); symmetry of "
               "the stored matrix is Props.C19.C19_sigma_symm",
               "C14_iteration_model: the importance weights are non-negative with positive sum, one per history particle (C04/C05), "
               "TRIM_ESS <= 1 and TRIM_BINS >= 1 (Props.C20.C20_gen_trim_constants), DOF_FALLBACK > 0 (C14_dof_fallback_constant_pos); the "
               "previous fit held by the clusterer object was produced by this clusterer's fit (Model.CadenceX generations)"]

IDS = 64          # id i of a training particle is encoded as u[i,0] = (i + 0.5)/IDS  (exact in binary)


def translators():
    """G1: DOF_FALLBACK (C14_dof_fallback_constant_pos).  G20: Gen/ModesSrc.lean is recompiled from /repo's modes.py
       (mode_index, from_particles' label handling, the __init__ gate), steps/train.py (Trainer.run) and steps/resample.py on
       every run, five independent sections; Props/C14Source.lean proves that Model.Modes / Cadence / CadenceX / ModeGate /
       TrainStep are the generated terms"""
    from translate import g1_constants, g20_modes
    return [g1_constants.generate()] + g20_modes.generate_all()


def _quiet():
    return contextlib.redirect_stdout(io.StringIO())


# ------------------------------------------------------------------ suite 1/2: label logic on the real code
def _gen_labels(rng):
    """(labels, K_fit, kind): K_fit = number of clusters the (hypothetical) fit produced; labels < K_fit"""
    kind = rng.choice(["full", "full", "gap", "gap", "gap", "single", "sorted", "reversed"])
    k_fit = rng.randint(1, 6)
    if kind in ("full", "sorted", "reversed"):
        n = rng.randint(k_fit, 14)
        labels = list(range(k_fit)) + [rng.randrange(k_fit) for _ in range(n - k_fit)]
        rng.shuffle(labels)
        if kind == "sorted":
            labels.sort()
        if kind == "reversed":
            labels.sort(reverse=True)
    elif kind == "gap":
        k_fit = rng.randint(2, 6)
        present = [l for l in range(k_fit) if rng.random() < 0.55]
        if not present:
            present = [rng.randrange(1, k_fit)]
        if len(present) == k_fit:
            present.remove(rng.choice(present))
        n = rng.randint(len(present), 14)
        labels = present + [rng.choice(present) for _ in range(n - len(present))]
        rng.shuffle(labels)
    else:  # singletons
        present = [l for l in range(k_fit) if rng.random() < 0.7] or [k_fit - 1]
        labels = list(present)
        rng.shuffle(labels)
    return labels, k_fit, kind


DOF_SCRIPT = [5.0, 2.5, float("inf"), float("nan"), 1e6, 0.75, float("inf")]


def run_from_particles(labels, d, rng, use_global=False, info=None):
    """REAL ModeStatistics.from_particles (or from_global) on tagged points.  Returns (ms, fed, tapes): fed[c] = ids handed to the c-th fit.
    The stub's degrees of freedom follow DOF_SCRIPT (finite, inf, nan) and a generated dof_fallback is passed: recorded in `info`."""
    import tempest.modes as tm
    n = len(labels)
    u = np.empty((n, d))
    u[:, 0] = (np.arange(n) + 0.5) / IDS
    for j in range(1, d):
        u[:, j] = [rng.randrange(1, 63) / 64.0 for _ in range(n)]
    w = np.array([rng.choice([1.0, 0.5, 0.25, 3.0, 1e-6]) for _ in range(n)])
    fed, tapes = [], []
    off = rng.randrange(len(DOF_SCRIPT))
    fb = rng.choice([1e6, 1.0, 7.5])
    if info is not None:
        info.update(fallback=fb, nus=[])

    def stub(data, *a, **k):
        ids = [int(round(float(x) * IDS - 0.5)) for x in np.asarray(data)[:, 0]]
        c = len(fed)
        fed.append(ids)
        nu = DOF_SCRIPT[(off + c) % len(DOF_SCRIPT)]
        if info is not None:
            info["nus"].append(nu)
        # mode c is recognisable both by its mean and by its Cholesky factor
        return np.full(d, (c + 1) / 8.0), np.eye(d) * ((c + 1) / 64.0) ** 2, nu

    def fake_choice(a, size=None, replace=True, p=None):
        n_c = int(a)
        if p is None or len(p) != n_c or size < n_c:
            raise RuntimeError("unexpected np.random.choice call inside from_particles")
        t = list(range(n_c)) + [rng.randrange(n_c) for _ in range(size - n_c)]
        tapes.append(t)
        return np.array(t, dtype=int)

    with common.patched(tm, "fit_mvstud", stub), common.patched(np.random, "choice", fake_choice):
        if use_global:
            ms = tm.ModeStatistics.from_global(u, w, dof_fallback=fb)
        else:
            ms = tm.ModeStatistics.from_particles(u, w, np.array(labels, dtype=int), dof_fallback=fb)
    return ms, fed, tapes


def _members(fed, tapes):
    # every tape starts with 0..n_c-1, so the first n_c fed ids are the cluster's members in index order
    return [f[:max(t) + 1] for f, t in zip(fed, tapes)]


def kernel_lookup(ms, kernel, assign_vec, k, d):
    """which mode does the REAL `_propose(k)` use?  -> ('mode', c) | ('IndexError',) | ('inconsistent', c_mean, c_chol)"""
    from tempest.mcmc import RWMRunner, TPCNRunner
    nw = len(assign_vec)
    u = np.full((nw, d), 0.25)
    cls = RWMRunner if kernel == "rwm" else TPCNRunner
    r = cls(u, u.copy(), np.zeros(nw), None, np.array(assign_vec, dtype=int), 0.5, ms, None, None, None, 1, 1, None, None, False)
    e1 = np.zeros(d)
    e1[0] = 1.0

    def propose(z):
        with common.patched(np.random, "randn", lambda *s: z.copy()), \
                common.patched(np.random, "gamma", lambda shape=None, scale=None, size=None: 1.0):
            return np.asarray(r._propose(k), dtype=float)
    try:
        if kernel == "rwm":
            p = propose(e1)
            sig = float(r.sigma_0)
            return ("mode", int(round((p[0] - 0.25) * 64.0 / sig)) - 1)
        sig = float(min(r.sigma_0, 0.99))
        a = float(np.sqrt(1.0 - sig ** 2.0))
        p0 = propose(np.zeros(d))
        mu = (p0 - a * 0.25) / (1.0 - a)
        c_mean = int(round(float(mu[-1]) * 8.0)) - 1
        p1 = propose(e1)
        c_chol = int(round(float(p1[0] - p0[0]) * 64.0 / sig)) - 1
        if c_mean != c_chol:
            return ("inconsistent", c_mean, c_chol)
        return ("mode", c_mean)
    except IndexError:
        return ("IndexError",)


def probe_rows(rng, nw, d, k_modes):
    """probe positions (dyadic k/64 per coordinate, on or off the diagonal) with their EXACT squared distances to the stub means
    (c+1)/8*(1,..,1); rows whose two smallest distances are closer than 1e-3 (a float argmin could go either way) are redrawn"""
    from fractions import Fraction
    rows, d2s = [], []
    while len(rows) < nw:
        if rng.random() < 0.4:
            row = [Fraction(2 * rng.randrange(2, 30) + 1, 64)] * d
        else:
            row = [Fraction(rng.randrange(1, 64), 64) for _ in range(d)]
        d2 = [sum((x - Fraction(c + 1, 8)) ** 2 for x in row) for c in range(k_modes)]
        srt = sorted(d2)
        if len(srt) > 1 and srt[1] - srt[0] < Fraction(1, 1000):
            continue
        rows.append([float(x) for x in row])
        d2s.append(d2)
    return rows, d2s


def mutator_map(ms, assign, rows, d, kernel):
    """REAL Mutator.run at beta > 0 on a real StateManager, parallel_mcmc intercepted.
    Returns (indices handed to parallel_mcmc, state['assignments'] afterwards, mode_index's own answer)."""
    import tempest.steps.mutate as mut
    from tempest.state_manager import StateManager
    nw = len(assign)
    st = StateManager(d)
    u = np.array(rows, dtype=float).reshape(nw, d)
    st.update_current({"u": u, "x": 10 * u - 5, "logl": np.zeros(nw), "assignments": np.array(assign, dtype=int), "beta": 0.5,
                       "calls": 0, "iter": 3, "logz": 0.0})
    got = {}

    def spy(**k):
        got["assignments"] = [int(x) for x in np.asarray(k["assignments"]).tolist()]
        got["same_ms"] = k["mode_stats"] is ms
        return k["u"], k["x"], k["logl"], k["blobs"], 1.0, 1.0, 1, 0
    m = mut.Mutator(st, _prior, lambda x: (np.zeros(len(x)), None), None, nw, d, 1, 1, kernel, None, None, False)
    with common.patched(mut, "parallel_mcmc", spy):
        m.run(ms)
    direct = ms.mode_index(np.array(assign, dtype=int), u)
    return (got["assignments"], [int(x) for x in np.asarray(st.get_current("assignments")).tolist()],
            ([int(x) for x in np.asarray(direct[0]).tolist()], [int(x) for x in np.asarray(direct[1]).tolist()]), got["same_ms"])


def _tapes_arg(tapes):
    return ";".join(flist(t, str) for t in tapes) if tapes else "none"


def _modes_str(ms):
    return "|".join(flist(m, str) for m in ms) if ms else "none"


def correspond_labels(tier, drv):
    n_cases = 420 if tier == "quick" else 6000
    rng = common.rng_for("C14.labels")
    c1 = Corr("labels-to-modes", "exact (no arithmetic: index lists; real from_particles, tagging stub, taped choice)")
    c2 = Corr("label-to-mode-lookup", "exact (real Mutator.run + mode_index + kernel; mode identity decoded from the real _propose output, "
                                      "margins >= 1e-3 vs rounding 1e-15; nearest-mean margins >= 1/64)")
    lines1, recs1, lines2, recs2 = [], [], [], []
    for _ in range(n_cases):
        labels, k_fit, kind = _gen_labels(rng)
        d = rng.randint(1, 3)
        info = {}
        try:
            ms, fed, tapes = run_from_particles(labels, d, rng, info=info)
        except Exception as e:  # noqa
            c1.disagree(input={"labels": labels}, impl=f"from_particles raised {type(e).__name__}: {e}", model="builds modes")
            continue
        # degrees of freedom stored vs `applyDofFallback` (nan and inf are both "not finite")
        for cidx, nu in enumerate(info["nus"]):
            fin = np.isfinite(nu)
            lines1.append(f"modes.dof nu={frac2s(Fraction(nu)) if fin else 'inf'} fb={frac2s(Fraction(info['fallback']))}")
            recs1.append((labels, frac2s(Fraction(float(ms.degrees_of_freedom[cidx])))
                          if np.isfinite(ms.degrees_of_freedom[cidx]) else repr(float(ms.degrees_of_freedom[cidx]))))
            c1.count("dof_finite" if fin else ("dof_nan->fallback" if nu != nu else "dof_inf->fallback"))
        members = _members(fed, tapes)
        distinct = sorted(set(labels))
        nontrivial = len(distinct) >= 2 and (distinct != list(range(len(distinct))) or labels != sorted(labels))
        lines1.append(f"modes.from labels={flist(labels, str)} tapes={_tapes_arg(tapes)}")
        recs1.append((labels, f"K={ms.K} modes={_modes_str(members)} fed={_modes_str(fed)}"))
        c1.case((labels, tapes), nontrivial)
        c1.count(kind)
        c1.count(f"K_modes={ms.K}")
        c1.count("gap" if distinct != list(range(k_fit)) else "covers_all_fitted_labels")
        # lookups: raw label -> (real Mutator.run / mode_index) -> index -> (real kernel) -> mode
        for kernel in ("rwm", "tpcn"):
            nw = rng.randint(1, 4)
            assign = [rng.randint(0, k_fit + 2) for _ in range(nw)]
            rows, d2s = probe_rows(rng, nw, d, ms.K)
            try:
                idx, lab, direct, same = mutator_map(ms, assign, rows, d, kernel)
            except Exception as e:  # noqa
                c2.disagree(input={"labels": labels, "assign": assign}, impl=f"Mutator.run raised {type(e).__name__}: {e}",
                            model="maps every label", labels=labels, kind="labels")
                continue
            for k in range(nw):
                lines2.append(f"modes.lookup labels={flist(labels, str)} assign={assign[k]} d2={flist(d2s[k], frac2s)}")
                c2.count("probe_on_diagonal" if len(set(rows[k])) == 1 else "probe_off_diagonal")
                g = kernel_lookup(ms, kernel, idx, k, d)
                if (idx, lab) != direct or not same:
                    impl = f"Mutator.run handed {idx}/{lab} but mode_index says {direct}"
                elif g == ("mode", idx[k]) and 0 <= idx[k] < len(members):
                    impl = f"index={idx[k]} label={lab[k]} mode={flist(members[idx[k]], str)}"
                elif g[0] == "IndexError":
                    impl = "IndexError"
                else:
                    impl = f"unexpected: index {idx[k]} but kernel used {g}"
                recs2.append((labels, assign[k], kernel, impl))
                c2.count("present_label" if assign[k] in distinct else "label_without_mode(reassigned to nearest)")
            c2.case((labels, kernel, assign, rows), nontrivial)
            c2.count(kernel)
    # the `labels is None` path: real from_global (one mode fitted from every particle), assignments all zero
    for _ in range(12 if tier == "quick" else 200):
        n, d = rng.randint(1, 10), rng.randint(1, 3)
        kernel = rng.choice(["rwm", "tpcn"])
        ms, fed, tapes = run_from_particles([0] * n, d, rng, use_global=True)
        members = _members(fed, tapes)
        idx, lab, direct, same = mutator_map(ms, [0, 0], probe_rows(rng, 2, d, 1)[0], d, kernel)
        g = kernel_lookup(ms, kernel, idx, 1, d)
        lines2.append(f"modes.lookup labels={flist([0] * n, str)} assign=0 near=0 stored=none")
        ok = (idx, lab) == direct and same and g == ("mode", idx[1]) and ms.labels is None
        recs2.append(([0] * n, 0, kernel, f"index={idx[1]} label={lab[1]} mode={flist(members[idx[1]], str)}" if ok else f"unexpected {idx} {lab} {g}"))
        c2.case(("global", n, d, kernel), False)
        c2.count("from_global(labels=None)")
    for (labels, impl), line, ans in zip(recs1, lines1, drv.batch(lines1)):
        if ans != impl:
            c1.disagree(input=line, impl=impl, model=ans, labels=labels, kind="labels")
        c1.sample({"op": line, "impl": impl, "model": ans})
    for (labels, a, kernel, impl), line, ans in zip(recs2, lines2, drv.batch(lines2)):
        if ans != impl:
            c2.disagree(input=line, impl=impl, model=ans, labels=labels, assign=a, kernel=kernel, kind="labels")
        c2.sample({"op": line, "kernel": kernel, "impl": impl, "model": ans})
    return [c1, c2]


# ------------------------------------------------------------------ suite 3: cadence on the real Trainer / Resampler
class RecClusterer:
    """recording double of HierarchicalGaussianMixture: N = constructed, F = fit, P = predict (raises if unfitted)"""

    def __init__(self, log, k=2):
        self.log = log
        self.k = k
        self.fitted = False
        self.n_clusters_ = 0
        log.append("N")

    def fit(self, u, sample_weight=None):
        self.log.append("F")
        self.fitted = True
        self.n_clusters_ = self.k
        return self

    def predict(self, u):
        self.log.append("P")
        if not self.fitted:
            raise ValueError("Normalization bounds not set. Call fit first.")
        return np.arange(len(u)) % self.k


def _stub_fit(data, *a, **k):
    d = np.asarray(data).shape[1]
    return np.full(d, 0.5), np.eye(d), 5.0


def _det_choice(a, size=None, replace=True, p=None):
    n = int(a) if np.ndim(a) == 0 else len(a)
    idx = np.arange(size) % n
    return idx if np.ndim(a) == 0 else np.asarray(a)[idx]


def drive_cadence(ce, sched, resume, iter0, clustering=True, d=2, n=6):
    """REAL Trainer + Resampler + StateManager, recording double.  Returns (events, verdict, iter, fitted)."""
    import tempest.modes as tm
    from tempest.state_manager import StateManager
    from tempest.steps.resample import Resampler
    from tempest.steps.train import Trainer
    rs = np.random.RandomState(7)
    st = StateManager(d)
    for b in range(2):
        u = rs.rand(n, d)
        st.update_current({"u": u, "x": 10 * u - 5, "logl": -rs.rand(n), "beta": 0.0, "logz": 0.0, "iter": 0,
                           "assignments": np.zeros(n, dtype=int)})
        st.commit_current_to_history()
    st.set_current("iter", iter0)
    log = []

    def build(state):
        cl = RecClusterer(log)
        tr = Trainer(state=state, pbar=None, clusterer=cl if clustering else None, cluster_every=ce, clustering=clustering,
                     TRIM_ESS=0.99, TRIM_BINS=1000, DOF_FALLBACK=1e6)
        rsm = Resampler(state=state, n_particles=n, resample="mult", clusterer=cl if clustering else None, clustering=clustering)
        return cl, tr, rsm

    cl, tr, rsm = build(st)
    verdict = "ok"
    with common.patched(tm, "fit_mvstud", _stub_fit), common.patched(np.random, "choice", _det_choice), warnings.catch_warnings():
        warnings.simplefilter("ignore")
        for j, warm in enumerate(sched):
            if resume is not None and resume == j:
                # load_sampler_state: a fresh core whose StateManager is updated from the saved dictionary
                st2 = StateManager(d)
                st2.update_from_dict(st.to_dict())
                st = st2
                cl, tr, rsm = build(st)
            st.set_current("iter", st.get_current("iter") + 1)          # Reweighter.run
            st.set_current("beta", 0.0 if warm else 0.5)
            nh = len(st.get_history("logl", flat=True))
            w = np.ones(nh) / nh
            try:
                tr.run(w.copy())
                rsm.run(w.copy())
            except ValueError as e:
                if "Call fit first" not in str(e):
                    raise
                verdict = "predictBeforeFit"
                break
            if warm:                                                    # Mutator.run at beta = 0: fresh prior draws
                u = rs.rand(n, d)
                st.update_current({"u": u, "x": 10 * u - 5, "logl": -rs.rand(n)})
            st.commit_current_to_history()
        if resume is not None and resume == len(sched) and verdict == "ok":
            cl, tr, rsm = build(st)
    return "".join(log), verdict, int(st.get_current("iter")), cl.fitted


def _cadence_cases(tier, rng):
    cases = []
    for ce in range(1, 8):
        for warm in range(1, 7):
            n_anneal = 5 if ce <= 3 else ce + 2
            sched = [True] * warm + [False] * n_anneal
            pts = [None, warm, warm + 1, warm + 2, max(1, warm - 1), len(sched) - 1]
            for r in dict.fromkeys(pts):
                cases.append((ce, sched, r, 0, True))
            # a run that itself starts from a checkpoint: restored iter, fresh objects
            cases.append((ce, [False] * (ce + 2), None, rng.randint(1, 3 * ce), True))
            cases.append((ce, [True] + [False] * (ce + 1), 1, rng.randint(1, 3 * ce), True))
    for _ in range(60 if tier == "quick" else 2000):
        ce = rng.randint(1, 7)
        sched = [rng.random() < 0.4 for _ in range(rng.randint(1, 12))]
        r = rng.choice([None, rng.randint(0, len(sched))])
        cases.append((ce, sched, r, rng.randint(0, 20), rng.random() < 0.85))
    return cases


def _cad_line(ce, sched, r, iter0, clustering):
    bits = "".join("1" if b else "0" for b in sched) or "-"
    return f"cad.trace ce={ce} sched={bits} resume={'-' if r is None else r} iter0={iter0} clustering={1 if clustering else 0}"


def correspond_cadence(tier, drv):
    rng = common.rng_for("C14.cadence")
    c = Corr("cadence-trainer-resampler", "exact (event strings; real Trainer/Resampler/StateManager, recording clusterer double)")
    lines, recs = [], []
    for ce, sched, r, iter0, clustering in _cadence_cases(tier, rng):
        try:
            ev, verdict, it, fitted = drive_cadence(ce, sched, r, iter0, clustering)
            impl = f"{ev} {verdict} fitted={1 if fitted else 0} iter={it}"
        except Exception as e:  # noqa
            impl = f"raised {type(e).__name__}: {e}"
        lines.append(_cad_line(ce, sched, r, iter0, clustering))
        recs.append((ce, sched, r, iter0, clustering, impl))
        c.case((ce, sched, r, iter0, clustering), (not all(sched)) and clustering and (ce > 1 or r is not None))
        c.count(f"ce={ce}")
        c.count("resume" if r is not None else "no_resume")
        c.count("fits=%d" % min(impl.split(" ")[0].count("F"), 4))
    for (ce, sched, r, iter0, clustering, impl), line, ans in zip(recs, lines, drv.batch(lines)):
        if ans != impl:
            c.disagree(input=line, impl=impl, model=ans, kind="cadence", ce=ce, sched=[bool(b) for b in sched], resume=r,
                       iter0=iter0, clustering=clustering)
        c.sample({"op": line, "impl": impl, "model": ans})
    return c


# ------------------------------------------------------------------ suite 4: real Sampler runs
def _prior(u):
    return 10.0 * u - 5.0


def make_like(target):
    """two Gaussian modes at (+2,..) and (-2,..) of width 0.3; `target` = log height ratio (0: equal modes)"""
    logh = float(target)

    def like(x):
        a = -0.5 * float(np.sum((x - 2.0) ** 2)) / 0.09
        b = -0.5 * float(np.sum((x + 2.0) ** 2)) / 0.09 - logh
        return float(np.logaddexp(a, b))
    return like


def real_run(cfg):
    """One real Sampler run (optionally split by a real save/load/resume) with the clusterer and parallel_mcmc spied on.

    cfg: ce, cap, normalize, kernel, seed, target, n_total, resume_after (None | number of iterations before the checkpoint)
    Returns {"problems": [...], "foreign": [...], "reassigned": n, "events": str, "bits": [...], "resume": idx|None, "crashed": bool}
    """
    from tempest import Sampler
    from tempest.cluster import HierarchicalGaussianMixture as HGM
    from tempest.modes import ModeStatistics
    import tempest.steps.mutate as mut
    ce, cap, norm = cfg["ce"], cfg["cap"], cfg["normalize"]
    d = cfg.get("d", 2)
    log = []
    problems, foreign = [], []
    last = {"made_by": None, "labels": None, "kfit": None, "mi": None, "reassigned": 0}
    real_init, real_fit, real_predict = HGM.__init__, HGM.fit, HGM.predict
    real_fp, real_fg = ModeStatistics.from_particles.__func__, ModeStatistics.from_global.__func__
    real_mc = mut.parallel_mcmc
    real_mi = ModeStatistics.mode_index
    holder = {}

    def mi_spy(self, assignments, u):
        raw = np.array(assignments).copy()
        out = real_mi(self, assignments, u)
        last["mi"] = (self, raw, np.array(u).copy(), np.array(out[0]).copy(), np.array(out[1]).copy())
        return out

    def init_spy(self, *a, **k):
        log.append("N")
        return real_init(self, *a, **k)

    def fit_spy(self, *a, **k):
        log.append("F")
        return real_fit(self, *a, **k)

    def predict_spy(self, *a, **k):
        log.append("P")
        return real_predict(self, *a, **k)

    def fp_spy(cls, u, weights, labels, *a, **k):
        cl = holder["s"]._core.trainer.clusterer
        last.update(made_by="from_particles", labels=sorted(set(int(l) for l in np.asarray(labels).tolist())),
                    kfit=int(cl.n_clusters_),
                    train={tuple(float(v) for v in row): int(lab) for row, lab in zip(np.asarray(u), np.asarray(labels))})
        return real_fp(cls, u, weights, labels, *a, **k)

    def fg_spy(cls, *a, **k):
        last.update(made_by="from_global", labels=None, kfit=None)
        return real_fg(cls, *a, **k)

    def mc_spy(*a, **k):
        s = holder["s"]
        it = int(s.state.get_current("iter"))
        ms, asg = k["mode_stats"], np.asarray(k["assignments"])
        cl = s._core.trainer.clusterer
        where = f"iter {it}"
        ctx = (f"(ModeStatistics.K={ms.K}, labels={None if ms.labels is None else np.asarray(ms.labels).tolist()}, made by "
               f"{last['made_by']}, training labels present {last['labels']}, clusterer.n_clusters_={cl.n_clusters_})")
        state_lab = np.asarray(s.state.get_current("assignments"))
        if asg.min() < 0 or asg.max() >= ms.K:
            problems.append(f"{where}: mode index {int(asg.max())} handed to the kernel has no proposal mode {ctx}")
        elif last["made_by"] == "from_particles":
            stored = None if ms.labels is None else [int(x) for x in np.asarray(ms.labels).tolist()]
            mi = last["mi"]
            if stored != last["labels"]:
                problems.append(f"{where}: ModeStatistics.labels is not the sorted distinct training labels {ctx}")
            elif mi is None or mi[0] is not ms or not np.array_equal(mi[3], asg) or not np.array_equal(mi[4], state_lab):
                problems.append(f"{where}: the kernel was not handed mode_index(state assignments) / state not relabelled {ctx}")
            else:
                _, raw, uu, idx, lab = mi
                for j in range(len(raw)):
                    r_ = int(raw[j])
                    if int(lab[j]) != stored[int(idx[j])]:
                        problems.append(f"{where}: particle {j}: relabelled to {int(lab[j])} but mode {int(idx[j])} is label {stored[int(idx[j])]} {ctx}")
                        break
                    if r_ in stored:
                        if int(idx[j]) != stored.index(r_) or int(lab[j]) != r_:
                            problems.append(f"{where}: particle {j} with label {r_} (which has a mode) is mutated with mode {int(idx[j])} "
                                            f"= label {int(lab[j])} {ctx}")
                            break
                    else:
                        last["reassigned"] += 1
                        dist = np.linalg.norm(uu[j][None, :] - ms.means, axis=1)
                        if dist[int(idx[j])] > dist.min() * (1 + 1e-12) + 1e-300:
                            problems.append(f"{where}: particle {j} with label {r_} (no mode) not sent to the nearest mean {ctx}")
                            break
        # particle by particle: an active particle that is also a training particle was labelled twice by the SAME fit (Trainer.run,
        # Resampler.run); predict is a function of the point, so the two labels agree (unless the point sits on a decision boundary)
        if last["made_by"] == "from_particles" and last.get("train") and last["mi"] is not None and last["mi"][0] is ms:
            from . import c14b
            _, raw, uu, _, _ = last["mi"]
            for j in range(len(raw)):
                lt = last["train"].get(tuple(float(v) for v in uu[j]))
                if lt is not None and lt != int(raw[j]) and c14b._proba_gap(cl, np.asarray(uu[j])) >= 1e-9:
                    problems.append(f"{where}: active particle {j} is a training particle the Trainer labelled {lt} (mode {lt} was fitted from "
                                    f"it) but the Resampler labelled it {int(raw[j])}: its mode was not fitted from its own cluster {ctx}")
                    break
        if not np.all(np.isfinite(ms.means)):
            problems.append(f"{where}: non-finite mode mean")
        for j in range(ms.K):
            cov = ms.covariances[j]
            if not np.all(np.isfinite(cov)) or np.abs(cov - cov.T).max() > 1e-9 * max(np.abs(cov).max(), 1e-300):
                problems.append(f"{where}: scale matrix {j} not finite/symmetric")
            else:
                try:
                    np.linalg.cholesky(cov)
                except np.linalg.LinAlgError:
                    problems.append(f"{where}: scale matrix {j} has no Cholesky factor")
        dof = np.asarray(ms.degrees_of_freedom, dtype=float)
        if not (np.all(np.isfinite(dof)) and np.all(dof > 0)):
            problems.append(f"{where}: degrees of freedom {dof.tolist()} not positive finite")
        if cap is not None and (ms.K > cap or cl.n_clusters_ > cap):
            problems.append(f"{where}: K={ms.K}, clusterer.n_clusters_={cl.n_clusters_} exceed n_max_clusters={cap}")
        return real_mc(*a, **k)

    def mk():
        return Sampler(_prior, make_like(cfg.get("target", 0.0)), d, n_particles=32, clustering=True, cluster_every=ce,
                       n_max_clusters=cap, normalize=norm, sample=cfg.get("kernel", "tpcn"))

    tmp = None
    crashed = None
    resume_idx = None
    s = None
    try:
        with common.patched(HGM, "__init__", init_spy), common.patched(HGM, "fit", fit_spy), \
                common.patched(HGM, "predict", predict_spy), \
                common.patched(ModeStatistics, "from_particles", classmethod(fp_spy)), \
                common.patched(ModeStatistics, "from_global", classmethod(fg_spy)), \
                common.patched(ModeStatistics, "mode_index", mi_spy), \
                common.patched(mut, "parallel_mcmc", mc_spy), _quiet(), warnings.catch_warnings():
            warnings.simplefilter("ignore")
            np.random.seed(cfg["seed"])
            try:
                s = mk()
                holder["s"] = s
                if cfg.get("resume_after") is None:
                    s.run(n_total=cfg.get("n_total", 64), progress=False)
                else:
                    s._core._initialize_fresh()
                    for _ in range(cfg["resume_after"]):
                        s.sample()
                    tmp = tempfile.mkdtemp(prefix="c14_")
                    path = os.path.join(tmp, "ckpt.state")
                    s.save_state(path)
                    resume_idx = cfg["resume_after"]
                    s = mk()
                    holder["s"] = s
                    s.run(n_total=cfg.get("n_total", 64), progress=False, resume_state_path=path)
            except Exception as e:  # noqa
                crashed = f"{type(e).__name__}: {e}"
                tb, frames = e.__traceback__, []
                while tb is not None:
                    frames.append(os.path.basename(tb.tb_frame.f_code.co_filename))
                    tb = tb.tb_next
                # the Student-t fit / the ModeStatistics constructor refusing a degenerate cluster (e.g. 8 copies of one point):
                # no mode object is created and mutation does not run -- C19 / C18's subject, not a label/mode incoherence
                # (likewise the dof root-finder inside fit_mvstud giving up on such a cluster: any exception out of student.py)
                if "student.py" in frames or (isinstance(e, np.linalg.LinAlgError) and "modes.py" in frames and "mcmc.py" not in frames):
                    foreign.append(crashed)
    finally:
        if tmp:
            shutil.rmtree(tmp, ignore_errors=True)
    bits = [float(b) == 0.0 for b in s.state.get_history("beta")] if s is not None else []
    if crashed:
        it = int(s.state.get_current("iter")) if s is not None and s.state.get_current("iter") is not None else -1
        msg = f"run raised {crashed} at iteration {it}"
        if not foreign:
            problems.append(msg)
    return {"problems": problems, "foreign": foreign, "reassigned": last["reassigned"], "events": "".join(log), "bits": bits, "resume": resume_idx,
            "crashed": crashed is not None, "iter": int(s.state.get_current("iter")) if s is not None else None,
            "fitted": bool(s is not None and s._core.trainer.clusterer.n_clusters_ > 0)}


def _run_grid(tier, rng):
    cfgs = []
    for ce in (1, 2, 3, 5):
        for cap in (None, 1, 2):
            for norm in (True, False):
                cfgs.append({"ce": ce, "cap": cap, "normalize": norm, "kernel": "tpcn" if (ce + (cap or 0)) % 2 else "rwm",
                             "seed": 100 + len(cfgs), "target": 0.0, "resume_after": None})
    for ce in (1, 2, 3, 5):
        for ra in (3, 5, 6):
            cfgs.append({"ce": ce, "cap": rng.choice([None, 2]), "normalize": rng.random() < 0.5, "kernel": "tpcn",
                         "seed": 200 + len(cfgs), "target": 0.0, "resume_after": ra})
    for dd, ce in ((1, 2), (3, 1), (3, 3)):
        cfgs.append({"ce": ce, "cap": None, "normalize": dd == 3, "kernel": "tpcn", "seed": 300 + dd + ce, "target": 0.0,
                     "resume_after": None, "d": dd})
    for st in (STALE_CFGS[:2] if tier == "quick" else STALE_CFGS):
        cfgs.append({"ce": st["ce"], "cap": None, "normalize": True, "kernel": "tpcn", "seed": st["seed"], "target": st["target"],
                     "n_total": 256, "resume_after": None})
    if tier != "quick":
        for k in range(120):
            cfgs.append({"ce": rng.choice([1, 2, 3, 5, 7]), "cap": rng.choice([None, 1, 2, 3]), "normalize": rng.random() < 0.5,
                         "kernel": rng.choice(["tpcn", "rwm"]), "seed": 1000 + k, "target": rng.choice([0.0, 0.0, 1.0]),
                         "resume_after": rng.choice([None, None, 2, 4, 7]), "d": rng.choice([1, 2, 2, 3])})
    return cfgs


def correspond_runs(tier, drv):
    rng = common.rng_for("C14.runs")
    c = Corr("real-sampler-runs", "exact event strings (real HierarchicalGaussianMixture spied) + property checks at every parallel_mcmc call")
    lines, recs = [], []
    for cfg in _run_grid(tier, rng):
        r = real_run(cfg)
        c.case(cfg, True)
        c.count("resume" if cfg["resume_after"] is not None else "single_run")
        c.count(f"d={cfg.get('d', 2)}")
        c.count("mutations_checked", sum(1 for b in r["bits"] if not b))
        if r["reassigned"]:
            c.count("runs_with_a_label_without_mode(reassigned_to_nearest)")
            c.count("particles_reassigned", r["reassigned"])
        if r["foreign"]:
            c.count("fit_mvstud_or_constructor_raised_on_degenerate_cluster_before_mutation(C19/C18)")
        for p in r["problems"]:
            c.disagree(input=cfg, impl=p, model="property holds at every mutation", kind="run", cfg=cfg)
            break
        if r["crashed"]:
            continue       # the last iteration was not committed: no complete beta record to compare with
        lines.append(_cad_line(cfg["ce"], r["bits"], r["resume"], 0, True))
        recs.append((cfg, f"{r['events']} ok fitted={1 if r['fitted'] else 0} iter={r['iter']}"))
    # the wiring core.py -> clusterer (`max_iterations`), read off a real Sampler
    from tempest import Sampler
    for cap in [None] + list(range(1, 9)):
        with _quiet():
            smp = Sampler(_prior, make_like(0.0), 2, n_particles=8, clustering=True, n_max_clusters=cap)
        cl = smp._core.trainer.clusterer
        lines.append(f"wire.maxit cap={'none' if cap is None else cap}")
        shared = cl is smp._core.resampler.clusterer
        recs.append(({"cap": cap}, str(int(cl.max_iterations)) if shared else "trainer and resampler do not share one clusterer"))
        c.case(("wiring", cap), cap is not None)
        c.count("wiring")
    for (cfg, impl), line, ans in zip(recs, lines, drv.batch(lines)):
        if ans != impl:
            c.disagree(input=line, impl=impl, model=ans, kind="run" if "ce" in cfg else "wiring", cfg=cfg)
        c.sample({"cfg": cfg, "op": line, "impl": impl, "model": ans})
    return c


# ------------------------------------------------------------------ suite 5: what a successful np.linalg.cholesky certifies
def _sym_lower(a):
    return np.tril(a) + np.tril(a, -1).T


def _gen_matrix(rng, d):
    rs = np.random.RandomState(rng.randrange(2 ** 31))
    kind = rng.choice(["spd", "spd", "spd_scaled", "indefinite", "negdef", "rank_deficient", "nonsym_spd_lower", "nan", "tiny_spd", "zero"])
    b = rs.randn(d, d)
    if kind == "spd":
        a = b @ b.T + 0.1 * np.eye(d)
    elif kind == "spd_scaled":
        sc = np.diag(10.0 ** rs.uniform(-4, 4, d))
        a = sc @ (b @ b.T + 0.1 * np.eye(d)) @ sc
    elif kind == "indefinite":
        a = b + b.T
        a[0, 0] = -abs(a[0, 0]) - 1.0
    elif kind == "negdef":
        a = -(b @ b.T + 0.1 * np.eye(d))
    elif kind == "rank_deficient":
        v = rs.randn(d, max(1, d - 1))
        a = v @ v.T if d > 1 else np.zeros((1, 1))
    elif kind == "nonsym_spd_lower":
        a = b @ b.T + 0.1 * np.eye(d)
        a = a + np.triu(rs.randn(d, d) * 5.0, 1)       # garbage above the diagonal: LAPACK never reads it
    elif kind == "nan":
        a = b @ b.T + 0.1 * np.eye(d)
        a[rs.randint(d), 0] = np.nan
    elif kind == "tiny_spd":
        a = (b @ b.T + 0.1 * np.eye(d)) * 1e-12
    else:
        a = np.zeros((d, d))
    return kind, a


def check_factor(a, l):
    """None if `l` honours the contract `IsCholeskyFactor a l` (Lemmas.CholeskyPD) within rounding, else a description"""
    d = a.shape[0]
    if not np.all(np.isfinite(_sym_lower(a))):
        return "NONFINITE"      # outside the contract (and outside the exact-real model): see MODELLED
    if np.any(np.triu(l, 1) != 0.0):
        return "returned factor is not lower triangular"
    if not np.all(np.diag(l) > 0):
        return "returned factor has a non-positive diagonal entry"
    s = _sym_lower(a)
    if not np.all(np.isfinite(s)):
        return "factor returned for a matrix whose lower triangle is not finite"
    if np.abs(l @ l.T - s).max() > 1e-9 * (1.0 + np.abs(s).max()) * d:
        return f"L L^T differs from the lower-triangle matrix by {np.abs(l @ l.T - s).max():.3e}"
    return None


def correspond_cholesky(tier):
    from tempest.modes import ModeStatistics
    rng = common.rng_for("C14.cholesky")
    c = Corr("cholesky-contract", "contract check, tolerance 1e-9*(1+|A|)*d on L L^T = symLower(A); decisions compared only when the smallest "
                                   "eigenvalue is clear of 0 (else counted as near_ties)")
    for _ in range(300 if tier == "quick" else 5000):
        d = rng.randint(1, 4)
        k = rng.randint(1, 3)
        mats = [_gen_matrix(rng, d) for _ in range(k)]
        batch = np.array([m for _, m in mats])
        # the real constructor: one batched inv, one batched cholesky; raises or yields an object
        try:
            with warnings.catch_warnings():
                warnings.simplefilter("ignore")
                ms = ModeStatistics(np.zeros((k, d)), batch, np.full(k, 5.0))
            built = True
        except np.linalg.LinAlgError:
            built = False
        c.case([m.tolist() for _, m in mats], any(kd not in ("spd",) for kd, _ in mats))
        c.count("constructor_built" if built else "constructor_raised")
        for j, (kind, a) in enumerate(mats):
            c.count(kind)
            s_ = _sym_lower(a)
            finite = bool(np.all(np.isfinite(s_)))
            lam = float(np.linalg.eigvalsh(s_).min()) if finite else float("nan")
            scale = float(np.abs(s_).max()) if finite else 1.0
            if built:
                msg = check_factor(a, ms.chol_covariances[j])
                if msg == "NONFINITE":
                    c.count("nonfinite_scale_matrix_passes_the_constructor_gate")
                    msg = None
                elif msg is None and not (lam > -1e-9 * (1.0 + scale)):
                    msg = f"a mode object exists although the scale matrix has eigenvalue {lam!r}"
                if msg:
                    c.disagree(input={"matrix": a.tolist(), "kind": kind}, impl=msg, model="IsCholeskyFactor A L  =>  symLower A positive definite",
                               kind="cholesky", matrix=a.tolist())
            try:
                with warnings.catch_warnings():
                    warnings.simplefilter("ignore")
                    l = np.linalg.cholesky(a)
                msg = check_factor(a, l)
                if msg == "NONFINITE":
                    c.count("cholesky_returns_on_nonfinite_input")
                elif msg:
                    c.disagree(input={"matrix": a.tolist(), "kind": kind}, impl=msg, model="contract of a returned factor", kind="cholesky",
                               matrix=a.tolist())
                elif finite and lam < 1e-9 * (1.0 + scale):
                    c.near_ties += 1
            except np.linalg.LinAlgError:
                if finite and lam > 1e-9 * (1.0 + scale):
                    c.disagree(input={"matrix": a.tolist(), "kind": kind}, impl=f"cholesky raised on a matrix with smallest eigenvalue {lam!r}",
                               model="(completeness, not needed by the theorem)", kind="cholesky", matrix=a.tolist())
        c.sample({"kinds": [kd for kd, _ in mats], "d": d, "constructor": "built" if built else "raised LinAlgError"})
    return c


def correspond(tier):
    from . import c14b
    drv = common.Driver()
    out = correspond_labels(tier, drv)
    out.append(correspond_cadence(tier, drv))
    runs = correspond_runs(tier, drv)
    c14b.wiring_cases(drv, runs)
    out.append(runs)
    out.append(correspond_cholesky(tier))
    out.append(c14b.correspond_cadence_x(tier, drv))
    out.append(c14b.correspond_dataflow(tier, drv))
    out.append(c14b.correspond_modes_real(tier, drv))
    out.append(c14b.correspond_stragglers(tier))
    return out


# ------------------------------------------------------------------ property oracle on the real code
def oracle_labels(labels, kernel, d, rng):
    """label coherence on the real from_particles + Mutator.run/mode_index + kernel, for ANY label vector and raw assignment:
    the index handed to the kernel has a mode, the relabelled assignment is a present training label, the mode used was fitted
    only from training particles carrying that label, and a label that has a mode keeps it."""
    ms, fed, tapes = run_from_particles(labels, d, rng)
    distinct = sorted(set(labels))
    if ms.K != len(distinct):
        return f"ModeStatistics.K={ms.K} for {len(distinct)} distinct labels"
    assign = list(range(max(labels) + 3))
    rows, _ = probe_rows(rng, len(assign), d, ms.K)
    idx, lab, direct, same = mutator_map(ms, assign, rows, d, kernel)
    if (idx, lab) != direct or not same:
        return f"Mutator.run handed {idx}/{lab} to the kernel but mode_index returns {direct}"
    for k, a in enumerate(assign):
        g = kernel_lookup(ms, kernel, idx, k, d)
        if g[0] != "mode" or not (0 <= g[1] < len(fed)):
            return f"raw label {a}: mapped to index {idx[k]}, kernel lookup gives {g} (K={ms.K})"
        if lab[k] not in distinct:
            return f"raw label {a}: relabelled to {lab[k]}, which no training particle carries (present: {distinct})"
        wrong = sorted(set(i for i in fed[g[1]] if labels[i] != lab[k]))
        if wrong:
            return (f"active particle with raw label {a} (relabelled {lab[k]}) is mutated with mode #{g[1]}, which was fitted from training "
                    f"particles {sorted(set(fed[g[1]]))} carrying labels {sorted(set(labels[i] for i in fed[g[1]]))}")
        if a in distinct and lab[k] != a:
            return f"raw label {a} has a mode but the particle was relabelled to {lab[k]}"
    return None


def oracle_gate(matrix):
    """a mode object must not exist for a finite scale matrix that is clearly not positive definite, and the factor it stores must
    be a Cholesky factor of the matrix"""
    from tempest.modes import ModeStatistics
    a = np.array(matrix, dtype=float)
    d = a.shape[0]
    s_ = _sym_lower(a)
    if not np.all(np.isfinite(s_)):
        return None
    try:
        with warnings.catch_warnings():
            warnings.simplefilter("ignore")
            ms = ModeStatistics(np.zeros((1, d)), a.reshape(1, d, d), np.array([5.0]))
    except np.linalg.LinAlgError:
        return None
    lam = float(np.linalg.eigvalsh(s_).min())
    if lam < -1e-9 * (1.0 + float(np.abs(s_).max())):
        return f"ModeStatistics accepted a scale matrix with eigenvalue {lam!r}: a mode that is not positive definite reaches the kernel"
    msg = check_factor(a, ms.chol_covariances[0])
    return None if msg in (None, "NONFINITE") else f"ModeStatistics.chol_covariances: {msg}"


def oracle_cadence(ce, sched, resume, iter0):
    ev, verdict, it, fitted = drive_cadence(ce, sched, resume, iter0, True)
    if verdict != "ok":
        return f"predict() reached an unfitted clusterer: events {ev} (N=new clusterer, F=fit, P=predict)"
    return None


# real runs in which a stale clusterer label has no mode (cluster_every > 1, two modes of unequal height: `target` = log height ratio)
STALE_CFGS = [{"ce": 7, "target": 30.0, "seed": 3}, {"ce": 3, "target": 10.0, "seed": 1}, {"ce": 7, "target": 30.0, "seed": 0},
              {"ce": 7, "target": 30.0, "seed": 1}]


def search(tier, hints):
    rng = common.rng_for("C14.search")
    found = []
    quick = tier == "quick"
    # hints from the disagreeing correspondence cases first
    for h in hints:
        try:
            if h.get("kind") == "cadence" and h.get("clustering", True):
                msg = oracle_cadence(h["ce"], h["sched"], h["resume"], h["iter0"])
                if msg:
                    found.append({"what": msg, "kind": "cadence", "ce": h["ce"], "sched": h["sched"], "resume": h["resume"], "iter0": h["iter0"]})
            elif h.get("kind") == "labels" and h.get("labels"):
                for kernel in ("rwm", "tpcn"):
                    msg = oracle_labels(h["labels"], kernel, 2, common.rng_for("C14.replay"))
                    if msg:
                        found.append({"what": msg, "kind": "labels", "labels": h["labels"], "kernel": kernel})
                        break
            elif h.get("kind") == "cholesky" and h.get("matrix"):
                msg = oracle_gate(h["matrix"])
                if msg:
                    found.append({"what": msg, "kind": "cholesky", "matrix": h["matrix"]})
            elif h.get("kind") == "run" and h.get("cfg"):
                r = real_run(h["cfg"])
                if r["problems"]:
                    found.append({"what": r["problems"][0], "kind": "run", "cfg": h["cfg"]})
            elif h.get("kind") == "script" and h.get("script"):
                from . import c14b
                msg = c14b.oracle_script(h["ce"], [tuple(op) for op in h["script"]], h["seed"])
                if msg:
                    found.append({"what": msg, "kind": "script", "ce": h["ce"], "script": h["script"], "seed": h["seed"]})
            elif h.get("kind") == "dataflow" and h.get("cfg"):
                from . import c14b
                msg = c14b.oracle_dataflow(h["cfg"])
                if msg:
                    found.append({"what": msg, "kind": "dataflow", "cfg": h["cfg"]})
            elif h.get("kind") == "straggler" and h.get("seed") is not None:
                from . import c14b
                msg = c14b.straggler_iteration(h["seed"])
                if msg:
                    found.append({"what": msg, "kind": "straggler", "seed": h["seed"]})
            elif h.get("kind") == "modesreal" and h.get("index") is not None:
                from . import c14b
                msg = c14b.oracle_modes_real(h["index"])
                if msg:
                    found.append({"what": msg, "kind": "modesreal", "index": h["index"]})
        except Exception as e:  # noqa
            found.append({"what": f"oracle raised {type(e).__name__}: {e}", "kind": "hint", "hint": {k: v for k, v in h.items() if k != "suite"}})
        if len(found) >= 3:
            return found
    # cadence: every cluster_every x warm-up x resume point on the real Trainer/Resampler
    for ce, sched, r, iter0, clustering in _cadence_cases(tier, rng):
        if not clustering or len(found) >= 3:
            continue
        msg = oracle_cadence(ce, sched, r, iter0)
        if msg:
            found.append({"what": msg, "kind": "cadence", "ce": ce, "sched": [bool(b) for b in sched], "resume": r, "iter0": iter0})
    # labels: every kind of label vector (gaps included), every raw assignment 0..max+2
    for _ in range(300 if quick else 5000):
        if len(found) >= 3:
            break
        labels, _, _ = _gen_labels(rng)
        kernel = rng.choice(["rwm", "tpcn"])
        try:
            msg = oracle_labels(labels, kernel, 2, common.rng_for("C14.replay"))
        except Exception as e:  # noqa
            msg = f"from_particles/Mutator/kernel raised {type(e).__name__}: {e}"
        if msg:
            found.append({"what": msg, "kind": "labels", "labels": labels, "kernel": kernel})
    # the constructor's gate
    for _ in range(200 if quick else 3000):
        if len(found) >= 3:
            break
        kind, a = _gen_matrix(rng, rng.randint(1, 4))
        msg = oracle_gate(a)
        if msg:
            found.append({"what": msg, "kind": "cholesky", "matrix": a.tolist()})
    # second pass: scripted histories on real Samplers (second run(), load_state, manual resume, iterations that raise)
    from . import c14b
    scripts = [(ce, sc, 500 + i) for i, (ce, sc) in enumerate(c14b.FIXED_SCRIPTS)]
    for i in range(4 if quick else 60):
        scripts.append((rng.choice([2, 3, 5, 7]), c14b._gen_script(rng), 900 + i))
    for ce, sc, sd in scripts:
        if len(found) >= 3:
            break
        msg = c14b.oracle_script(ce, sc, sd)
        if msg:
            found.append({"what": msg, "kind": "script", "ce": ce, "script": [list(op) for op in sc], "seed": sd})
    # second pass: one whole iteration with the tagging clusterer; the real fit + constructor on tiny / degenerate clusters
    for i in range(6 if quick else 80):
        if len(found) >= 3:
            break
        key = {"d": rng.choice([1, 2, 3]), "ce": rng.choice([1, 2, 3, 5]), "kernel": rng.choice(["tpcn", "rwm"]), "n_iter": rng.randint(5, 9),
               "np": rng.choice([4, 6, 8]), "resample": rng.choice(["mult", "syst"]), "seed": 8000 + i, "cap": None}
        try:
            msg = c14b.oracle_dataflow(key)
        except Exception as e:  # noqa
            msg = f"execute_iteration raised {type(e).__name__}: {e}"
        if msg:
            found.append({"what": msg, "kind": "dataflow", "cfg": key})
    # pools with far low-weight stragglers (densities underflow there): particle-wise coherence and batch independence of predict
    for i in range(40 if quick else 400):
        if len(found) >= 3:
            break
        sd = rng.randrange(2 ** 31)
        try:
            msg = c14b.straggler_iteration(sd)
        except Exception as e:  # noqa
            msg = f"iteration on the generated pool (seed {sd}) raised {type(e).__name__}: {e}"
        if msg:
            found.append({"what": msg, "kind": "straggler", "seed": sd})
    if len(found) < 3:
        i, msg = c14b.oracle_modes_real_first(80 if quick else 1500)
        if msg:
            found.append({"what": msg, "kind": "modesreal", "index": i})
    # real runs over the cadence x cap x normalize grid, after a real save/load/resume, and with stale clusterer labels
    if len(found) < 3:
        for cfg in _run_grid(tier, rng):
            r = real_run(cfg)
            if r["problems"]:
                found.append({"what": r["problems"][0], "kind": "run", "cfg": cfg})
                if len(found) >= 3:
                    break
    return found


def replay(obj):
    f = obj.get("failing_input", obj)
    if "witness" in f.get("replay", {}):
        from . import witnesses
        return witnesses.ALL[f["replay"]["witness"]]()
    kind = f.get("kind")
    if kind == "cadence":
        msg = oracle_cadence(f["ce"], f["sched"], f["resume"], f["iter0"])
    elif kind == "labels":
        msg = oracle_labels(f["labels"], f["kernel"], 2, common.rng_for("C14.replay"))
    elif kind == "cholesky":
        msg = oracle_gate(f["matrix"])
    elif kind == "run":
        r = real_run(f["cfg"])
        msg = (r["problems"] or [None])[0]
    elif kind == "script":
        from . import c14b
        msg = c14b.oracle_script(f["ce"], [tuple(op) for op in f["script"]], f["seed"])
    elif kind == "dataflow":
        from . import c14b
        msg = c14b.oracle_dataflow(f["cfg"])
    elif kind == "modesreal":
        from . import c14b
        msg = c14b.oracle_modes_real(f["index"])
    elif kind == "straggler":
        from . import c14b
        msg = c14b.straggler_iteration(f["seed"])
    else:
        found = search("quick", [])
        msg = found[0]["what"] if found else None
    return {"fails": msg is not None, "detail": msg}
