"""C14, second pass — suites on the paths opened by /repo aeb0399 (run() continues a loaded / finished run), on the data flow of one
whole iteration, and on the REAL Student-t fit + constructor for tiny and degenerate clusters (finding F24).

  cadence-extended-real   real Sampler objects driven by scripts of run() / save_state / load_state (same or new Sampler) /
                          run(resume_state_path) (same or new Sampler) / iterations that raise (from_particles, parallel_mcmc,
                          trim_weights) followed by another run(); clusterer events with fit GENERATIONS vs `c14x.trace`
  iteration-dataflow      real SamplerCore.execute_iteration with the clusterer class replaced by a tagging double (constructed
                          and shared by the core's own wiring), tagging fit_mvstud, parallel_mcmc intercepted; everything every
                          component received / returned vs `c14i.iter` (Model.TrainStep.annealIter on tagging components)
  trainer-modes-real      real ModeStatistics.from_particles with the real fit_mvstud on generated tiny / degenerate / heavily
                          weighted clusters: the property's oracle on every object that exists, the constructor's verdict vs
                          `c14g.gate` (Model.ModeGate.pdGate) and vs the theorem `C14_mode_passes_gate_iff` (constant coordinate)
"""
import contextlib
import io
import os
import shutil
import tempfile
import warnings
from fractions import Fraction

import numpy as np

from . import common
from .common import Corr, flist, frac2s, f2hex


def _quiet():
    return contextlib.redirect_stdout(io.StringIO())


def _prior(u):
    return 10.0 * u - 5.0


def _like2(x):
    a = -0.5 * float(np.sum((x - 2.0) ** 2)) / 0.09
    b = -0.5 * float(np.sum((x + 2.0) ** 2)) / 0.09
    return float(np.logaddexp(a, b))


class Injected(Exception):
    """the exception the harness injects to make an iteration raise"""


# ------------------------------------------------------------------ suite: cadence-extended-real
def run_script(ce, script, d=2, seed=0, normalize=True):
    """Drive REAL Sampler objects through `script` (list of ops) with the real HierarchicalGaussianMixture spied on.

    ops:  ("run", k)                 s.run() allowed k iterations (termination test patched: outside C14's subject)
          ("run_crash", kind, k)     the same with an injected failure armed: kind 'ct' = ModeStatistics.from_particles raises
                                     (a degenerate cluster refused: F24), 'cl' = parallel_mcmc raises (the user's likelihood),
                                     'ce' = trim_weights raises; the run aborts at the first annealing iteration
          ("save",)                  s.save_state(path)
          ("load_same",)             s.load_state(path)                       on the Sampler that has been running
          ("resume_same", k)         s.run(resume_state_path=path)            on the same Sampler
          ("fresh_load",)            s = Sampler(...); s.load_state(path)     (manual resume, /repo aeb0399)
          ("fresh_resume", k)        s = Sampler(...); s.run(resume_state_path=path)
    Returns {"events": "N F1 P1 …", "tokens": [...], "iter": n, "problem": str|None, "gen": g|None}
    """
    from tempest import Sampler
    from tempest.cluster import HierarchicalGaussianMixture as HGM
    from tempest.core import SamplerCore
    from tempest.modes import ModeStatistics
    from tempest.steps.reweight import Reweighter
    import tempest.steps.mutate as mut
    import tempest.steps.train as trn

    log, tokens = [], []
    st = {"fits": 0, "budget": 0, "arm": None, "it_open": False, "bits": []}
    real_init, real_fit, real_predict = HGM.__init__, HGM.fit, HGM.predict
    real_rw = Reweighter.run
    real_nt = SamplerCore._not_termination
    real_fp = ModeStatistics.from_particles.__func__
    real_mc = mut.parallel_mcmc
    real_trim = trn.trim_weights

    def init_spy(self, *a, **k):
        log.append("N")
        return real_init(self, *a, **k)

    def fit_spy(self, *a, **k):
        r = real_fit(self, *a, **k)
        st["fits"] += 1
        self._c14_gen = st["fits"]
        log.append(f"F{st['fits']}")
        return r

    def predict_spy(self, *a, **k):
        g = getattr(self, "_c14_gen", None)
        log.append("P-" if g is None else f"P{g}")
        return real_predict(self, *a, **k)

    def rw_spy(self):
        w = real_rw(self)
        log.append("|")
        st["it_open"] = True
        st["warm"] = float(self.state.get_current("beta")) == 0.0
        return w

    def nt_spy(self):
        # an iteration that returned normally is complete here
        if st["it_open"]:
            tokens.append("w" if st["warm"] else "a")
            st["it_open"] = False
        if st["budget"] <= 0:
            return False
        st["budget"] -= 1
        return True

    def fp_spy(cls, *a, **k):
        if st["arm"] == "ct":
            st["arm"] = None
            real_fp(cls, *a, **k)      # the fits run; the constructor's refusal is simulated afterwards
            raise Injected("ct")
        return real_fp(cls, *a, **k)

    def mc_spy(*a, **k):
        if st["arm"] == "cl":
            st["arm"] = None
            raise Injected("cl")
        return real_mc(*a, **k)

    def trim_spy(*a, **k):
        if st["arm"] == "ce":
            st["arm"] = None
            raise Injected("ce")
        return real_trim(*a, **k)

    def mk():
        return Sampler(_prior, _like2, d, n_particles=24, clustering=True, cluster_every=ce, normalize=normalize, sample="tpcn")

    tmp = tempfile.mkdtemp(prefix="c14x_")
    path = os.path.join(tmp, "ck.state")
    saved_iter = None
    problem = None
    s = None
    try:
        with common.patched(HGM, "__init__", init_spy), common.patched(HGM, "fit", fit_spy), \
                common.patched(HGM, "predict", predict_spy), common.patched(Reweighter, "run", rw_spy), \
                common.patched(SamplerCore, "_not_termination", nt_spy), \
                common.patched(ModeStatistics, "from_particles", classmethod(fp_spy)), \
                common.patched(mut, "parallel_mcmc", mc_spy), common.patched(trn, "trim_weights", trim_spy), \
                _quiet(), warnings.catch_warnings():
            warnings.simplefilter("ignore")
            np.random.seed(seed)
            s = mk()

            def do_run(k, **kw):
                st["budget"] = k
                st["it_open"] = False
                try:
                    s.run(n_total=64, progress=False, **kw)
                except Injected as e:
                    if st["it_open"]:
                        tokens.append(str(e))
                        st["it_open"] = False
                    return
                except np.linalg.LinAlgError as e:
                    # finding F24 occurring by itself: ModeStatistics.__init__ refuses a degenerate cluster inside Trainer.run, after
                    # the clusterer calls -- exactly the model's step `ct`; anything else is re-raised
                    tb, frames = e.__traceback__, []
                    while tb is not None:
                        frames.append(os.path.basename(tb.tb_frame.f_code.co_filename))
                        tb = tb.tb_next
                    if "modes.py" in frames and "train.py" in frames and "mcmc.py" not in frames and st["it_open"]:
                        tokens.append("ct")
                        st["it_open"] = False
                        st["natural_f24"] = st.get("natural_f24", 0) + 1
                        st["arm"] = None
                        return
                    raise
                except ValueError as e:
                    # the same finding one step later: a near-singular cluster covariance the constructor ACCEPTED whose inverse is
                    # numerically indefinite, so the tpCN kernel's quadratic form is negative and numpy refuses the gamma draw
                    # ("scale < 0") inside parallel_mcmc -- exactly the model's step `cl` (the kernel raised); anything else is re-raised
                    tb, frames = e.__traceback__, []
                    while tb is not None:
                        frames.append(os.path.basename(tb.tb_frame.f_code.co_filename))
                        tb = tb.tb_next
                    if str(e).startswith("scale < 0") and "mcmc.py" in frames and st["it_open"]:
                        tokens.append("cl")
                        st["it_open"] = False
                        st["natural_f24_kernel"] = st.get("natural_f24_kernel", 0) + 1
                        st["arm"] = None
                        return
                    raise
                if st["arm"] is not None:       # the armed failure never fired (no annealing iteration yet): disarm
                    st["arm"] = None

            for op in script:
                if op[0] == "run":
                    do_run(op[1])
                elif op[0] == "run_crash":
                    st["arm"] = op[1]
                    do_run(op[2])
                elif op[0] == "save":
                    s.save_state(path)
                    saved_iter = int(s.state.get_current("iter"))
                elif saved_iter is None:
                    continue                     # nothing saved yet: the op is skipped (the model gets no token)
                elif op[0] == "load_same":
                    s.load_state(path)
                    tokens.append(f"L{saved_iter}")
                elif op[0] == "resume_same":
                    tokens.append(f"L{saved_iter}")
                    do_run(op[1], resume_state_path=path)
                elif op[0] == "fresh_load":
                    s = mk()
                    s.load_state(path)
                    tokens.append(f"R{saved_iter}")
                elif op[0] == "fresh_resume":
                    s = mk()
                    tokens.append(f"R{saved_iter}")
                    do_run(op[1], resume_state_path=path)
    except Exception as e:  # noqa
        import traceback as _tb
        where = " < ".join(f"{os.path.basename(f.filename)}:{f.lineno}:{f.name}" for f in reversed(_tb.extract_tb(e.__traceback__)[-4:]))
        problem = f"{type(e).__name__}: {e} [{where}]"
    finally:
        shutil.rmtree(tmp, ignore_errors=True)
    cl = s._core.trainer.clusterer if s is not None else None
    it = s.state.get_current("iter") if s is not None else None
    return {"events": " ".join(e for e in log if e != "|"), "segments": " ".join(log), "tokens": tokens, "iter": None if it is None else int(it), "problem": problem,
            "gen": getattr(cl, "_c14_gen", None), "flag": bool(s._core.trainer._clusterer_fitted) if s is not None else None,
            "natural_f24": st.get("natural_f24", 0), "natural_f24_kernel": st.get("natural_f24_kernel", 0)}


def _gen_script(rng):
    ops = [("run", rng.randint(1, 4))]
    n = rng.randint(1, 5)
    for _ in range(n):
        k = rng.choice(["run", "run", "save", "load_same", "resume_same", "fresh_load", "fresh_resume", "crash", "crash"])
        if k in ("load_same", "resume_same", "fresh_load", "fresh_resume") and ("save",) not in ops:
            ops.append(("save",))
            if rng.random() < 0.6:
                ops.append(("run", rng.randint(1, 3)))
        if k == "run":
            ops.append(("run", rng.randint(1, 4)))
        elif k == "crash":
            ops.append(("run_crash", rng.choice(["ct", "ct", "cl", "ce"]), rng.randint(2, 5)))
        elif k in ("resume_same", "fresh_resume"):
            ops.append((k, rng.randint(1, 3)))
        else:
            ops.append((k,))
        if k in ("load_same", "fresh_load") or rng.random() < 0.4:
            ops.append(("run", rng.randint(1, 3)))
    return ops


FIXED_SCRIPTS = [
    # second run() on the same Sampler (aeb0399: continues)
    (3, [("run", 4), ("run", 3)]),
    # manual resume: fresh Sampler + load_state + run()
    (3, [("run", 4), ("save",), ("fresh_load",), ("run", 3)]),
    (2, [("run", 3), ("save",), ("fresh_resume", 3)]),
    # load_state into the USED Sampler: the fitted clusterer and the flag survive, iter goes back
    (5, [("run", 3), ("save",), ("run", 3), ("load_same",), ("run", 4)]),
    (4, [("run", 3), ("save",), ("run", 2), ("resume_same", 4)]),
    # F24 simulated: the constructor refuses a cluster after the fit; the user calls run() again
    (3, [("run", 2), ("run_crash", "ct", 4), ("run", 3)]),
    (7, [("run", 2), ("run_crash", "ct", 4), ("run", 2), ("run_crash", "cl", 3), ("run", 2)]),
    (2, [("run", 1), ("run_crash", "ce", 5), ("run", 3)]),
    # crash, checkpoint, manual resume
    (3, [("run", 2), ("run_crash", "cl", 4), ("save",), ("fresh_load",), ("run", 3)]),
]


def correspond_cadence_x(tier, drv):
    rng = common.rng_for("C14.cadencex")
    c = Corr("cadence-extended-real", "exact (event strings with fit generations; real Sampler / SamplerCore / Trainer / Resampler / "
                                       "HierarchicalGaussianMixture; only the termination test and the injected failures are patched)")
    cases = [(ce, sc, 500 + i) for i, (ce, sc) in enumerate(FIXED_SCRIPTS)]
    for i in range(14 if tier == "quick" else 220):
        cases.append((rng.choice([1, 2, 3, 3, 5, 7]), _gen_script(rng), 600 + i))
    lines, recs = [], []
    for ce, script, seed in cases:
        r = run_script(ce, script, d=rng.choice([1, 2, 2, 3]), seed=seed, normalize=rng.random() < 0.5)
        c.case((ce, script, seed), True)
        for op in script:
            c.count("op_" + (op[0] if op[0] != "run_crash" else "run_crash_" + op[1]))
        for t in r["tokens"]:
            c.count("step_" + (t if t in ("w", "a", "ce", "ct", "cl") else t[0]))
        if r["natural_f24"]:
            c.count("constructor_refused_a_degenerate_cluster_by_itself(F24, modelled as step ct)", r["natural_f24"])
        if r.get("natural_f24_kernel"):
            c.count("kernel_raised_on_a_numerically_indefinite_cluster_covariance_by_itself(F24 family, modelled as step cl)", r["natural_f24_kernel"])
        if r["problem"]:
            c.disagree(input={"ce": ce, "script": script, "seed": seed}, impl=f"raised {r['problem']}", model="the script completes",
                       kind="script", ce=ce, script=script, seed=seed)
            continue
        lines.append(f"c14x.trace ce={ce} steps={','.join(r['tokens']) or '-'} iter0=0")
        recs.append((ce, script, seed, f"{r['events']} ok gen={'-' if r['gen'] is None else r['gen']} iter={r['iter']} coherent=1"))
    for (ce, script, seed, impl), line, ans in zip(recs, lines, drv.batch(lines)):
        if ans != impl:
            c.disagree(input=line, impl=impl, model=ans, kind="script", ce=ce, script=script, seed=seed)
        c.sample({"ce": ce, "script": script, "op": line, "impl": impl, "model": ans})
    return c


def oracle_script(ce, script, seed):
    """the property on a scripted history of the REAL code: no predict on an unfitted clusterer, and in every complete annealing
    iteration the two predicts are served by one fit of the clusterer object that exists at that moment"""
    r = run_script(ce, script, seed=seed)
    if r["problem"]:
        return f"script {script} with cluster_every={ce}: {r['problem']} (clusterer events so far: {r['events']})"
    cur = None
    seg_gens = None
    for j, e in enumerate(r["segments"].split()):
        if e == "|":
            seg_gens = set()
        elif e == "N":
            cur = None
        elif e[0] == "F":
            cur = e[1:]
            if seg_gens:
                return (f"script {script} with cluster_every={ce}: the clusterer is refitted (fit {cur}) after a prediction of the same "
                        f"iteration was already made with fit {sorted(seg_gens)} (events, | = iteration start: {r['segments']})")
        else:
            if e == "P-" or e[1:] != cur:
                return (f"script {script} with cluster_every={ce}: a predict is served by fit {e[1:]} while the current clusterer object "
                        f"holds {cur} (events, | = iteration start: {r['segments']})")
            if seg_gens is not None:
                seg_gens.add(e[1:])
                if len(seg_gens) > 1:
                    return (f"script {script} with cluster_every={ce}: within one iteration the training labels and the assignments come "
                            f"from different fits {sorted(seg_gens)} (events, | = iteration start: {r['segments']})")
    return None


# ------------------------------------------------------------------ suite: iteration-dataflow
class TagClusterer:
    """double of HierarchicalGaussianMixture CONSTRUCTED BY THE CORE ITSELF (the class is patched in tempest.cluster): the core's own
    wiring decides which objects share it.  Fit number g with k clusters, made on the particles `fitU`, labels the history particle with
    id p as (5 p + g) % max(1, k - 1) if p was in `fitU`, else (p + g) % k: the last label is only ever given to particles the fit
    has not seen (a fitted cluster that attracts no training point)."""
    registry = None

    def __init__(self, *a, **k):
        self.kw = k
        self.gen = None
        self.k = 0
        self.fit_ids = []
        self.n_clusters_ = 0
        TagClusterer.registry["objects"].append(self)

    def fit(self, u, sample_weight=None):
        reg = TagClusterer.registry
        reg["fits"] += 1
        self.gen = reg["fits"]
        self.k = reg["next_k"]()
        self.n_clusters_ = self.k
        self.fit_ids = reg["ids"](u)
        reg["calls"].append(("fit", self, list(self.fit_ids), None if sample_weight is None else np.array(sample_weight).copy()))
        return self

    def predict(self, u):
        reg = TagClusterer.registry
        ids = reg["ids"](u)
        if self.gen is None:
            raise ValueError("Normalization bounds not set. Call fit first.")
        seen = set(self.fit_ids)
        lab = np.array([(5 * p + self.gen) % max(1, self.k - 1) if p in seen else (p + self.gen) % self.k for p in ids], dtype=int)
        reg["calls"].append(("predict", self, ids, lab.copy()))
        return lab


def dataflow_case(cfg):
    """One real Sampler; warm-up iterations are the real ones; at every annealing iteration everything the components exchange is
    recorded and turned into a `c14i.iter` line.  Returns list of (line, impl_string, meta)."""
    from tempest import Sampler
    import tempest.cluster as tcl
    import tempest.modes as tm
    import tempest.steps.mutate as mut
    import tempest.steps.train as trn
    d, ce, kernel, n_iter = cfg["d"], cfg["ce"], cfg["kernel"], cfg["n_iter"]
    rs = cfg["rs"]
    reg = {"objects": [], "fits": 0, "calls": [], "next_k": lambda: rs.randint(1, 7)}
    TagClusterer.registry = reg
    cur = {}

    def ids_of(u):
        tbl = cur["table"]
        out = []
        for row in np.asarray(u):
            out.append(tbl.get(tuple(float(v) for v in row), -1))      # -1: not a row of the flat history
        return out
    reg["ids"] = ids_of
    real_trim = trn.trim_weights
    real_fp = tm.ModeStatistics.from_particles.__func__
    fed = []

    def trim_spy(samples, weights, *a, **k):
        w_in = np.array(weights).copy()
        r = real_trim(samples, weights, *a, **k)
        cur["trim"] = (w_in, np.array(r[0]).copy(), np.array(r[1]).copy())
        return r

    def fit_stub(data, *a, **k):
        c = len(fed)
        fed.append(ids_of(data))
        dd = np.asarray(data).shape[1]
        return np.full(dd, (c + 1) / 8.0), np.eye(dd) * ((c + 1) / 64.0) ** 2, 5.0

    def fp_spy(cls, u, weights, labels, *a, **k):
        fed.clear()
        cur["fp"] = (ids_of(u), np.array(weights).copy(), [int(x) for x in np.asarray(labels).tolist()], dict(k))
        ms = real_fp(cls, u, weights, labels, *a, **k)
        cur["fed"] = [list(f) for f in fed]
        cur["ms"] = ms
        return ms

    def mc_spy(**k):
        cur["mc"] = ([int(x) for x in np.asarray(k["assignments"]).tolist()], k["mode_stats"], ids_of(k["u"]))
        # the kernel's stand-in moves every walker to a new point (distinct rows keep the ids unambiguous)
        un = rs.rand(*np.asarray(k["u"]).shape)
        xn = np.array([_prior(r_) for r_ in un])
        return un, xn, np.array([_like2(r_) for r_ in xn]), k["blobs"], 1.0, 1.0, 1, len(un)

    out = []
    with common.patched(tcl, "HierarchicalGaussianMixture", TagClusterer), common.patched(trn, "trim_weights", trim_spy), \
            common.patched(tm, "fit_mvstud", fit_stub), common.patched(tm.ModeStatistics, "from_particles", classmethod(fp_spy)), \
            common.patched(mut, "parallel_mcmc", mc_spy), _quiet(), warnings.catch_warnings():
        warnings.simplefilter("ignore")
        np.random.seed(cfg["seed"])
        s = Sampler(_prior, _like2, d, n_particles=cfg["np"], clustering=True, cluster_every=ce, sample=kernel,
                    resample=cfg["resample"], n_max_clusters=cfg.get("cap"))
        core = s._core
        core._initialize_fresh()
        shared = len(reg["objects"]) == 1 and core.trainer.clusterer is reg["objects"][0] and core.resampler.clusterer is reg["objects"][0]
        exp_flag, exp_gen = False, None       # Model.TrainStep.iterate: the components the run model carries between iterations
        for _ in range(n_iter):
            hist_u = np.array(s.state.get_history("u", flat=True)) if s.state.get_history_length() > 0 else np.zeros((0, d))
            cur.clear()
            cur["table"] = {tuple(float(v) for v in row): i for i, row in enumerate(hist_u)}
            if len(cur["table"]) != len(hist_u):
                break                                    # duplicated rows: ids would be ambiguous (never seen)
            reg["calls"].clear()
            flag = bool(core.trainer._clusterer_fitted)
            cl = core.trainer.clusterer
            prev_gen, prev_k, prev_u = cl.gen, cl.k, list(cl.fit_ids)
            k_before = reg["fits"]
            core.execute_iteration(save_every=None, t0=0)
            it = int(s.state.get_current("iter"))
            if float(s.state.get_current("beta")) == 0.0:
                continue
            if "trim" not in cur or "fp" not in cur or "mc" not in cur:
                out.append((None, "an annealing iteration did not call trim_weights / from_particles / parallel_mcmc", {}))
                continue
            w_in, keep, wt = cur["trim"]
            calls = reg["calls"]
            did_fit = reg["fits"] > k_before
            fits = [c_ for c_ in calls if c_[0] == "fit"]
            preds = [c_ for c_ in calls if c_[0] == "predict"]
            idx, ms, res_ids = cur["mc"]
            relabel = [int(x) for x in np.asarray(s.state.get_current("assignments")).tolist()]
            problems = []
            if flag != exp_flag or prev_gen != exp_gen:
                problems.append(f"carried-components-differ-from-the-run-model(flag={flag},gen={prev_gen};model={exp_flag},{exp_gen})")
            exp_flag, exp_gen = True, cl.gen
            if not shared or any(c_[1] is not cl for c_ in calls):
                problems.append("not-one-shared-clusterer")
            if len(preds) != 2:
                problems.append(f"{len(preds)}-predict-calls")
            if any(-1 in c_[2] for c_ in calls) or -1 in cur["fp"][0]:
                problems.append("a-component-was-handed-points-that-are-not-rows-of-the-history-u")
            if ms is not cur["ms"]:
                problems.append("kernel-got-another-mode-object")
            members = [f[:len(set(f))] for f in cur["fed"]]   # not used for comparison (the real choice is random): see fp args
            fu = flist(fits[0][2], str) if fits else "-"
            fw = flist([Fraction(float(x)) for x in fits[0][3]], frac2s) if fits else "-"
            fp_ids, fp_w, fp_labels, fp_kw = cur["fp"]
            if fp_ids != preds[0][2] if preds else True:
                problems.append("from_particles-u-differs-from-the-u-predict-labelled")
            if preds and fp_labels != [int(x) for x in preds[0][3].tolist()]:
                problems.append("from_particles-labels-are-not-the-predict-output")
            if not np.array_equal(fp_w, wt):
                problems.append("from_particles-weights-are-not-weights_trimmed")
            if fits and not np.array_equal(fits[0][3], wt):
                problems.append("fit-weights-are-not-weights_trimmed")
            if fp_kw.get("dof_fallback") != core.trainer.DOF_FALLBACK:
                problems.append("dof_fallback-not-passed")
            stored = [int(x) for x in np.asarray(ms.labels).tolist()] if ms.labels is not None else []
            modes = []
            for lab in stored:
                modes.append([fp_ids[j] for j in range(len(fp_ids)) if fp_labels[j] == lab])
            raw = [int(x) for x in preds[1][3].tolist()] if len(preds) > 1 else []
            # margins of the nearest-mean fallback (float norms vs the model's exact squared distances)
            tie = False
            for j, p in enumerate(res_ids):
                if j < len(raw) and raw[j] not in stored and ms.K > 1:
                    if p < 0:
                        continue
                    dist = np.sort(np.linalg.norm(hist_u[p][None, :] - ms.means, axis=1))
                    if dist[1] - dist[0] < 1e-9 * (1 + dist[1]):
                        tie = True
            impl = (f"fit={1 if did_fit else 0} gen={cl.gen} fitu={fu} fitw={fw} labels={flist(fp_labels, str)} K={ms.K} "
                    f"stored={flist(stored, str)} modes={'|'.join(flist(m, str) for m in modes) if modes else 'none'} "
                    f"raw={flist(raw, str)} index={flist(idx, str)} relabel={flist(relabel, str)}")
            if problems:
                impl = "glue: " + ",".join(problems) + " | " + impl
            line = (f"c14i.iter d={d} hist={flist([Fraction(float(v)) for v in hist_u.reshape(-1)], frac2s)} "
                    f"w={flist([Fraction(float(v)) for v in w_in], frac2s)} keep={flist([int(x) for x in keep], str)} "
                    f"wt={flist([Fraction(float(v)) for v in wt], frac2s)} res={flist(res_ids, str)} iter={it} ce={ce} "
                    f"flag={1 if flag else 0} prevgen={'-' if prev_gen is None else prev_gen} prevk={prev_k} prevu={flist(prev_u, str)} "
                    f"kfit={cl.k}")
            out.append((line, impl, {"iter": it, "fit": did_fit, "K": ms.K, "gap": any(r_ not in stored for r_ in raw), "tie": tie,
                                     "resampled_in_pool": sum(1 for p in res_ids if p in set(fp_ids))}))
    return out


def correspond_dataflow(tier, drv):
    rng = common.rng_for("C14.dataflow")
    c = Corr("iteration-dataflow", "exact (ids, labels, indices, exact rational weights; real SamplerCore.execute_iteration, real Reweighter / "
                                    "Trainer / Resampler / Mutator / StateManager / trim_weights / from_particles / mode_index; tagging "
                                    "clusterer constructed by the core; nearest-mean margins >= 1e-9 else near_tie)")
    lines, recs = [], []
    for i in range(40 if tier == "quick" else 500):
        cfg = {"d": rng.choice([1, 2, 2, 3]), "ce": rng.choice([1, 2, 3, 5, 7]), "kernel": rng.choice(["tpcn", "rwm"]),
               "n_iter": rng.randint(5, 10), "np": rng.choice([4, 6, 8, 12]), "resample": rng.choice(["mult", "syst"]),
               "seed": 7000 + i, "cap": rng.choice([None, None, 2, 3])}
        cfg["rs"] = np.random.RandomState(cfg["seed"])
        try:
            res = dataflow_case(cfg)
        except Exception as e:  # noqa
            c.disagree(input={k: v for k, v in cfg.items() if k != "rs"}, impl=f"raised {type(e).__name__}: {e}", model="iteration completes",
                       kind="dataflow")
            continue
        for line, impl, meta in res:
            key = {k: v for k, v in cfg.items() if k != "rs"}
            if line is None:
                c.disagree(input=key, impl=impl, model="every annealing iteration runs trim, from_particles and the kernel", kind="dataflow")
                continue
            c.case((key, meta["iter"]), True)
            c.count("fit_iteration" if meta["fit"] else "reuse_iteration")
            c.count(f"K_modes={meta['K']}")
            if meta["gap"]:
                c.count("iterations_with_a_raw_label_without_mode")
            if meta["tie"]:
                c.near_ties += 1
                continue
            lines.append(line)
            recs.append((key, impl))
    for (key, impl), line, ans in zip(recs, lines, drv.batch(lines)):
        if ans != impl:
            c.disagree(input=line[:400], impl=impl, model=ans, kind="dataflow", cfg=key)
        c.sample({"cfg": key, "impl": impl, "model": ans})
    return c


def oracle_dataflow(cfg_key):
    """the property on one real iteration sequence with the tagging clusterer: the index of every active particle has a mode, the mode
    at that index was fitted from training particles that the CURRENT fit of the shared clusterer labels with the particle's (re)label,
    and a raw label that has a mode is kept"""
    cfg = dict(cfg_key)
    cfg["rs"] = np.random.RandomState(cfg_key["seed"])
    for line, impl, meta in dataflow_case(cfg):
        if line is None:
            return impl
        if impl.startswith("glue: "):
            what = impl[len("glue: "):].split(" | ")[0].split(",")
            # only the mismatches that contradict the STATEMENT are failing inputs (which weights the clusterer or the fits see
            # is not part of it: those stay correspondence disagreements)
            relevant = {
                "not-one-shared-clusterer": "training labels and assignments do not come from one clusterer object",
                "kernel-got-another-mode-object": "the kernel was handed another mode object than the one Trainer.run built",
                "from_particles-u-differs-from-the-u-predict-labelled": "the modes were fitted from other particles than the ones the labels belong to",
                "from_particles-labels-are-not-the-predict-output": "the modes were built from labels that are not the clusterer's predictions",
                "a-component-was-handed-points-that-are-not-rows-of-the-history-u":
                    "the clusterer / the fits were asked about points that are not the particles (labels of other points than the active particles)",
            }
            hit = [relevant[w] for w in what if w in relevant] + [w for w in what if w.endswith("-predict-calls")]
            if hit:
                return (f"iteration {meta['iter']} of Sampler(d={cfg['d']}, n_particles={cfg['np']}, cluster_every={cfg['ce']}, seed {cfg['seed']}): "
                        f"{'; '.join(hit)}")
            impl = impl.split(" | ", 1)[1]
        f = dict(t.split("=", 1) for t in impl.split(" "))
        nat = lambda v: [] if v == "-" else [int(x) for x in v.split(",")]
        stored, raw, index, relabel, labels = nat(f["stored"]), nat(f["raw"]), nat(f["index"]), nat(f["relabel"]), nat(f["labels"])
        for j in range(len(raw)):
            if not (0 <= index[j] < len(stored)):
                return f"iteration {meta['iter']}: active particle {j} is handed mode index {index[j]} but only {len(stored)} modes exist"
            if relabel[j] != stored[index[j]] or relabel[j] not in labels:
                return (f"iteration {meta['iter']}: active particle {j}: state label {relabel[j]}, mode {index[j]} was fitted from label "
                        f"{stored[index[j]]} (training labels present: {sorted(set(labels))})")
            if raw[j] in stored and relabel[j] != raw[j]:
                return f"iteration {meta['iter']}: active particle {j} with label {raw[j]} (which has a mode) is mutated with the mode of label {relabel[j]}"
    return None


# ------------------------------------------------------------------ suite: trainer-modes-real
def _gen_cluster(rs, d, kind):
    """points of ONE cluster (n, d) in the unit cube"""
    if kind == "generic":
        n = rs.randint(d + 2, 4 * d + 6)
        return rs.rand(n, d) * 0.5 + 0.25
    if kind == "tiny":                               # fewer points than d + 1
        n = rs.randint(2, d + 2)
        return rs.rand(n, d)
    if kind == "single":                             # ONE particle (possibly repeated)
        return np.tile(rs.rand(1, d), (rs.randint(1, 4), 1))
    if kind == "const_coord":                        # one coordinate constant
        n = rs.randint(3, 3 * d + 4)
        x = rs.rand(n, d)
        x[:, rs.randint(d)] = rs.choice([0.5, 0.25, rs.rand()])
        return x
    if kind == "line":                               # points on a tilted line (degenerate for d >= 2, no constant coordinate)
        n = rs.randint(3, 10)
        t = rs.rand(n, 1)
        return 0.2 + 0.6 * t * (0.3 + 0.7 * rs.rand(1, d))
    if kind == "duplicates":
        base = rs.rand(rs.randint(2, d + 3), d)
        return base[rs.randint(0, len(base), size=rs.randint(len(base), 3 * len(base) + 1))]
    raise ValueError(kind)


KINDS = ["generic", "generic", "tiny", "single", "const_coord", "line", "duplicates"]


def modes_case(rs, d):
    """REAL from_particles (real fit_mvstud, real seeded np.random.choice) on 1-3 generated clusters.
    Returns dict(outcome, details per mode, problems)."""
    import tempest.modes as tm
    k = rs.randint(1, 4)
    kinds = [KINDS[rs.randint(len(KINDS))] for _ in range(k)]
    parts = [_gen_cluster(rs, d, kd) for kd in kinds]
    labs_avail = sorted(rs.choice(6, size=k, replace=False).tolist())
    u = np.vstack(parts)
    labels = np.concatenate([np.full(len(p), l, dtype=int) for p, l in zip(parts, labs_avail)])
    wkind = rs.choice(["flat", "skewed", "one_heavy"])
    if wkind == "flat":
        w = np.ones(len(u))
    elif wkind == "skewed":
        w = rs.rand(len(u)) ** 6 + 1e-12
    else:
        w = np.full(len(u), 1e-9)
        w[rs.randint(len(u))] = 1.0
    perm = rs.permutation(len(u))
    u, labels, w = u[perm], labels[perm], w[perm]
    real_fit = tm.fit_mvstud
    fits = []

    def fit_spy(data, *a, **kw):
        r = real_fit(data, *a, **kw)
        fits.append((np.array(data).copy(), np.array(r[0]).copy(), np.array(r[1]).copy(), r[2]))
        return r
    fb = float(rs.choice([1e6, 7.5]))
    np.random.seed(int(rs.randint(2 ** 31 - 1)))
    exc = None
    ms = None
    with common.patched(tm, "fit_mvstud", fit_spy), _quiet(), warnings.catch_warnings():
        warnings.simplefilter("ignore")
        try:
            ms = tm.ModeStatistics.from_particles(u, w, labels, dof_fallback=fb)
        except Exception as e:  # noqa
            exc = e
    return {"u": u, "labels": labels, "w": w, "kinds": kinds, "wkind": wkind, "fits": fits, "ms": ms, "exc": exc, "fb": fb,
            "present": labs_avail}


def check_object(case):
    """the property's own oracle on a mode object that exists (exact up to the stated slack); None if fine"""
    ms, u, labels = case["ms"], case["u"], case["labels"]
    present = case["present"]
    if ms.K != len(present) or [int(x) for x in np.asarray(ms.labels).tolist()] != present:
        return f"K={ms.K}, labels={np.asarray(ms.labels).tolist()} for training labels {present}"
    for j, lab in enumerate(present):
        pts = u[labels == lab]
        lo, hi = pts.min(axis=0), pts.max(axis=0)
        slack = 1e-9 * (1.0 + np.abs(pts).max())
        mu = ms.means[j]
        if not np.all(np.isfinite(mu)):
            return f"mode {j} (label {lab}): mean {mu.tolist()} is not finite"
        if np.any(mu < lo - slack) or np.any(mu > hi + slack):
            return (f"mode {j} (label {lab}): mean {mu.tolist()} lies outside the bounding box [{lo.tolist()}, {hi.tolist()}] of the "
                    f"training particles carrying that label: the mode was not fitted from the particles of that cluster")
        cov = ms.covariances[j]
        if not np.all(np.isfinite(cov)):
            return f"mode {j} (label {lab}): scale matrix not finite"
        if np.abs(cov - cov.T).max() > 1e-9 * max(np.abs(cov).max(), 1e-300):
            return f"mode {j} (label {lab}): scale matrix not symmetric: {cov.tolist()}"
        lam = np.linalg.eigvalsh(0.5 * (cov + cov.T))
        if lam.min() < -1e-9 * max(lam.max(), 1e-300):
            return f"mode {j} (label {lab}): scale matrix has eigenvalue {lam.min()!r} (largest {lam.max()!r})"
        try:
            np.linalg.cholesky(cov)
        except np.linalg.LinAlgError:
            return f"mode {j} (label {lab}): a mode object exists although its scale matrix has no Cholesky factor: {cov.tolist()}"
        nu = float(ms.degrees_of_freedom[j])
        if not (np.isfinite(nu) and nu > 0):
            return f"mode {j} (label {lab}): degrees of freedom {nu!r}"
    return None


def correspond_modes_real(tier, drv):
    rng = common.rng_for("C14.modesreal")
    c = Corr("trainer-modes-real", "property oracle exact up to 1e-9 relative slack; constructor verdict vs the model gate compared only when the "
                                   "smallest eigenvalue is clear of 0 (relative 1e-10) or a scale matrix has an exactly zero diagonal entry; "
                                   "the rest are near_ties")
    lines, recs = [], []
    for i in range(220 if tier == "quick" else 4000):
        rs = np.random.RandomState(rng.randrange(2 ** 31))
        d = int(rs.randint(1, 5))
        case = modes_case(rs, d)
        c.case((i, d, case["kinds"], case["wkind"]), any(kd != "generic" for kd in case["kinds"]))
        for kd in case["kinds"]:
            c.count("cluster_" + kd)
        c.count("weights_" + case["wkind"])
        exc, ms = case["exc"], case["ms"]
        key = {"seed_index": i, "d": d, "kinds": case["kinds"], "weights": case["wkind"]}
        if exc is not None and not isinstance(exc, np.linalg.LinAlgError):
            c.disagree(input=key, impl=f"from_particles raised {type(exc).__name__}: {exc}", model="raises LinAlgError or builds",
                       kind="modesreal", index=i)
            continue
        c.count("constructor_built" if ms is not None else "constructor_refused(LinAlgError)")
        if ms is not None:
            msg = check_object(case)
            if msg:
                c.disagree(input=key, impl=msg, model="every mode object that exists is valid (C14_object_valid)", kind="modesreal", index=i)
                continue
        # per fitted mode: what the theorem predicts from the resample, what the model gate says about the real Sigma
        const_any, clear_pd_all = False, True
        for data, mu, cov, nu in case["fits"]:
            n = len(data)
            var = data.var(axis=0) if n >= 2 else np.zeros(d)
            scale = np.abs(data - data.mean(axis=0)).max() if n >= 2 else 0.0
            const = bool(np.any(data.max(axis=0) == data.min(axis=0)))
            const_any = const_any or const
            lam = np.linalg.eigvalsh(0.5 * (cov + cov.T)) if np.all(np.isfinite(cov)) else np.array([np.nan])
            clear = bool(np.all(np.isfinite(lam)) and lam.min() > 1e-10 * max(lam.max(), 1e-300))
            zero_diag = bool(np.any(np.diag(cov) == 0.0))
            clear_pd_all = clear_pd_all and clear
            c.count("resample_constant_coordinate" if const else "resample_no_constant_coordinate")
            if not (np.all(np.isfinite(cov)) and np.all(np.isfinite(mu))):
                c.count("fit_returned_a_nonfinite_mean_or_scale")
            if clear or zero_diag:
                lines.append(f"c14g.gate d={d} m={flist(cov.reshape(-1), f2hex)}")
                recs.append((key, i, "built" if clear else "raised", const))
            else:
                c.near_ties += 1
            # theorem C14_mode_passes_gate_iff read on the real fit: a resample that is constant in no coordinate gives a positive
            # definite matrix in exact arithmetic.  In floats an affinely degenerate resample (<= d distinct points, points on a
            # line) can come back numerically singular -- the rank-deficient update passes fit_mvstud's own Cholesky test by
            # rounding -- so only resamples that are affinely non-degenerate WITH A MARGIN are asserted; the rest are counted.
            if not const and n >= 2:
                cen = data - data.mean(axis=0)
                sv = np.linalg.svd(cen, compute_uv=False)
                nondeg = len(sv) >= d and sv[min(d, len(sv)) - 1] > 1e-6 * max(sv[0], 1e-300) and len(np.unique(data, axis=0)) > d
                if nondeg and not clear:
                    # also seen for d+1 .. 2d distinct points in general position: the Student-t EM collapses (nu -> small, the
                    # weights concentrate on a subset) and the iterates, positive definite in exact arithmetic, reach the rounding
                    # level within max_iter: a tolerance artefact of "clear", not a decision -> counted
                    c.count("nondegenerate_resample_returned_numerically_singular(EM collapse, <= 2d distinct points)"
                            if len(np.unique(data, axis=0)) <= 2 * d else "nondegenerate_resample_returned_numerically_singular(> 2d distinct points)")
                elif not nondeg and not clear:
                    c.count("affinely_degenerate_resample_returned_numerically_singular(F24 by rounding)")
                elif not nondeg:
                    c.count("affinely_degenerate_resample_returned_clearly_PD(initial matrix kept)")
        # object exists  <=>  every mode passes (only when all verdicts are clear)
        if ms is None and clear_pd_all and len(case["fits"]) == len(case["present"]):
            c.disagree(input=key, impl="the constructor refused although every fitted scale matrix is clearly positive definite",
                       model="built", kind="modesreal", index=i)
        if ms is not None and const_any:
            c.count("object_with_a_rounding_level_scale_direction(constant coordinate, variance not exactly 0 in floats)")
    for (key, i, impl, const), line, ans in zip(recs, lines, drv.batch(lines)):
        if ans != impl:
            c.disagree(input=line, impl=impl + " (real np.linalg.inv/cholesky verdict class)", model=ans, kind="modesreal", index=i)
    return c


def oracle_modes_real_first(n):
    """first failing index among the first n generated cases, with its message (None, None if none)"""
    rng = common.rng_for("C14.modesreal")
    for i in range(n):
        rs = np.random.RandomState(rng.randrange(2 ** 31))
        d = int(rs.randint(1, 5))
        case = modes_case(rs, d)
        if case["exc"] is not None and not isinstance(case["exc"], np.linalg.LinAlgError):
            return i, f"from_particles raised {type(case['exc']).__name__}: {case['exc']}"
        if case["ms"] is not None:
            msg = check_object(case)
            if msg:
                return i, msg
    return None, None


def oracle_modes_real(index):
    rng = common.rng_for("C14.modesreal")
    rs = None
    for _ in range(index + 1):
        rs = np.random.RandomState(rng.randrange(2 ** 31))
    d = int(rs.randint(1, 5))
    case = modes_case(rs, d)
    if case["exc"] is not None and not isinstance(case["exc"], np.linalg.LinAlgError):
        return f"from_particles raised {type(case['exc']).__name__}: {case['exc']}"
    if case["ms"] is not None:
        return check_object(case)
    return None


# ------------------------------------------------------------------ suite: predict-batch-independence (seeded change C14f)
def straggler_pool(rs, d):
    """2-3 neighbouring clusters of DIFFERENT width, all narrow in unit-cube coordinates (an informative likelihood late in a run), plus a
    few far stragglers (old prior-stage particles: >= 40 sigma from every cluster, low weight).  Returns (u, is_straggler)."""
    k = int(rs.randint(2, 4))
    sig = np.sort(10.0 ** rs.uniform(-3.2, -1.95, size=k))            # 0.0006 .. 0.011, distinct widths
    if sig[-1] < 3.0 * sig[0]:
        sig[-1] = 3.0 * sig[0] + 1e-4
    centre0 = rs.uniform(0.12, 0.3, size=d)
    parts = []
    for j in range(k):
        # neighbouring: centres a few (broad) sigmas apart, so that the GMM boundary is not the Voronoi boundary
        off = np.zeros(d)
        off[rs.randint(d)] = (1.5 + 2.0 * rs.rand()) * sig[-1] * j
        parts.append(centre0 + off + sig[j] * rs.randn(int(rs.randint(120, 400)), d))
    m = int(rs.randint(3, 14))
    far = rs.uniform(0.86, 0.98, size=(m, d))
    u = np.clip(np.vstack(parts + [far]), 1e-6, 1 - 1e-6)
    is_far = np.zeros(len(u), dtype=bool)
    is_far[-m:] = True
    perm = rs.permutation(len(u))
    return u[perm], is_far[perm]


def _proba_gap(cl, point):
    """gap between the two largest responsibilities of ONE point (inf when there is one cluster or the row is not finite)"""
    try:
        with warnings.catch_warnings():
            warnings.simplefilter("ignore")
            p = np.sort(np.asarray(cl.predict_proba(point.reshape(1, -1)))[0])
    except Exception:  # noqa
        return float("inf")
    if len(p) < 2 or not np.all(np.isfinite(p)):
        return float("inf")
    return float(p[-1] - p[-2])


def batch_independence(cl, batch):
    """predict() must label every point by itself: predict(batch)[i] == predict(batch[i:i+1])[0].  Returns (message|None, near_ties)."""
    with warnings.catch_warnings():
        warnings.simplefilter("ignore")
        together = np.asarray(cl.predict(batch))
        alone = np.array([int(cl.predict(batch[i:i + 1])[0]) for i in range(len(batch))])
    ties = 0
    for i in np.nonzero(together != alone)[0]:
        if _proba_gap(cl, batch[i]) < 1e-9:
            ties += 1
            continue
        return (f"predict() labels point {batch[i].tolist()} with {int(together[i])} inside a batch of {len(batch)} points but with "
                f"{int(alone[i])} on its own: the label of a particle depends on which other particles are in the batch"), ties
    return None, ties


def straggler_iteration(seed, d=None, n_active=None, info=None):
    """One REAL iteration (Trainer.run -> Resampler.run -> Mutator.run, real HierarchicalGaussianMixture wired as in core.py, real
    fit_mvstud, real trim_weights / resampling) on a generated pool with far low-weight stragglers, parallel_mcmc intercepted.
    The statement's oracle, particle by particle: an active particle that is also a training particle must be sent to the mode fitted
    from the cluster the Trainer put THAT particle in.  Plus batch independence of predict on batches with and without stragglers.
    Returns a message or None."""
    import tempest.modes as tm
    import tempest.steps.mutate as mut
    from tempest.cluster import HierarchicalGaussianMixture as HGM
    from tempest.state_manager import StateManager
    from tempest.steps.mutate import Mutator
    from tempest.steps.resample import Resampler
    from tempest.steps.train import Trainer
    rs = np.random.RandomState(seed)
    d = int(rs.randint(1, 4)) if d is None else d
    n_active = int(rs.choice([64, 128, 256])) if n_active is None else n_active
    u_pool, is_far = straggler_pool(rs, d)
    logl = -0.5 * np.sum((u_pool - 0.2) ** 2, axis=1)
    st = StateManager(n_dim=d)
    for it, chunk in enumerate(np.array_split(np.arange(len(u_pool)), 4)):
        st.update_current({"u": u_pool[chunk], "x": u_pool[chunk], "logl": logl[chunk], "beta": 0.1 * it, "iter": it, "logz": 0.0,
                           "calls": 0, "steps": 1, "efficiency": 1.0, "acceptance": 1.0, "ess": float(len(u_pool))})
        st.commit_current_to_history()
    st.set_current("beta", 0.5)
    st.set_current("iter", 4)
    u_hist = np.array(st.get_history("u", flat=True))
    far_hist = np.min(u_hist, axis=1) > 0.8
    w = np.where(far_hist, float(rs.choice([0.3, 0.1, 0.5])), 1.0)
    w = w / w.sum()
    normalize = bool(rs.rand() < 0.7)
    cl = HGM(n_init=1, max_iterations=1000, min_points=None, threshold_modifier=1.0, covariance_type="full", verbose=False,
             normalize=normalize)
    tr = Trainer(state=st, clusterer=cl, cluster_every=1, clustering=True, TRIM_ESS=0.99, TRIM_BINS=1000, DOF_FALLBACK=1e6)
    rsm = Resampler(state=st, n_particles=n_active, resample=str(rs.choice(["syst", "mult"])), clusterer=cl)
    mutr = Mutator(state=st, prior_transform=lambda v: v, log_likelihood=lambda x: (-0.5 * np.sum((x - 0.2) ** 2, axis=1), None),
                   n_particles=n_active, n_dim=d, n_steps=1, n_max_steps=1, sampler="tpcn")
    rec = {}
    real_fp = tm.ModeStatistics.from_particles.__func__

    def fp_spy(cls, u, weights, labels, *a, **k):
        rec["train_u"], rec["train_labels"] = np.array(u), np.array(labels)
        return real_fp(cls, u, weights, labels, *a, **k)

    def mc_spy(**k):
        rec["u"], rec["idx"], rec["ms"] = np.array(k["u"]), np.array(k["assignments"]), k["mode_stats"]
        return k["u"], k["x"], k["logl"], k["blobs"], 1.0, 1.0, 1, 0
    np.random.seed(int(rs.randint(2 ** 31 - 1)))
    try:
        with common.patched(tm.ModeStatistics, "from_particles", classmethod(fp_spy)), common.patched(mut, "parallel_mcmc", mc_spy), \
                _quiet(), warnings.catch_warnings():
            warnings.simplefilter("ignore")
            ms = tr.run(w.copy())
            rsm.run(w.copy())
            mutr.run(ms)
    except np.linalg.LinAlgError:
        if info is not None:
            info["refused"] = True                     # a degenerate cluster refused by the constructor: finding F24, no mutation
        return None
    u_act, idx, ms = rec["u"], rec["idx"], rec["ms"]
    n_far_active = int(np.sum(np.min(u_act, axis=1) > 0.8))
    n_far_train = int(np.sum(np.min(rec["train_u"], axis=1) > 0.8))
    if info is not None:
        info.update(K=int(ms.K), far_active=n_far_active, far_train=n_far_train, d=d, n_active=n_active, ties=0)
    where = (f"generated pool (seed {seed}, d={d}, {len(u_pool)} particles of which {int(is_far.sum())} far low-weight stragglers, "
             f"{n_far_train} of them in the trimmed training pool, {n_far_active} among the {n_active} active particles, K={ms.K})")
    mode_labels = np.arange(ms.K) if ms.labels is None else np.asarray(ms.labels)
    if idx.min() < 0 or idx.max() >= ms.K:
        return f"{where}: mode index {int(idx.max())} handed to the kernel has no mode"
    lookup = {tuple(float(v) for v in row): int(lab) for row, lab in zip(rec["train_u"], rec["train_labels"])}
    for i in range(len(u_act)):
        lt = lookup.get(tuple(float(v) for v in u_act[i]))
        if lt is None or int(mode_labels[idx[i]]) == lt:
            continue
        if _proba_gap(cl, u_act[i]) < 1e-9:
            if info is not None:
                info["ties"] += 1
            continue
        return (f"{where}: active particle {i} at u={u_act[i].tolist()} is a training particle that the Trainer labelled {lt} (it is one "
                f"of the particles mode {lt} was fitted from) but it is mutated with the mode of label {int(mode_labels[idx[i]])}: that mode "
                f"was not fitted from the particles of this particle's cluster (predict on the particle alone: "
                f"{int(cl.predict(u_act[i:i + 1])[0])})")
    # predict is a function of the point: batches with stragglers, with extreme points, and the training pool itself
    core_pts = rec["train_u"][rs.choice(len(rec["train_u"]), size=min(60, len(rec["train_u"])), replace=False)]
    far_pts = u_hist[far_hist][:4]
    extreme = np.array([np.full(d, 1e3), np.full(d, -1e3), np.where(np.arange(d) % 2 == 0, 40.0, -40.0)])
    for name, batch in (("active set", u_act), ("training points + stragglers", np.vstack([core_pts, far_pts])),
                        ("training points + points at +-1e3", np.vstack([core_pts, extreme])), ("training points", core_pts)):
        msg, ties = batch_independence(cl, batch)
        if info is not None:
            info["ties"] += ties
        if msg:
            return f"{where}, batch = {name}: {msg}"
    return None


def correspond_stragglers(tier):
    rng = common.rng_for("C14.stragglers")
    c = Corr("predict-batch-independence", "model-free, exact: labels compared as integers; a difference is only counted as a near_tie when the two "
                                            "largest responsibilities of that single point differ by < 1e-9")
    for i in range(24 if tier == "quick" else 400):
        seed = rng.randrange(2 ** 31)
        info = {}
        try:
            msg = straggler_iteration(seed, info=info)
        except Exception as e:  # noqa
            msg = f"iteration on the generated pool (seed {seed}) raised {type(e).__name__}: {e}"
        c.case(("straggler", seed), True)
        if info.get("refused"):
            c.count("constructor_refused_a_degenerate_cluster(F24)")
            continue
        c.count(f"d={info.get('d')}")
        c.count(f"K_modes={info.get('K')}")
        c.count("a_straggler_among_the_active_particles" if info.get("far_active") else "no_straggler_resampled")
        c.count("stragglers_trimmed_from_the_training_pool" if info.get("far_train") == 0 else "stragglers_in_the_training_pool")
        c.near_ties += info.get("ties", 0)
        if msg:
            c.disagree(input={"seed": seed}, impl=msg, model="predict labels every particle by itself; an active particle keeps the label the "
                       "Trainer gave it (same fit)", kind="straggler", seed=seed)
        c.sample({"seed": seed, **{k: v for k, v in info.items()}})
    return c


# ------------------------------------------------------------------ wiring, second pass
def wiring_cases(drv, c):
    """n_max_clusters -> min_points; Trainer and Resampler agree on `clustering`; the pickled core inside a checkpoint keeps the
    clusterer shared and the flag consistent (a copy of the core at save time)"""
    import dill
    from tempest import Sampler
    lines, recs = [], []
    for cap in [None, 1, 2, 3, 5]:
        for d in (1, 2, 3):
            with _quiet():
                smp = Sampler(_prior, _like2, d, n_particles=8, clustering=True, n_max_clusters=cap)
            cl = smp._core.trainer.clusterer
            lines.append(f"c14w.minpts cap={'none' if cap is None else cap} d={d}")
            recs.append((("minpts", cap, d), "none" if cl.min_points is None else str(int(cl.min_points))))
            c.case(("wiring-minpts", cap, d), cap is not None)
            c.count("wiring_min_points")
    for clustering in (True, False):
        with _quiet():
            smp = Sampler(_prior, _like2, 2, n_particles=8, clustering=clustering)
        t, r = smp._core.trainer, smp._core.resampler
        ok = (t.clustering == clustering and r.clustering == clustering and t.clusterer is r.clusterer
              and (t.clusterer is None) == (not clustering))
        c.case(("wiring-clustering", clustering), True)
        c.count("wiring_clustering_flag")
        if not ok:
            c.disagree(input={"clustering": clustering}, impl=f"trainer.clustering={t.clustering}, resampler.clustering={r.clustering}, "
                       f"shared={t.clusterer is r.clusterer}", model="both steps see config.clustering and one clusterer object", kind="wiring2")
    # the pickled core
    tmp = tempfile.mkdtemp(prefix="c14p_")
    try:
        with _quiet(), warnings.catch_warnings():
            warnings.simplefilter("ignore")
            np.random.seed(11)
            smp = Sampler(_prior, _like2, 2, n_particles=24, clustering=True, cluster_every=3)
            smp.run(n_total=48, progress=False)
            p = os.path.join(tmp, "p.state")
            smp.save_state(p)
            with open(p, "rb") as fh:
                dct = dill.load(fh)
            core2 = dill.loads(dct["sampler"])
        t, r = core2.trainer, core2.resampler
        ok = t.clusterer is r.clusterer and (not t._clusterer_fitted or t.clusterer.n_clusters_ > 0) \
            and t._clusterer_fitted == smp._core.trainer._clusterer_fitted
        c.case(("wiring-pickled-core",), True)
        c.count("wiring_pickled_core")
        if not ok:
            c.disagree(input="dill.loads(checkpoint['sampler'])", impl=f"shared={t.clusterer is r.clusterer}, flag={t._clusterer_fitted}, "
                       f"n_clusters_={t.clusterer.n_clusters_}", model="a copy of the core at save time: one shared clusterer, flag => fitted",
                       kind="wiring2")
    finally:
        shutil.rmtree(tmp, ignore_errors=True)
    for (key, impl), line, ans in zip(recs, lines, drv.batch(lines)):
        if ans != impl:
            c.disagree(input=line, impl=impl, model=ans, kind="wiring2")
