"""C15 — mixture and hierarchical clustering invariants."""
import hashlib
import warnings

import numpy as np

from . import common
from .common import Corr, f2hex, hex2f, flist

ID = "C15"
LEAN_MODULES = ["TempestVerif.Props.C15", "TempestVerif.Props.C15Fit", "TempestVerif.Props.C15Hier",
                "TempestVerif.Props.C15Replicate", "TempestVerif.Props.C15FitTotal", "TempestVerif.Lemmas.CholList",
                "TempestVerif.Props.C15Source"]
RULE = ("(0) lits-X: the literal parameters of the models (Model.ClusterLits: 1e-10, reg_covar 1e-6, tol 1e-3, max_iter 1000, n_init 1 — tied to the literals of the source by Props/C15Source.lean) as the compiled driver evaluates them at Float = the constants this harness sends = the defaults of a fresh real GaussianMixture, bit for bit (6 cases, all non-trivial). "
        "(i) mstep-T: generated weighted data (d=1..6, n=2d..200; separated / overlapping / rank-deficient / duplicated / far-from-origin point sets, "
        "15% scaled by 10^U(1,5); sample weights uniform, log-normal skewed (sigma 3), two-point dominated, with exact zeros, small integers; K=1..3 random "
        "non-negative responsibilities incl. one-hot rows and an all-zero column) fed to the real GaussianMixture._m_step ('full' and 'diag') and to the Float "
        "model, compared at 1e-9*(1+scale). gmmeval-T: on the parameters the real M-step returned, the real _e_step / _compute_lower_bound / predict / bic vs "
        "the model's E-step (its own Gaussian log-density through a Cholesky factor, log-space normalisation), lower bound, predict, bic; the covariances "
        "scipy refuses (asked of scipy itself) are handed to the model's oracle `sing`, so the three `except` branches are exercised; tolerance "
        "1e-9 + 1e-13*cond*(1+maha), cases above 1e-3 are counted, not compared. Non-trivial = K>=2 or a refused covariance. "
        "init-T: real _initialize_parameters vs the model's max-shifted initNormalise+mstep (centres observed through np.searchsorted). "
        "gmmfit-T: WHOLE real GaussianMixture.fit (K=1..3, 'full'/'diag', n_init 1..3, max_iter in {1,2,3,5,20,1000}, tol in {1e-3,1e-6,1e-2,1e-1}, data "
        "scaled by 10^U(1,5) in 15% and 10^U(-4,-1) in 10% of the cases, weights None or one of the five families) under its recorded rand() tape vs the "
        "model's fit (k-means++ draw, E, M, lower bound, convergence test, best restart): k-means++ indices, n_iter_, converged_ exact; weights_, means_, "
        "covariances_, lower_bound_ at 1e-8*(1+scale)+1e-12*cond*(1+maha). Runs whose outcome hangs on a scipy refusal, a denormal responsibility, a "
        "convergence / best-restart tie or ill-conditioning are tagged `sensitive:*` and a difference there is a near tie, not a disagreement. "
        "(ii) split-X: real HierarchicalGaussianMixture.fit (2-4 blobs incl. an undersized one, duplicates, skewed weights; max_iterations in {0,1,2,1000}, "
        "min_points in {None, small, large}, threshold_modifier in {0.1,1,10}, normalize on/off, 'full'/'diag', n_init 1 or 2; every tenth case 4-8 separated blobs of "
        "unequal sizes on a line / anisotropic grid / nested layout, giving 3-7 accepted splits in varied orders) with tempest.cluster.GaussianMixture "
        "replaced by a recording subclass; the oracle model replays the recorded scores/child labels. hfit-T: the same real run vs the model's WHOLE hfit "
        "(normalisation, inner mixture fits under RandomState(42)'s tape, BIC, threshold, split loop, final per-cluster fits, denormalisation, cluster weights) "
        "and its predict / predict_proba on 23 query points (training points, N(0,30), +-1e6, 1e150, 1e200 mixed signs, 1e308, NaN, +-inf) on the mixture path and "
        "with _gmm_ready switched off (nearest-centre / inverse-distance path): examined clusters, labels_, n_clusters_, predicted labels exact; centres, "
        "covariances, cluster weights, probabilities at 1e-7; 1/9 of the cases put a blob (or all points) exactly on a line at a spread of 10^2.5..10^4 so that scipy "
        "refuses covariances (the refused matrices of the real run are the model's oracle, matched to 1e-6 relative). A difference is a near tie, not a disagreement, "
        "when a split score is within 1e-9 of its threshold / of the best score, when two restarts of an inner fit end within 1e-9 of each other, or when the REAL "
        "code's own answer at the differing query rows changes under a 1e-13 relative perturbation of the fitted parameters. Non-trivial = at least one cluster examined. "
        "(iii) replicate-T: real fit on (X, integer c) vs fit on np.repeat(X, c) under the same random_state, tolerance 1e-6 relative. "
        "(iv) property-R: the statement's invariants checked directly on every real mixture of gmmfit-T and every real hierarchical model of hfit-T "
        "(no model involved; a fit or predict that raises is a failure); plus 24 / 400 sequences of 2-4 fits of ONE shared hierarchical object (same, jittered or new "
        "data with more separable groups than a cap of 2-4 allows): the invariants after every fit, and bit-equality with a fresh object fitted on the same data.")
MODELLED = ["the numpy idioms of cluster.py are read by translator G18 through the fixed vocabulary Model/NpSrc.lean (column slices, left-to-right sums, entrywise axis-0 reductions and dot products, row-wise axis-1 reductions, x**2 = x*x, C + eye*s as adding s on the diagonal); Props/C15Source.lean proves the models equal to the generated terms",
            "scipy.stats.multivariate_normal is represented by the same Gaussian log-density computed through a Cholesky factor (lower triangle read); scipy's "
            "eigenvalue test that REFUSES a covariance (LinAlgError/ValueError) is an uninterpreted oracle `sing : matrix -> Bool` — every theorem is for "
            "every oracle; in the one-step suite the oracle is scipy's own answer, in the whole-fit suites it is `never` (runs where scipy did refuse are tagged)",
            "np.random.RandomState.rand is a tape of numbers in [0,1) (the recorded values of the real run; RandomState(42)'s for the hierarchical model)",
            "theorems are over exact real arithmetic; IEEE rounding, underflow and overflow are bridged by the Float correspondence only — except "
            "C15_softRow_rounded (E-step row under any monotone idempotent rounding fixing 0 and 1: normaliser >= 1, entries in [0,1])",
            "BLAS dot products / pairwise numpy reductions differ from the model's left-to-right sums by rounding only (tolerances above)",
            "np.argmax / np.argmin as numpy computes them on doubles (first extremum; the first NaN wins); np.searchsorted on a sorted array as the "
            "number of leading entries below the key; scipy.special.logsumexp as max-shifted log-sum-exp",
            "the M-step level replication theorem is exact; the whole-fit one (C15_fit_replicate_general) is about the model at R; replicate-T compares the real code with itself"]
ASSUMPTIONS = ["covariance_type is 'full' or 'diag' ('tied'/'spherical' are outside the statement)",
               "sample weights are non-negative with a positive sum; n_components >= 1, n_init >= 1, max_iter >= 1 (the Python fails on an unbound name otherwise); "
               "min_points >= 2 when given",
               "query points have the training dimension (any values, NaN and infinities included)",
               "the explicit cluster cap of the sampler (n_max_clusters -> max_iterations = n_max_clusters - 1) is C14's wiring suite + Props.C14 cap theorem; "
               "here the cap is max_iterations + 1"]

TINY = float(np.finfo(float).tiny)
EPS = 1e-10
REG = 1e-6          # GaussianMixture's default reg_covar (the inner mixtures of the hierarchical model use the defaults)
TOL = 1e-3          # … default tol
GMAXIT = 1000       # … default max_iter


def translators():
    from translate import g18_cluster
    return [g18_cluster.generate()]


# ------------------------------------------------------------------------------------------ generators
def _np_rng(rng):
    return np.random.RandomState(rng.getrandbits(32))


def gen_points(rs, d, n, family):
    if family == "separated":
        kb = rs.randint(2, 5)
        cen = rs.normal(0, 12, (kb, d))
        a = rs.randint(0, kb, n)
        X = cen[a] + rs.normal(0, rs.uniform(0.3, 1.0), (n, d))
    elif family == "overlap":
        kb = rs.randint(2, 4)
        cen = rs.normal(0, 1.5, (kb, d))
        a = rs.randint(0, kb, n)
        X = cen[a] + rs.normal(0, 1.0, (n, d))
    elif family == "degenerate":
        # rank-one point set (a line through a random point), or one constant coordinate
        if d > 1 and rs.rand() < 0.5:
            X = rs.normal(0, 2, (n, 1)) * rs.normal(0, 1, (1, d)) + rs.normal(0, 3, (1, d))
        else:
            X = rs.normal(0, 2, (n, d))
            X[:, rs.randint(0, d)] = rs.normal(0, 5)
    elif family == "dups":
        m = max(2, n // 4)
        base = rs.normal(0, 4, (m, d))
        X = base[rs.randint(0, m, n)]
    else:  # "offset": bounding box far from the origin
        X = rs.normal(0, 1, (n, d)) * rs.uniform(0.01, 2) + rs.choice([-1.0, 1.0], d) * 10 ** rs.uniform(0, 4)
    return np.ascontiguousarray(X, dtype=float)


POINT_FAMILIES = ["separated", "overlap", "degenerate", "dups", "offset"]
WEIGHT_FAMILIES = ["ones", "skewed", "two", "zeros", "int"]


def gen_weights(rs, n, family):
    if family == "ones":
        w = np.ones(n)
    elif family == "skewed":
        w = np.exp(rs.normal(0, 3, n))
    elif family == "two":
        w = np.full(n, 1e-6)
        w[rs.choice(n, size=min(2, n), replace=False)] = 1.0
    elif family == "zeros":
        w = rs.uniform(0.1, 1, n)
        w[rs.rand(n) < 0.3] = 0.0
        if w.sum() == 0:
            w[0] = 1.0
    else:
        w = rs.randint(0, 5, n).astype(float)
        if w.sum() == 0:
            w[0] = 1.0
    return w


def gen_resp(rs, n, K):
    kind = rs.choice(["dirichlet", "uniform", "onehot", "zerocol"])
    if kind == "dirichlet":
        R = rs.dirichlet(np.full(K, 0.5), n)
        R[R < 1e-6] = 0.0
    elif kind == "uniform":
        R = rs.uniform(0, 1, (n, K))
    elif kind == "onehot":
        R = np.zeros((n, K))
        R[np.arange(n), rs.randint(0, K, n)] = 1.0
    else:
        R = rs.uniform(0.01, 1, (n, K))
        if K >= 2:
            R[:, rs.randint(0, K)] = 0.0
    return kind, np.ascontiguousarray(R)


def _mat(M, enc=f2hex):
    M = np.asarray(M)
    if M.size == 0:
        return "-"
    return ";".join(flist(row, enc) for row in M)


def _p_list(s):
    return [] if s == "-" else [hex2f(t) for t in s.split(",")]


def _p_mat(s):
    return [] if s == "-" else [_p_list(r) for r in s.split(";")]


def _p_stack(s):
    return [] if s == "-" else [_p_mat(m) for m in s.split("|")]


def _sha(*arrs):
    h = hashlib.sha1()
    for a in arrs:
        h.update(np.ascontiguousarray(a).tobytes())
    return h.hexdigest()[:16]


def _close(a, b, tol):
    a = np.asarray(a, dtype=float)
    b = np.asarray(b, dtype=float)
    if a.shape != b.shape:
        return False
    both_nan = np.isnan(a) & np.isnan(b)
    with np.errstate(invalid="ignore"):
        ok = (np.abs(a - b) <= tol) | both_nan | (a == b)
    return bool(np.all(ok))


# ------------------------------------------------------------------------------------------ (i) algebra
def _real_mstep(X, R, s, K, ct):
    from tempest.cluster import GaussianMixture
    gm = GaussianMixture(n_components=K, covariance_type=ct)
    with warnings.catch_warnings():
        warnings.simplefilter("ignore")
        w, m, c = gm._m_step(X, R.copy(), s)
    return gm, w, m, c


def _reg_cov(gm, c, k):
    """the matrix `_e_step` / `_compute_lower_bound` / `predict` hand to scipy for component k"""
    cov = gm._get_covariance(c, k)
    return cov + np.eye(cov.shape[0]) * gm.reg_covar


def _scipy_refuses(M, mean):
    from scipy.stats import multivariate_normal
    try:
        multivariate_normal.logpdf(np.asarray(mean)[None, :], mean=mean, cov=M)
        return False
    except (np.linalg.LinAlgError, ValueError):
        return True


def _amp(gm, X, m, c, K):
    """error amplification of a log-density: cond(cov + reg I) * (1 + largest squared Mahalanobis distance)"""
    out = 1.0
    for k in range(K):
        M = _reg_cov(gm, c, k)
        if not np.all(np.isfinite(M)):
            return float("inf")
        try:
            cond = float(np.linalg.cond(M))
            dev = X - m[k]
            q = float(np.max(np.sum(dev * np.linalg.solve(M, dev.T).T, axis=1)))
        except np.linalg.LinAlgError:
            return float("inf")
        if not np.isfinite(cond) or not np.isfinite(q):
            return float("inf")
        out = max(out, cond * (1.0 + abs(q)))
    return out


def _err_model(gm, X, s, w, m, c, K):
    """first-order bounds on what rounding in the log-densities (model: Cholesky, scipy: eigendecomposition) can do to the
    quantities compared by gmmeval-T, computed with numpy/scipy on the real parameters.
    delta[i,k] = 50 * 2.2e-16 * cond(M_k) * (d + maha_ik) bounds the error of one log-density, with M_k the matrix actually
    used: cov + reg I, or reg I where scipy refuses (E-step); a refused component is skipped (lower bound) / is -inf (predict).
    returns dict(tolR, tolLB, tolBIC, gap_tol[i]) (inf where no bound is available)"""
    from scipy.stats import multivariate_normal
    n, d = X.shape
    INF = float("inf")
    lpE = np.full((n, K), -np.inf)
    lpL = np.full((n, K), -np.inf)
    dE = np.zeros((n, K))
    dL = np.zeros((n, K))
    with warnings.catch_warnings(), np.errstate(all="ignore"):
        warnings.simplefilter("ignore")
        for k in range(K):
            M = _reg_cov(gm, c, k)
            refused = _scipy_refuses(M, m[k])
            Meff = np.eye(d) * gm.reg_covar if refused else M
            try:
                cond = float(np.linalg.cond(Meff))
                dev = X - m[k]
                q = np.sum(dev * np.linalg.solve(Meff, dev.T).T, axis=1)
                lp = multivariate_normal.logpdf(X, mean=m[k], cov=Meff)
            except Exception:  # noqa
                return dict(tolR=INF, tolLB=INF, tolBIC=INF, gap=np.full(n, INF))
            delta = 50 * 2.2e-16 * cond * (d + np.abs(q))
            lpE[:, k] = np.log(w[k]) + lp if w[k] > 0 else -np.inf
            dE[:, k] = delta
            if not refused:
                lpL[:, k] = lp
                dL[:, k] = delta
        if not (np.all(np.isfinite(dE)) and np.all(np.isfinite(dL))):
            return dict(tolR=INF, tolLB=INF, tolBIC=INF, gap=np.full(n, INF))
        mx = np.max(lpE, axis=1, keepdims=True)
        mx[~np.isfinite(mx)] = 0.0
        R = np.exp(lpE - mx)
        R = R / np.maximum(R.sum(axis=1, keepdims=True), 1e-300)
        mix = np.sum(R * dE, axis=1, keepdims=True)
        tolR = 1e-9 + float(np.max(R * (dE + mix)))
        P = np.where(np.isfinite(lpL), np.asarray(w)[None, :] * np.exp(lpL), 0.0)
        tot = P.sum(axis=1, keepdims=True) + 1e-10
        per_point = np.sum(P / tot * dL, axis=1)
        tolLB = float(np.max(per_point))
        gap = 1e-9 + 2.0 * np.max(dL, axis=1)
    return dict(tolR=tolR, tolLB=tolLB, tolBIC=2.0 * n * tolLB, gap=gap)


def _stack(ms, enc=f2hex):
    ms = list(ms)
    return "|".join(_mat(m, enc) for m in ms) if ms else "-"


def eval_line(gm, X, s, w, m, c, K, ct):
    """one-step model evaluation (E-step, lower bound, predict, bic) on given parameters; the matrices scipy refuses
    are found by asking scipy and handed to the model's oracle `sing`"""
    n, d = X.shape
    refused = []
    for k in range(K):
        M = _reg_cov(gm, c, k)
        if _scipy_refuses(M, m[k]):
            refused.append(M)
    E = np.eye(d) * gm.reg_covar
    if _scipy_refuses(E, m[0]):
        refused.append(E)
    if ct == "full":
        pcf, pcd = _stack(c), "-"
    else:
        pcf, pcd = "-", _mat(c)
    line = (f"gmm.eval.F d={d} k={K} diag={1 if ct == 'diag' else 0} x={_mat(X)} s={flist(s, f2hex)} pw={flist(w, f2hex)} pm={_mat(m)} "
            f"pcf={pcf} pcd={pcd} eps={f2hex(EPS)} reg={f2hex(gm.reg_covar)} sing={_stack(refused)}")
    return line, len(refused)


def _real_eval(gm, X, s, w, m, c):
    """what the real `_e_step`, `_compute_lower_bound`, `predict`, `bic` answer on these parameters"""
    out = {}
    with warnings.catch_warnings(), np.errstate(all="ignore"):
        warnings.simplefilter("ignore")
        try:
            out["R"] = gm._e_step(X, w, m, c)
        except Exception as ex:  # noqa
            out["R"] = None
            out["R_exc"] = type(ex).__name__
        out["lb"] = float(gm._compute_lower_bound(X, w, m, c, s))
        gm.weights_, gm.means_, gm.covariances_ = w, m, c
        out["labels"] = [int(t) for t in gm.predict(X.tolist())]      # nested lists: the `np.array(X)` conversion branch
        out["bic"] = float(gm.bic(X))
    return out


def _corr_algebra(tier, drv):
    n_cases = 300 if tier == "quick" else 6000
    rng = common.rng_for("C15.mstep")
    cm = Corr("mstep-T", "toleranced Float (model at Float vs real _m_step, 1e-9*(1+scale))")
    ce = Corr("gmmeval-T", "toleranced Float (model E-step / lower bound / predict / bic with its own Gaussian density vs the real "
                           "_e_step, _compute_lower_bound, predict, bic on the same parameters; tolerance 1e-9 + 1e-13*cond*(1+maha))")
    lines, cases = [], []
    for i in range(n_cases):
        rs = _np_rng(rng)
        d = rs.randint(1, 7)
        n = rs.randint(2 * d, 201) if rs.rand() < 0.3 else rs.randint(2 * d, max(2 * d + 1, 41))
        K = rs.randint(1, 4)
        pf = POINT_FAMILIES[i % len(POINT_FAMILIES)]
        wf = WEIGHT_FAMILIES[(i // len(POINT_FAMILIES)) % len(WEIGHT_FAMILIES)]
        X = gen_points(rs, d, n, pf)
        big = rs.rand() < 0.15
        if big:                       # large scales: scipy refuses ill-conditioned covariances (the `except` branches)
            X = X * 10.0 ** rs.uniform(1, 5)
        s = gen_weights(rs, n, wf)
        if rs.rand() < 0.5:
            s = s / s.sum()          # what `fit` hands to `_m_step`
        rk, R = gen_resp(rs, n, K)
        if i % 10 == 7 and d >= 2 and n >= 6:
            # a component scipy REFUSES next to well-conditioned ones: one blob on a line (rank-one scatter, spread 1e2.5..1e4,
            # so lambda_min/lambda_max < 2.2e-10 after the 1e-6 regularisation), hard assignment by blob
            K = int(rs.randint(2, 4))
            nb = n // K
            parts, rows = [], []
            for k in range(K):
                m_k = n - nb * (K - 1) if k == 0 else nb
                if k == K - 1:
                    blob = rs.normal(0, 5e4, (1, d)) + rs.normal(0, 1, (m_k, 1)) * rs.normal(0, 1, (1, d)) * 10.0 ** rs.uniform(2.5, 4)
                else:
                    blob = rs.normal(0, 20, (1, d)) + rs.normal(0, 1, (m_k, d)) * rs.uniform(0.5, 3)
                parts.append(blob)
                rows += [k] * m_k
            X = np.ascontiguousarray(np.vstack(parts))
            R = np.zeros((n, K))
            R[np.arange(n), rows] = 1.0
            s = rs.uniform(0.5, 1.5, n)
            rk, big = "blocks_with_degenerate", True
        if float((R * s[:, None]).sum()) <= 0.0:
            R[:, 0] = 1.0
        real = {}
        for ct in ("full", "diag"):
            real[ct] = _real_mstep(X, R, s, K, ct)
        lines.append(f"mstep.F d={d} k={K} x={_mat(X)} r={_mat(R)} s={flist(s, f2hex)} tiny={f2hex(TINY)} eps={f2hex(EPS)}")
        nontriv = K >= 2 or bool(np.ptp(s) > 0)
        cases.append(("m", dict(d=d, n=n, K=K, pf=pf, wf=wf, rk=rk, X=X, R=R, s=s, real=real, nontriv=nontriv)))
        # E-step, lower bound, predict, bic on the parameters the real M-step produced
        ct = "full" if (i % 2 == 0 or rk == "blocks_with_degenerate") else "diag"
        gm, w, m, c = real[ct]
        if not (np.all(np.isfinite(w)) and np.all(np.isfinite(m)) and np.all(np.isfinite(c))):
            ce.count("nonfinite_parameters_skipped")
            continue
        sn = s / s.sum()
        line, nref = eval_line(gm, X, sn, w, m, c, K, ct)
        rv = _real_eval(gm, X, sn, w, m, c)
        lines.append(line)
        cases.append(("e", dict(d=d, n=n, K=K, ct=ct, pf=pf, wf=wf, X=X, s=sn, w=w, m=m, c=c, rv=rv, nref=nref, big=big,
                                em=_err_model(gm, X, sn, w, m, c, K), nontriv=K >= 2 or nref > 0)))
    res = drv.batch(lines)
    for (kind, cs), line, ans in zip(cases, lines, res):
        if kind == "m":
            X, R, s, K, d = cs["X"], cs["R"], cs["s"], cs["K"], cs["d"]
            cm.case((cs["pf"], cs["wf"], cs["rk"], d, cs["n"], K, _sha(X, R, s)), cs["nontriv"])
            cm.count("points:" + cs["pf"])
            cm.count("weights:" + cs["wf"])
            cm.count("resp:" + cs["rk"])
            cm.count(f"K={K}")
            toks = ans.split(" ")
            if len(toks) != 4:
                cm.disagree(input=line[:300], model=ans[:200], what="model answer malformed", suite_kind="mstep",
                            X=X, R=R, s=s, K=K)
                continue
            mw, mm, mcf, mcd = _p_list(toks[0]), _p_mat(toks[1]), _p_stack(toks[2]), _p_mat(toks[3])
            xs = float(np.max(np.abs(X))) if X.size else 0.0
            spread = float(np.max(np.ptp(X, axis=0))) if X.size else 0.0
            bad = []
            for ct in ("full", "diag"):
                gm, w, m, c = cs["real"][ct]
                if not _close(w, mw, 1e-9):
                    bad.append((ct, "weights", w.tolist(), mw))
                if not _close(m, mm, 1e-9 * (1 + xs)):
                    bad.append((ct, "means", m.tolist(), mm))
                mc = mcf if ct == "full" else mcd
                # scale of a covariance entry: squared distance of the data from the component mean
                msc = max(spread, float(np.max(np.abs(X - m[:, None, :])))) if X.size else 0.0
                if not _close(c, mc, 1e-9 * (1 + msc * msc)):
                    bad.append((ct, "covariances", np.asarray(c).tolist(), mc))
            if bad:
                ct, what, iv, mv = bad[0]
                cm.disagree(what=f"{what} ({ct}) differ", impl=str(iv)[:300], model=str(mv)[:300], suite_kind="mstep",
                            X=X, R=R, s=s, K=K)
            cm.sample({"op": line[:200] + "...", "impl_weights": cs["real"]["full"][1].tolist(), "model_weights": mw})
        else:
            K, rv, em = cs["K"], cs["rv"], cs["em"]
            ce.case((cs["pf"], cs["wf"], cs["ct"], cs["d"], cs["n"], K, _sha(cs["X"], cs["w"], cs["m"])), cs["nontriv"])
            ce.count("cov:" + cs["ct"])
            ce.count(f"K={K}")
            if cs["big"]:
                ce.count("large_scale_data")
            if cs["nref"]:
                ce.count("cases_with_a_covariance_scipy_refuses")
            hint = dict(suite_kind="gmmeval", X=cs["X"], s=cs["s"], K=K, ct=cs["ct"])
            toks = ans.split(" ")
            if len(toks) != 4:
                ce.disagree(what="model answer malformed", model=ans[:200], input=line[:200], **hint)
                continue
            probs = []
            # ---- E-step
            if rv["R"] is None or toks[0] == "raise":
                if (rv["R"] is None) != (toks[0] == "raise"):
                    probs.append(f"_e_step: real {'raised ' + rv.get('R_exc', '') if rv['R'] is None else 'returned'}, model {toks[0][:20]}")
                else:
                    ce.count("estep_raises_on_both_sides")
            elif not (em["tolR"] <= 1e-3):
                ce.count("estep_ill_conditioned_not_compared")
            else:
                ce.count("estep_compared")
                if cs["nref"]:
                    ce.count("estep_compared_with_a_refused_covariance")
                mr = _p_mat(toks[0])
                if not _close(rv["R"], mr, em["tolR"]):
                    probs.append(f"responsibilities differ: real {str(np.asarray(rv['R'])[:2].tolist())[:120]} model {str(mr[:2])[:120]}")
                else:
                    rs_ = np.asarray(rv["R"]).sum(axis=1)
                    if np.all(np.isfinite(rs_)) and float(np.max(np.abs(rs_ - 1.0))) > 1e-12:
                        probs.append(f"a row of the real responsibilities sums to {float(rs_[np.argmax(np.abs(rs_ - 1))])!r}")
            # ---- lower bound, bic
            mlb, mbic = hex2f(toks[1]), hex2f(toks[3])
            if not (em["tolLB"] <= 1e-3):
                ce.count("lower_bound_ill_conditioned_not_compared")
            else:
                ce.count("lower_bound_compared")
                if not _close([rv["lb"]], [mlb], 1e-9 * (1 + abs(rv["lb"])) + em["tolLB"]):
                    probs.append(f"lower bound: real {rv['lb']!r} model {mlb!r}")
                if not _close([rv["bic"]], [mbic], 1e-9 * (1 + abs(rv["bic"])) + em["tolBIC"]):
                    probs.append(f"bic: real {rv['bic']!r} model {mbic!r}")
            # ---- predict
            mlab = [] if toks[2] == "-" else [int(t) for t in toks[2].split(",")]
            if mlab != rv["labels"]:
                if _label_margin_small(cs, em["gap"], mlab):
                    ce.near_ties += 1
                else:
                    rows = [q for q in range(len(mlab)) if q < len(rv["labels"]) and mlab[q] != rv["labels"][q]]
                    probs.append(f"predict: rows {rows[:6]} real {[rv['labels'][q] for q in rows[:6]]} model {[mlab[q] for q in rows[:6]]}")
            if probs:
                ce.disagree(what="; ".join(probs)[:500], **hint)
            ce.sample({"op": line[:160] + "...", "real_lb": rv["lb"], "model_lb": mlb, "real_bic": rv["bic"], "model_bic": mbic})
    return [cm, ce]


def _label_margin_small(cs, gap_tol, mlab):
    """every row where model and real `predict` differ has a top-two gap of `log(w_k + 1e-10) + logpdf_k` below the bound on
    the rounding error of that row (computed with scipy on the real parameters)"""
    from scipy.stats import multivariate_normal
    from tempest.cluster import GaussianMixture
    X, w, m, c, K, ct = cs["X"], cs["w"], cs["m"], cs["c"], cs["K"], cs["ct"]
    real = cs["rv"]["labels"]
    if K < 2 or len(mlab) != len(real):
        return False
    gm = GaussianMixture(n_components=K, covariance_type=ct)
    L = np.full((len(X), K), -np.inf)
    with warnings.catch_warnings(), np.errstate(all="ignore"):
        warnings.simplefilter("ignore")
        for k in range(K):
            try:
                L[:, k] = np.log(w[k] + 1e-10) + multivariate_normal.logpdf(X, mean=m[k], cov=_reg_cov(gm, c, k))
            except (np.linalg.LinAlgError, ValueError):
                pass
    for q in range(len(real)):
        if mlab[q] != real[q]:
            a, b = L[q, mlab[q]], L[q, real[q]]
            if not (np.isfinite(a) and np.isfinite(b) and abs(a - b) <= gap_tol[q] * (1 + abs(a))):
                return False
    return True


def real_init(X, sw, K, ct, seed):
    """real `_initialize_parameters` under a private RandomState; also the indices of the drawn centres"""
    from tempest.cluster import GaussianMixture
    picked = []
    real_ss = np.searchsorted

    def spy(a, v, *args, **kwargs):
        r = real_ss(a, v, *args, **kwargs)
        picked.append(int(r))
        return r

    gm = GaussianMixture(n_components=K, covariance_type=ct)
    gm._rng = np.random.RandomState(seed)
    with common.patched(np, "searchsorted", spy), warnings.catch_warnings():
        warnings.simplefilter("ignore")
        w, m, c = gm._initialize_parameters(X, sw)
    return picked, w, m, c


def _corr_init(tier, drv):
    n_cases = 150 if tier == "quick" else 3000
    rng = common.rng_for("C15.init")
    c = Corr("init-T", "toleranced Float (model max-shifted initNormalise+mstep vs real _initialize_parameters)")
    lines, cases = [], []
    for i in range(n_cases):
        rs = _np_rng(rng)
        d = int(rs.randint(1, 7))
        n = int(rs.randint(2 * d, 41))
        K = int(rs.randint(1, 4))
        pf = POINT_FAMILIES[i % len(POINT_FAMILIES)]
        wf = WEIGHT_FAMILIES[(i // len(POINT_FAMILIES)) % len(WEIGHT_FAMILIES)]
        X = gen_points(rs, d, n, pf)
        s = gen_weights(rs, n, wf)
        s = s / s.sum()
        ct = "full" if i % 2 == 0 else "diag"
        seed = int(rs.randint(0, 10 ** 6))
        try:
            picked, w, m, cv = real_init(X, s, K, ct, seed)
        except Exception as ex:
            c.count("real_raised:" + type(ex).__name__)
            continue
        if len(picked) != K or any(not (0 <= j < n) for j in picked):
            c.count("centres_not_observed")
            continue
        U = np.zeros((n, K))          # log_resp before the shift
        for k in range(K):
            U[:, k] = -0.5 * np.sum((X - X[picked[k]]) ** 2, axis=1)
        lines.append(f"init.F d={d} k={K} x={_mat(X)} u={_mat(U)} s={flist(s, f2hex)} tiny={f2hex(TINY)} eps={f2hex(EPS)}")
        cases.append(dict(X=X, s=s, K=K, d=d, n=n, ct=ct, pf=pf, wf=wf, seed=seed, U=U, w=w, m=m, cv=cv))
    res = drv.batch(lines)
    for cs, line, ans in zip(cases, lines, res):
        X, K, ct = cs["X"], cs["K"], cs["ct"]
        under = int(np.sum(np.exp(cs["U"]).sum(axis=1) == 0.0))     # rows where the unshifted exp would be all zero
        c.case((cs["pf"], cs["wf"], ct, cs["d"], cs["n"], K, cs["seed"], _sha(X, cs["s"])), K >= 2 or under > 0)
        c.count("points:" + cs["pf"])
        c.count(f"K={K}")
        if under:
            c.count("cases_with_far_row")
        if not np.all(np.isfinite(cs["w"])):
            c.count("real_result_not_finite")
        toks = ans.split(" ")
        if len(toks) != 4:
            c.disagree(what="model answer malformed", model=ans[:200], suite_kind="mstep", X=X, s=cs["s"], K=K)
            continue
        mw, mm, mcf, mcd = _p_list(toks[0]), _p_mat(toks[1]), _p_stack(toks[2]), _p_mat(toks[3])
        xs = float(np.max(np.abs(X)))
        msc = float(np.max(np.ptp(X, axis=0)))
        if np.all(np.isfinite(cs["m"])):
            msc = max(msc, float(np.max(np.abs(X - cs["m"][:, None, :]))))
        mc = mcf if ct == "full" else mcd
        bad = None
        if not _close(cs["w"], mw, 1e-9):
            bad = ("weights", cs["w"].tolist(), mw)
        elif not _close(cs["m"], mm, 1e-9 * (1 + xs)):
            bad = ("means", cs["m"].tolist(), mm)
        elif not _close(cs["cv"], mc, 1e-9 * (1 + msc * msc)):
            bad = ("covariances", np.asarray(cs["cv"]).tolist(), mc)
        if bad:
            c.disagree(what=f"initial {bad[0]} ({ct}) differ", impl=str(bad[1])[:300], model=str(bad[2])[:300],
                       suite_kind="mstep", X=X, s=cs["s"], K=K)
        c.sample({"op": line[:160] + "...", "far_rows": under, "impl_weights": cs["w"].tolist(), "model_weights": mw})
    return [c]


# ------------------------------------------------------------------------------------------ (i-b) whole GaussianMixture.fit
class _RngSpy:
    """records what `rand()` returned (the k-means++ tape of the real run)"""

    def __init__(self, rng, tape):
        self._rng, self._tape = rng, tape

    def rand(self, *a):
        v = self._rng.rand(*a)
        self._tape.append(float(v))
        return v

    def __getattr__(self, name):
        return getattr(self._rng, name)


class _RefusalSpy:
    """stands in for scipy.stats.multivariate_normal: delegates, and records the covariance of every call that raises"""

    def __init__(self, real, refused):
        self._real, self._refused = real, refused

    def _call(self, f, a, k):
        try:
            return f(*a, **k)
        except (np.linalg.LinAlgError, ValueError):
            if "cov" in k:
                self._refused.append(np.array(k["cov"], dtype=float))
            raise

    def pdf(self, *a, **k):
        return self._call(self._real.pdf, a, k)

    def logpdf(self, *a, **k):
        return self._call(self._real.logpdf, a, k)


def scipy_refusals(refused):
    """context manager: while active, every covariance scipy refuses is appended to `refused`"""
    import scipy.stats as st
    return common.patched(st, "multivariate_normal", _RefusalSpy(st.multivariate_normal, refused))


def real_fit_recorded(X, w, K, ct, seed, n_init=1, max_iter=1000, tol=1e-3):
    """real GaussianMixture.fit, observed: rand() tape, k-means++ indices, matrices scipy refused, per-iteration lower
    bounds, smallest positive responsibility, worst error amplification cond*(1+maha) over the run"""
    from tempest.cluster import GaussianMixture
    import scipy.stats as st
    rec = dict(tape=[], picks=[], refused=[], lbs=[], min_pos_resp=1.0, amp=1.0, calls=0)
    real_mvn = st.multivariate_normal
    real_ss = np.searchsorted

    def spy_ss(a, v, *args, **kwargs):
        r = real_ss(a, v, *args, **kwargs)
        rec["picks"][-1].append(int(r))
        return r

    class MV:
        @staticmethod
        def _call(f, a, k):
            rec["calls"] += 1
            try:
                return f(*a, **k)
            except (np.linalg.LinAlgError, ValueError):
                rec["refused"].append(np.array(k["cov"], dtype=float))
                raise

        def pdf(self, *a, **k):
            return self._call(real_mvn.pdf, a, k)

        def logpdf(self, *a, **k):
            return self._call(real_mvn.logpdf, a, k)

    class G(GaussianMixture):
        def _initialize_parameters(self, Xi, swi):
            old = self._rng
            self._rng = _RngSpy(old, rec["tape"])
            rec["picks"].append([])
            rec["lbs"].append([])
            try:
                with common.patched(np, "searchsorted", spy_ss):
                    return GaussianMixture._initialize_parameters(self, Xi, swi)
            finally:
                self._rng = old

        def _e_step(self, Xi, weights, means, covariances):
            R = GaussianMixture._e_step(self, Xi, weights, means, covariances)
            pos = R[R > 0]
            if pos.size:
                rec["min_pos_resp"] = min(rec["min_pos_resp"], float(pos.min()))
            if np.all(np.isfinite(means)) and np.all(np.isfinite(covariances)):
                rec["amp"] = max(rec["amp"], _amp(self, Xi, means, covariances, self.n_components))
            else:
                rec["amp"] = float("inf")
            return R

        def _compute_lower_bound(self, *a):
            v = GaussianMixture._compute_lower_bound(self, *a)
            rec["lbs"][-1].append(float(v))
            return v

    gm = G(n_components=K, covariance_type=ct, random_state=seed, n_init=n_init, max_iter=max_iter, tol=tol)
    with common.patched(st, "multivariate_normal", MV()), warnings.catch_warnings(), np.errstate(all="ignore"):
        warnings.simplefilter("ignore")
        gm.fit(X.tolist() if (seed % 4 == 0) else X, w)      # every fourth case as nested lists (`np.array(X)` branch)
    return gm, rec


def fit_line(X, w, K, ct, tape, n_init, max_iter, tol, refused=(), reg=1e-6):
    n, d = X.shape
    return (f"gmm.fit.F d={d} k={K} diag={1 if ct == 'diag' else 0} x={_mat(X)} w={flist(w, f2hex)} tape={flist(tape, f2hex)} "
            f"tiny={f2hex(TINY)} eps={f2hex(EPS)} reg={f2hex(reg)} tol={f2hex(tol)} maxit={max_iter} ninit={n_init} "
            f"sing={_stack(refused)}")


def parse_fit(ans):
    t = ans.split(" ")
    if t[0] != "ok" or len(t) != 9:
        return None
    picks = [] if t[8] == "-" else [([] if r == "-" else [int(x) for x in r.split(".")]) for r in t[8].split(";")]
    return dict(w=_p_list(t[1]), m=_p_mat(t[2]), cf=_p_stack(t[3]), cd=_p_mat(t[4]), nit=int(t[5]), conv=t[6] == "1",
                lb=hex2f(t[7]), picks=picks)


def check_gmm_invariants(gm, X, k, ct):
    """the property's own oracle on a fitted real mixture (exact up to rounding: thresholds cannot fire on correct code)"""
    pi = np.asarray(gm.weights_, dtype=float)
    if pi.shape != (k,) or not np.all(np.isfinite(pi)):
        return f"weights_ not finite / wrong shape: {pi.tolist()}"
    if np.any(pi < 0):
        return f"negative component weight: {pi.tolist()}"
    if abs(float(np.sum(pi)) - 1.0) > 1e-12:
        return f"component weights sum to {float(np.sum(pi))!r} (|sum-1| = {abs(float(np.sum(pi)) - 1.0):.3e} > 1e-12)"
    if np.asarray(gm.means_).shape != (k, X.shape[1]):
        return f"means_ has shape {np.asarray(gm.means_).shape}"
    if not (1 <= int(gm.n_iter_) <= int(gm.max_iter)) or bool(gm.converged_) != (int(gm.n_iter_) < int(gm.max_iter)):
        return f"n_iter_ = {gm.n_iter_}, converged_ = {gm.converged_}, max_iter = {gm.max_iter}"
    lo, hi = X.min(axis=0), X.max(axis=0)
    for j in range(k):
        C = np.asarray(gm.covariances_[j], dtype=float)
        if not np.all(np.isfinite(C)):
            return f"covariance of component {j} not finite"
        scale = max(float(np.max(np.abs(C))), 1e-300)
        if ct == "full":
            if C.shape != (X.shape[1], X.shape[1]):
                return f"covariance of component {j} has shape {C.shape}"
            if float(np.max(np.abs(C - C.T))) > 1e-12 * scale:
                return f"covariance of component {j} not symmetric: max |C - C^T| = {float(np.max(np.abs(C - C.T))):.3e}"
            ev = float(np.min(np.linalg.eigvalsh((C + C.T) / 2)))
            if ev < -1e-12 * scale:
                return f"covariance of component {j} has eigenvalue {ev!r} < 0 (scale {scale:.3e})"
        else:
            if np.any(C < 0):
                return f"diagonal covariance of component {j} has a negative entry {float(C.min())!r}"
        if pi[j] >= 1e-3:
            m = np.asarray(gm.means_[j], dtype=float)
            slack = 1e-9 * (1.0 + np.maximum(np.abs(lo), np.abs(hi)))
            if np.any(m < lo - slack) or np.any(m > hi + slack):
                return (f"mean of component {j} (weight {pi[j]:.4f}) outside the bounding box: mean={m.tolist()} "
                        f"lo={lo.tolist()} hi={hi.tolist()}")
    return None


def api_guards():
    """the argument checks of the two classes: each call must raise ValueError (returns the list of those that did not)"""
    from tempest.cluster import GaussianMixture, HierarchicalGaussianMixture
    X = np.arange(12.0).reshape(6, 2)
    calls = [
        ("GaussianMixture.fit with a sample_weight of the wrong length", lambda: GaussianMixture().fit(X, np.ones(5))),
        ("HierarchicalGaussianMixture(threshold_modifier=0)", lambda: HierarchicalGaussianMixture(threshold_modifier=0)),
        ("HierarchicalGaussianMixture(threshold_modifier=-1)", lambda: HierarchicalGaussianMixture(threshold_modifier=-1.0)),
        ("HierarchicalGaussianMixture.fit with a sample_weight of the wrong length", lambda: HierarchicalGaussianMixture().fit(X, np.ones(7))),
        ("predict_proba before fit", lambda: HierarchicalGaussianMixture().predict_proba(X)),
        ("_normalize_data before fit", lambda: HierarchicalGaussianMixture(normalize=True)._normalize_data(X)),
        ("_denormalize_data before fit", lambda: HierarchicalGaussianMixture(normalize=True)._denormalize_data(X)),
        ("_denormalize_covariance before fit", lambda: HierarchicalGaussianMixture(normalize=True)._denormalize_covariance(np.eye(2))),
    ]
    bad = []
    for name, f in calls:
        try:
            with warnings.catch_warnings():
                warnings.simplefilter("ignore")
                f()
            bad.append(f"{name}: returned instead of raising ValueError")
        except ValueError:
            pass
        except Exception as ex:  # noqa
            bad.append(f"{name}: raised {type(ex).__name__} instead of ValueError")
    return len(calls), bad


def gen_fit_case(rs, i):
    d = int(rs.randint(1, 7))
    n = int(rs.randint(2 * d, 200)) if rs.rand() < 0.15 else int(rs.randint(2 * d, 61))
    K = int(rs.randint(1, 4))
    pf = POINT_FAMILIES[i % len(POINT_FAMILIES)]
    wf = WEIGHT_FAMILIES[(i // len(POINT_FAMILIES)) % len(WEIGHT_FAMILIES)]
    X = gen_points(rs, d, n, pf)
    scale = "unit"
    u = rs.rand()
    if u < 0.15:                       # the family on which the old `+ 1e-10` E-step collapsed (F30)
        X = X * 10.0 ** rs.uniform(1, 5)
        scale = "large"
    elif u < 0.25:
        X = X * 10.0 ** rs.uniform(-4, -1)
        scale = "small"
    w = None if (wf == "ones" and rs.rand() < 0.5) else gen_weights(rs, n, wf)
    ct = "full" if i % 2 == 0 else "diag"
    n_init = 1 if rs.rand() < 0.6 else int(rs.randint(2, 4))
    max_iter = 1000 if rs.rand() < 0.6 else [1, 2, 3, 5, 20][int(rs.randint(0, 5))]
    tol = 1e-3 if rs.rand() < 0.6 else [1e-6, 1e-1, 1e-2][int(rs.randint(0, 3))]
    return dict(X=X, w=w, K=K, ct=ct, seed=int(rs.randint(0, 10 ** 6)), n_init=n_init, max_iter=max_iter, tol=tol,
                pf=pf, wf=wf, scale=scale)


def _corr_fit(tier, drv):
    n_cases = 300 if tier == "quick" else 6000
    rng = common.rng_for("C15.fit")
    c = Corr("gmmfit-T", "toleranced Float, decisions exact (whole real GaussianMixture.fit under its recorded rand() tape vs the model's fit: "
                         "k-means++ indices, n_iter_, converged_ exact; weights_/means_/covariances_/lower_bound_ at 1e-8*(1+scale) + 1e-12*cond*(1+maha))")
    cp = Corr("property-R", "exact oracle on the REAL code, no model (every fitted mixture of gmmfit-T and every hierarchical fit of hfit-T is "
                            "checked against the statement's invariants)")
    n_guard, bad_guard = api_guards()
    cp.case(("api-guards", n_guard), True)
    cp.count("api_guard_calls", n_guard)
    for b in bad_guard:
        cp.disagree(what=b, suite_kind="api")
    lines, cases = [], []
    for i in range(n_cases):
        rs = _np_rng(rng)
        g = gen_fit_case(rs, i)
        X, w = g["X"], g["w"]
        try:
            gm, rec = real_fit_recorded(X, w, g["K"], g["ct"], g["seed"], g["n_init"], g["max_iter"], g["tol"])
        except Exception as ex:  # noqa  -- a fit that raises is a failure of the property on this input
            cp.case(("raise", g["pf"], g["wf"], _sha(X)), True)
            cp.disagree(what=f"GaussianMixture.fit raised {type(ex).__name__}: {str(ex)[:120]}", suite_kind="gmm", X=X, w=w, K=g["K"],
                        ct=g["ct"], seed=g["seed"], n_init=g["n_init"], max_iter=g["max_iter"], tol=g["tol"])
            continue
        # --- property oracle on the real result
        cp.case(("gmm", g["pf"], g["wf"], g["scale"], g["K"], g["ct"], _sha(X)), True)
        cp.count("gmm:" + g["scale"])
        msg = check_gmm_invariants(gm, X, g["K"], g["ct"])
        if msg:
            cp.disagree(what=msg, suite_kind="gmm", X=X, w=w, K=g["K"], ct=g["ct"], seed=g["seed"], n_init=g["n_init"],
                        max_iter=g["max_iter"], tol=g["tol"])
        ww = np.ones(len(X)) if w is None else w
        lines.append(fit_line(X, ww, g["K"], g["ct"], rec["tape"], g["n_init"], g["max_iter"], g["tol"], rec["refused"][:6]))
        cases.append(dict(g, gm=gm, rec=rec))
    res = drv.batch(lines)
    for cs, line, ans in zip(cases, lines, res):
        gm, rec, X, K, ct = cs["gm"], cs["rec"], cs["X"], cs["K"], cs["ct"]
        c.case((cs["pf"], cs["wf"], cs["scale"], K, ct, cs["n_init"], cs["max_iter"], cs["tol"], cs["seed"], _sha(X)),
               K >= 2 or cs["w"] is not None)
        c.count("points:" + cs["pf"])
        c.count("scale:" + cs["scale"])
        c.count(f"K={K}")
        c.count(f"n_init={cs['n_init']}")
        c.count("max_iter=" + ("1000" if cs["max_iter"] == 1000 else "small"))
        c.count("stopped:" + ("converged" if gm.converged_ else "max_iter"))
        hint = dict(suite_kind="gmm", X=X, w=cs["w"], K=K, ct=ct, seed=cs["seed"], n_init=cs["n_init"], max_iter=cs["max_iter"], tol=cs["tol"])
        if len(rec["tape"]) != K * cs["n_init"]:
            c.disagree(what=f"the fit drew {len(rec['tape'])} rand() values, the model expects n_components * n_init = {K * cs['n_init']}", **hint)
            continue
        r = parse_fit(ans)
        # runs whose outcome hangs on quantities the model cannot share with the real run to the last bit
        sensitive = []
        if rec["refused"]:
            sensitive.append("scipy_refused_a_covariance")
        if rec["min_pos_resp"] < 1e-280:
            sensitive.append("denormal_responsibilities")
        amp = rec["amp"]
        tol = 1e-8 + 1e-12 * amp
        if not np.isfinite(tol) or tol > 1e-3:
            sensitive.append("ill_conditioned")
        margins = []
        for lbs in rec["lbs"]:
            for a, b in zip(lbs[:-1], lbs[1:]):
                margins.append(abs((b - a) - cs["tol"]) / (1 + abs(b)))
        if margins and min(margins) < 1e-9 + (tol if np.isfinite(tol) else 0.0):
            sensitive.append("convergence_test_near_tie")
        if len(rec["lbs"]) > 1:
            # `lower_bound` when each restart's loop ended: the previous bound if the loop broke, else the last one
            ends = sorted((l[-2] if len(l) > 1 and (l[-1] - l[-2]) < cs["tol"] else l[-1]) for l in rec["lbs"] if l)
            if len(ends) > 1 and min(b - a for a, b in zip(ends[:-1], ends[1:])) < 1e-9 + (tol if np.isfinite(tol) else 0.0):
                sensitive.append("best_restart_near_tie")
        for t in sensitive:
            c.count("sensitive:" + t)
        probs = []
        if r is None:
            probs.append(f"model answers {ans[:60]!r}, the real fit returned")
        else:
            if r["picks"] != rec["picks"]:
                probs.append(f"k-means++ indices: real {rec['picks']} model {r['picks']}")
            if r["nit"] != int(gm.n_iter_) or r["conv"] != bool(gm.converged_):
                probs.append(f"n_iter_/converged_: real {gm.n_iter_}/{gm.converged_} model {r['nit']}/{r['conv']}")
            if not probs:
                xs = float(np.max(np.abs(X)))
                sp = float(np.max(np.ptp(X, axis=0)))
                mc = r["cf"] if ct == "full" else r["cd"]
                t2 = tol if np.isfinite(tol) else 1e-3
                if not _close(gm.weights_, r["w"], t2):
                    probs.append(f"weights_: real {gm.weights_.tolist()} model {r['w']}")
                elif not _close(gm.means_, r["m"], t2 * (1 + xs)):
                    probs.append(f"means_: real {str(gm.means_.tolist())[:150]} model {str(r['m'])[:150]}")
                elif not _close(gm.covariances_, mc, t2 * sp * sp + (1e-13 * (1 + xs)) ** 2 + 1e-300):
                    probs.append(f"covariances_: real {str(np.asarray(gm.covariances_).tolist())[:150]} model {str(mc)[:150]}")
                elif not _close([gm.lower_bound_], [r["lb"]], t2 * (1 + abs(gm.lower_bound_))):
                    probs.append(f"lower_bound_: real {gm.lower_bound_!r} model {r['lb']!r}")
        if probs:
            if sensitive:
                c.near_ties += 1
                c.count("sensitive_runs_that_differ")
            else:
                c.disagree(what="; ".join(probs)[:600], **hint)
        c.sample({"op": line[:140] + "...", "real": {"n_iter": int(gm.n_iter_), "weights": gm.weights_.tolist(), "lb": float(gm.lower_bound_)},
                  "model": None if r is None else {"n_iter": r["nit"], "weights": r["w"], "lb": r["lb"]}})
    return [c, cp]


# ------------------------------------------------------------------------------------------ (ii) split loop
class Tagged(np.ndarray):
    """ndarray that remembers the index list of its last fancy-indexing (`X[indices]`)"""

    def __array_finalize__(self, obj):
        self._c15_idx = getattr(obj, "_c15_idx", None)

    def __getitem__(self, item):
        out = super().__getitem__(item)
        if isinstance(item, list) and isinstance(out, Tagged):
            out._c15_idx = [int(i) for i in item]
        return out


def run_hgmm_recorded(X, w, refused=None, **kw):
    """real HierarchicalGaussianMixture.fit with a recording GaussianMixture; returns (hg, log).
    `refused` (a list) collects the covariances scipy refused during the fit"""
    from tempest import cluster
    Real = cluster.GaussianMixture
    log = []

    class RecGM(Real):
        def _initialize_parameters(self, Xi, swi):
            old = self._rng
            self._rng = _RngSpy(old, self._c15_ev["tape"])
            self._c15_ev["lbs"].append([])
            try:
                return Real._initialize_parameters(self, Xi, swi)
            finally:
                self._rng = old

        def _compute_lower_bound(self, *a):
            v = Real._compute_lower_bound(self, *a)
            if self._c15_ev["lbs"] and not self._c15_ev.get("in_bic"):
                self._c15_ev["lbs"][-1].append(float(v))
            return v

        def fit(self, data, sample_weight=None):
            ev = {"k": self.n_components, "idx": getattr(data, "_c15_idx", None), "n": int(len(data)),
                  "w": None if sample_weight is None else np.array(sample_weight, dtype=float), "bic": None,
                  "labels": None, "predict_called": False, "tape": [], "seed": self.random_state, "n_init": self.n_init,
                  "lbs": [], "tol": self.tol}
            self._c15_ev = ev
            log.append(ev)
            return Real.fit(self, np.asarray(data), sample_weight)

        def bic(self, data):
            self._c15_ev["in_bic"] = True
            try:
                b = Real.bic(self, np.asarray(data))
            finally:
                self._c15_ev["in_bic"] = False
            self._c15_ev["bic"] = b
            if self.n_components == 2:
                # what `child_gmm.predict(data)` returns (deterministic; the real loop calls it only if the score test passes)
                self._c15_ev["labels"] = [int(t) for t in Real.predict(self, np.asarray(data))]
            return b

        def predict(self, data):
            self._c15_ev["predict_called"] = True
            return Real.predict(self, np.asarray(data))

    hg = cluster.HierarchicalGaussianMixture(**kw)
    Xt = np.array(X, dtype=float).view(Tagged)
    with common.patched(cluster, "GaussianMixture", RecGM), scipy_refusals([] if refused is None else refused), \
            warnings.catch_warnings(), np.errstate(all="ignore"):
        warnings.simplefilter("ignore")
        hg.fit(Xt, sample_weight=None if w is None else np.array(w, dtype=float))
    return hg, log


def examined_from_log(hg, log, d):
    """pairs (parent fit, child fit) = one examined cluster each; the rest are the final per-cluster fits"""
    ex, final = [], []
    i = 0
    while i < len(log):
        e = log[i]
        if e["k"] == 1 and i + 1 < len(log) and log[i + 1]["k"] == 2 and e["bic"] is not None:
            ch = log[i + 1]
            thr = hg.threshold_modifier * hg._compute_bic_tolerance(d, ch["w"])
            ex.append({"idx": ch["idx"], "parent_bic": e["bic"], "child_bic": ch["bic"],
                       "improvement": e["bic"] - ch["bic"], "threshold": thr, "labels": ch["labels"],
                       "predict_called": ch["predict_called"], "same_idx": e["idx"] == ch["idx"]})
            i += 2
        else:
            final.append(e)
            i += 1
    return ex, final


def gen_multi_split_case(rs, i):
    """4-8 well separated blobs of unequal sizes on a line / an anisotropic grid / a nested layout (groups of groups): several
    accepted splits (typically K-1 = 3..7) in varied orders — which child of an earlier split is split first depends on the
    sizes and gaps — so that the history of the cluster LIST (pop at a position, two appends) matters"""
    d = int(rs.randint(1, 4))
    kb = int(rs.randint(4, 9))
    layout = ["line", "grid", "nested"][i % 3]
    if d == 1:
        layout = "line" if layout == "grid" else layout
    if layout == "line":
        pos = np.cumsum(rs.uniform(8, 40, kb))
        cen = np.zeros((kb, d))
        cen[:, 0] = pos
    elif layout == "grid":
        gx = int(np.ceil(kb / 2))
        cen = np.zeros((kb, d))
        step = (rs.uniform(25, 60), rs.uniform(5, 10))
        for j in range(kb):
            cen[j, 0] = (j % gx) * step[0]
            cen[j, 1] = (j // gx) * step[1]
    else:
        g = int(rs.randint(2, 4))
        sup = rs.normal(0, 120, (g, d))
        cen = np.array([sup[j % g] + rs.normal(0, 12, d) for j in range(kb)])
    cen = cen[rs.permutation(kb)]
    sizes = [int(rs.randint(12, 45)) for _ in range(kb)]
    sd = rs.uniform(0.3, 0.8)
    X = np.vstack([cen[j] + rs.normal(0, sd, (sizes[j], d)) for j in range(kb)])
    if rs.rand() < 0.5:
        X = X[rs.permutation(len(X))]
    n = len(X)
    wf = ["ones", "int", "skewed", "ones"][(i // 3) % 4]
    w = None if wf == "ones" else gen_weights(rs, n, wf)
    if wf == "skewed":
        w = np.exp(rs.normal(0, 1, n))
    kw = dict(max_iterations=[1000, 10, 1000, 4][int(rs.randint(0, 4))], min_points=[None, None, 5][int(rs.randint(0, 3))],
              threshold_modifier=[1.0, 0.1, 1.0][int(rs.randint(0, 3))], normalize=bool(rs.rand() < 0.5), covariance_type="full")
    return X, w, kw, dict(shape="multi:" + layout, sizes=sizes, wf=wf, mp_kind="none" if kw["min_points"] is None else "small")


def gen_split_case(rs, i):
    if i % 10 == 9:
        return gen_multi_split_case(rs, i // 10)
    d = int(rs.randint(1, 4))
    shape = ["balanced", "undersized", "overlap", "dups", "balanced", "undersized", "overlap", "dups", "line"][i % 9]
    kb = int(rs.randint(2, 5))
    if shape == "line":
        d = int(rs.randint(2, 4))
    if shape == "undersized":
        sizes = [int(rs.randint(12, 40)) for _ in range(kb - 1)] + [int(rs.randint(1, 2 * d + 1))]
    else:
        sizes = [int(rs.randint(max(2 * d, 6), 45)) for _ in range(kb)]
    sep = 2.0 if shape == "overlap" else 15.0
    cen = rs.normal(0, sep, (kb, d))
    X = np.vstack([cen[j] + rs.normal(0, 1.0, (sizes[j], d)) for j in range(kb)])
    if shape == "line":
        # one blob exactly on a line with a spread of 1e2.5..1e4: its fitted covariance + 1e-6 I is refused by scipy
        # (lambda_min / lambda_max < 2.2e-10), in the inner fits and in _compute_gaussian_probabilities (identity fall-back)
        m0 = sizes[0]
        if rs.rand() < 0.5:
            X[:m0] = rs.normal(0, 3e4, (1, d)) + rs.normal(0, 1, (m0, 1)) * rs.normal(0, 1, (1, d)) * 10.0 ** rs.uniform(2.5, 4)
        else:
            # ALL points on one line (two groups along it): every final cluster has a refused covariance, so predict takes the
            # identity fall-back of the 'full' branch too
            t = np.concatenate([rs.normal(-3, 1, (len(X) // 2, 1)), rs.normal(3, 1, (len(X) - len(X) // 2, 1))])
            X = rs.normal(0, 50, (1, d)) + t * rs.normal(0, 1, (1, d)) * 10.0 ** rs.uniform(2.5, 4)
    if shape == "dups":
        m = len(X)
        src = rs.randint(0, m, m // 3)
        dst = rs.randint(0, m, m // 3)
        X[dst] = X[src]
    X = X[rs.permutation(len(X))]
    n = len(X)
    wf = ["ones", "skewed", "ones", "int", "skewed", "ones", "two"][(i // 4) % 7]
    w = None if (wf == "ones" and rs.rand() < 0.5) else gen_weights(rs, n, wf)
    maxit = [0, 1, 2][int(rs.randint(0, 3))] if rs.rand() < 0.45 else 1000
    mp_kind = ["none", "small", "none", "small", "large"][int(rs.randint(0, 5))]
    if mp_kind == "none":
        mp = None
    elif mp_kind == "small":
        mp = int(rs.randint(2, 6))
    else:
        srt = sorted(sizes)
        mp = int(rs.randint(srt[0] + 1, max(srt[0] + 2, srt[-1] + 5)))
    kw = dict(max_iterations=maxit, min_points=mp, threshold_modifier=[0.1, 1.0, 1.0, 0.1, 10.0][int(rs.randint(0, 5))],
              normalize=bool(rs.rand() < 0.5), covariance_type="full" if rs.rand() < 0.7 else "diag")
    return X, w, kw, dict(shape=shape, sizes=sizes, wf=wf, mp_kind=mp_kind)


def split_line(n, minpts, maxit, ex):
    seen = {}
    conflict = None
    for e in ex:
        key = tuple(e["idx"])
        val = (f2hex(e["improvement"]), f2hex(e["threshold"]), "".join(str(t) for t in e["labels"]))
        if key in seen and seen[key] != val:
            conflict = key
        seen[key] = val
    script = ";".join(f"{'.'.join(map(str, k))}:{v[0]}:{v[1]}:{v[2]}" for k, v in seen.items()) or "-"
    return f"hgmm.F n={n} minpts={minpts} maxit={maxit} script={script}", conflict


TAPE42 = None


def tape42(m):
    """what `np.random.RandomState(42).rand()` returns, call after call (every inner fit of the hierarchical model is seeded with 42)"""
    global TAPE42
    if TAPE42 is None or len(TAPE42) < m:
        rs = np.random.RandomState(42)
        TAPE42 = [float(rs.rand()) for _ in range(max(m, 16))]
    return TAPE42[:m]


def hfit_line(X, w, kw, Q, n_init=1, refused=()):
    n, d = X.shape
    ww = np.ones(n) if w is None else np.asarray(w, dtype=float)
    mp = "none" if kw["min_points"] is None else str(kw["min_points"])
    return (f"hgmm.fit.F d={d} diag={1 if kw['covariance_type'] == 'diag' else 0} norm={1 if kw['normalize'] else 0} x={_mat(X)} "
            f"w={flist(ww, f2hex)} tape={flist(tape42(2 * n_init), f2hex)} tiny={f2hex(TINY)} eps={f2hex(EPS)} reg={f2hex(REG)} "
            f"tol={f2hex(TOL)} gmaxit={GMAXIT} ninit={n_init} maxit={kw['max_iterations']} minpts={mp} mod={f2hex(kw['threshold_modifier'])} "
            f"regp={f2hex(1e-6)} epsd={f2hex(1e-8)} q={_mat(Q)} sing={_stack(refused)}")


def parse_hfit(ans):
    t = ans.split(" ")
    if t[0] != "ok" or len(t) != 12:
        return None
    pl = lambda z: [] if z == "-" else [int(x) for x in z.split(",")]
    return dict(K=int(t[1]), clusters=[] if t[2] == "-" else [[int(x) for x in r.split(",")] for r in t[2].split(";")],
                labels=pl(t[3]), centers=_p_mat(t[4]), covs=_p_stack(t[5]), weights=_p_list(t[6]), trace=t[7],
                p1=pl(t[8]), pp1=_p_mat(t[9]), p0=pl(t[10]), pp0=_p_mat(t[11]))


def query_points(rs, X):
    """query points for predict / predict_proba: training points, points around the data, far away (every density
    underflows / overflows), and non-finite ones"""
    d = X.shape[1]
    sgn = np.r_[1.0, -np.ones(d - 1)]
    return np.vstack([X[: min(5, len(X))], rs.normal(0, 30, (6, d)), X.mean(axis=0) + rs.choice([-1.0, 1.0], (4, d)) * 1e6,
                      np.full((2, d), 1e150), np.full((1, d), 1e200) * sgn, np.full((1, d), 1e308), np.full((1, d), np.nan),
                      np.full((1, d), np.inf), np.r_[np.nan, np.zeros(d - 1)][None, :], np.r_[-np.inf, np.zeros(d - 1)][None, :]])


def real_predictions(hg, Q, refused=None, as_list=False):
    """predict / predict_proba of a fitted real model on both paths (mixture posterior; nearest centre with `_gmm_ready` off);
    `as_list`: hand the query points over as nested lists (the `np.array(X)` conversion branch)"""
    out = {}
    with scipy_refusals([] if refused is None else refused), warnings.catch_warnings(), np.errstate(all="ignore"):
        warnings.simplefilter("ignore")
        out["p1"] = np.asarray(hg.predict(Q.tolist() if as_list else Q))
        out["pp1"] = np.asarray(hg.predict_proba(Q.tolist() if as_list else Q))
        ready = hg._gmm_ready
        hg._gmm_ready = False
        try:
            out["p0"] = np.asarray(hg.predict(Q))
            out["pp0"] = np.asarray(hg.predict_proba(Q))
        finally:
            hg._gmm_ready = ready
    return out


def check_hgmm_invariants(hg, X, w, kw, exd, preds, nq):
    """the property's own oracle on a fitted real hierarchical model and its predictions"""
    n, d = X.shape
    K = int(hg.n_clusters_)
    lab = np.asarray(hg.labels_)
    if lab.shape != (n,) or lab.dtype.kind not in "iu":
        return f"labels_ has shape {lab.shape} dtype {lab.dtype}"
    if K < 1 or np.any(lab < 0) or np.any(lab >= K):
        return f"training label outside [0,{K}): min {int(lab.min())} max {int(lab.max())}"
    if K > kw["max_iterations"] + 1:
        return f"n_clusters_ = {K} exceeds max_iterations + 1 = {kw['max_iterations'] + 1}"
    if len(hg.cluster_centers_) != K or len(hg.cluster_covariances_) != K or len(hg.cluster_weights_) != K:
        return f"n_clusters_ = {K} but {len(hg.cluster_centers_)} centres / {len(hg.cluster_covariances_)} covariances / {len(hg.cluster_weights_)} weights"
    minpts = kw["min_points"] if kw["min_points"] is not None else 2 * d
    sizes = np.bincount(lab, minlength=K)
    if K > 1 and int(sizes.min()) < minpts:
        return f"an accepted split left a cluster of {int(sizes.min())} < min_points = {minpts} members (sizes {sizes.tolist()})"
    cw = np.asarray(hg.cluster_weights_, dtype=float)
    if np.any(~np.isfinite(cw)) or np.any(cw < 0) or abs(float(cw.sum()) - 1.0) > 1e-9:
        return f"cluster_weights_ = {cw.tolist()} is not a probability vector"
    for name in ("p1", "p0"):
        p = preds[name]
        if p.shape != (nq,) or p.dtype.kind not in "iu" or np.any(p < 0) or np.any(p >= K):
            return f"predict ({'mixture' if name == 'p1' else 'nearest-centre'} path) returned labels outside [0,{K}): {p.tolist()[:12]}"
    for name in ("pp1", "pp0"):
        P = preds[name]
        if P.shape != (nq, K):
            return f"predict_proba returned shape {P.shape}, expected {(nq, K)}"
        fin = np.all(np.isfinite(P), axis=1)
        if np.any(P[fin] < 0) or np.any(P[fin] > 1 + 1e-12):
            return f"predict_proba returned an entry outside [0,1]"
    return None


def oracle_refit(datasets, kw):
    """the SAME HierarchicalGaussianMixture object fitted again and again (as the Trainer does with the shared clusterer): after
    EVERY fit the statement's invariants must hold (K <= max_iterations + 1, every point one label in [0,K), sizes >= min_points,
    weights sum to 1, predict in range) and the re-fitted object must equal a FRESH object fitted on the same data, bit for bit
    (a fit has no memory).  `datasets` = [(X, w), ...].  Returns a description of the first failure or None."""
    from tempest.cluster import HierarchicalGaussianMixture
    shared = HierarchicalGaussianMixture(**kw)
    with warnings.catch_warnings(), np.errstate(all="ignore"):
        warnings.simplefilter("ignore")
        for t, (X, w) in enumerate(datasets):
            X = np.asarray(X, dtype=float)
            w = None if w is None else np.asarray(w, dtype=float)
            shared.fit(X, w)
            Q = X[: min(8, len(X))]
            preds = real_predictions(shared, Q)
            msg = check_hgmm_invariants(shared, X, w, kw, [], preds, len(Q))
            if msg:
                return f"fit number {t + 1} of the same object: {msg}"
            fresh = HierarchicalGaussianMixture(**kw).fit(X, w)
            if int(fresh.n_clusters_) != int(shared.n_clusters_) or not np.array_equal(fresh.labels_, shared.labels_):
                return (f"fit number {t + 1} of the same object differs from a fresh object on the same data: n_clusters_ "
                        f"{int(shared.n_clusters_)} vs {int(fresh.n_clusters_)} (cap {kw['max_iterations'] + 1})")
            for a, b in zip(shared.cluster_centers_, fresh.cluster_centers_):
                if not np.array_equal(np.asarray(a), np.asarray(b), equal_nan=True):
                    return f"fit number {t + 1} of the same object: cluster_centers_ differ from a fresh object's on the same data"
    return None


def gen_refit_case(rs, i):
    """a sequence of 2-4 data sets (the same one again, a jittered / grown copy, or a new draw) with MORE separable groups than a
    small finite cap allows, for one shared object"""
    X, w, kw, meta = gen_multi_split_case(rs, i)
    kw = dict(kw, max_iterations=int(rs.randint(1, 4)), min_points=[None, 8, 5][int(rs.randint(0, 3))])
    seq = [(X, w)]
    for _ in range(int(rs.randint(1, 4))):
        u = rs.rand()
        if u < 0.4:
            seq.append((X, w))
        elif u < 0.8:
            seq.append((X + rs.normal(0, 0.05, X.shape), w))
        else:
            X2, w2, _, _ = gen_multi_split_case(rs, i + 1)
            if X2.shape[1] == X.shape[1]:
                seq.append((X2, w2))
            else:
                seq.append((X[rs.permutation(len(X))], None))
    return seq, kw, meta


def _split_near_tie(exd, tol=1e-9):
    """does some decision of the real split loop hang on a margin below the tolerance (score against threshold, or
    against the best score so far)?"""
    imps = [e["improvement"] for e in exd]
    for e in exd:
        sc = 1.0 + abs(e["improvement"]) + abs(e["threshold"])
        if not np.isfinite(e["improvement"]) or abs(e["improvement"] - e["threshold"]) <= tol * sc:
            return True
    srt = sorted(v for v in imps if np.isfinite(v))
    return any(b - a <= tol * (1 + abs(b)) for a, b in zip(srt[:-1], srt[1:]) if b != a)


def _restart_near_tie(log, tol=1e-9):
    """some inner fit with several restarts ended two of them on lower bounds closer than the tolerance: which one is kept
    (and hence the ORDER of the two child components) hangs on the last bits"""
    for e in log:
        if len(e.get("lbs", [])) > 1:
            ends = sorted((l[-2] if len(l) > 1 and (l[-1] - l[-2]) < e["tol"] else l[-1]) for l in e["lbs"] if l)
            if any(b - a <= tol * (1 + abs(b)) for a, b in zip(ends[:-1], ends[1:])):
                return True
    return False


def _corr_hier(tier, drv, cp):
    n_cases = 300 if tier == "quick" else 4000
    rng = common.rng_for("C15.split")
    c = Corr("split-X", "exact replay (recorded float scores compared with the same IEEE `>`; index lists exact)")
    ch = Corr("hfit-T", "decisions exact, values toleranced (whole real HierarchicalGaussianMixture.fit + predict + predict_proba vs the "
                        "model's hfit with the mixture fits inside: examined clusters, labels_, n_clusters_, predicted labels on both paths "
                        "exact; centres/covariances/weights/probabilities at 1e-7)")
    lines, cases = [], []
    for i in range(n_cases):
        rs = _np_rng(rng)
        X, w, kw, meta = gen_split_case(rs, i)
        n, d = X.shape
        n_init = 1 if rs.rand() < 0.8 else 2
        kw = dict(kw, n_init=n_init)
        Q = query_points(rs, X)
        refused = []
        try:
            hg, log = run_hgmm_recorded(X, w, refused=refused, **kw)
            preds = real_predictions(hg, Q, refused=refused, as_list=(i % 5 == 0))
        except Exception as ex:  # noqa -- the hierarchical fit / predict must not raise on the statement's data
            cp.case(("raise", meta["shape"], str(kw), _sha(X)), True)
            cp.disagree(what=f"HierarchicalGaussianMixture fit/predict raised {type(ex).__name__}: {str(ex)[:120]}",
                        suite_kind="split", X=X, w=w, kw=kw)
            continue
        exd, final = examined_from_log(hg, log, d)
        # --- property oracle on the real model
        cp.case(("hgmm", meta["shape"], meta["wf"], str(kw), _sha(X)), True)
        cp.count("hgmm")
        msg = check_hgmm_invariants(hg, X, w, kw, exd, preds, len(Q))
        if msg:
            cp.disagree(what=msg, suite_kind="split", X=X, w=w, kw=kw)
        if any(e["idx"] is None for e in exd) or any(e["idx"] is None for e in final):
            c.count("index_tag_lost")      # the implementation no longer slices with `X[indices]`: nothing to replay
            continue
        minpts = kw["min_points"] if kw["min_points"] is not None else 2 * d
        line, conflict = split_line(n, minpts, kw["max_iterations"], exd)
        lines.append(line)
        uniq = []
        for M in refused:               # distinct refused matrices (the same one is refused again and again)
            if not any(M.shape == U.shape and np.array_equal(M, U, equal_nan=True) for U in uniq):
                uniq.append(M)
        lines.append(hfit_line(X, w, kw, Q, n_init, uniq[:12]))
        cases.append(dict(X=X, w=w, kw=kw, meta=meta, hg=hg, ex=exd, final=final, conflict=conflict, minpts=minpts, Q=Q,
                          preds=preds, log=log, n_init=n_init, n_refused=len(uniq)))
    # the same object fitted several times (statelessness, and the cap after EVERY fit)
    rng_r = common.rng_for("C15.refit")
    for i in range(24 if tier == "quick" else 400):
        rs = _np_rng(rng_r)
        seq, kw_r, meta_r = gen_refit_case(rs, i)
        cp.case(("refit", meta_r["shape"], str(kw_r), _sha(seq[0][0])), True)
        cp.count("refit_sequences")
        cp.count("refit_fits", len(seq))
        try:
            msg = oracle_refit(seq, kw_r)
        except Exception as ex:  # noqa
            msg = f"raised {type(ex).__name__}: {str(ex)[:120]}"
        if msg:
            cp.disagree(what=msg, suite_kind="refit", seq=[(a, b) for a, b in seq], kw=kw_r)
    res = drv.batch(lines)
    for j, cs in enumerate(cases):
        line, ans = lines[2 * j], res[2 * j]
        hline, hans = lines[2 * j + 1], res[2 * j + 1]
        hg, exd, kw, X = cs["hg"], cs["ex"], cs["kw"], cs["X"]
        n, d = X.shape
        c.case((cs["meta"]["shape"], cs["meta"]["wf"], str(kw), _sha(X)), len(exd) >= 1)
        c.count("shape:" + cs["meta"]["shape"])
        c.count("min_points:" + cs["meta"]["mp_kind"])
        c.count(f"max_iterations={kw['max_iterations']}")
        c.count(f"K={hg.n_clusters_}")
        c.count("examined", len(exd))
        hint = dict(suite_kind="split", X=X, w=cs["w"], kw=kw)
        real_labels = [int(t) for t in hg.labels_]
        if cs["conflict"] is not None:
            c.disagree(what="the same member list was scored differently in two passes", members=list(cs["conflict"]), **hint)
        else:
            toks = ans.split(" ")
            if len(toks) != 4:
                c.disagree(what="model could not replay the log", model=ans[:200], input=line[:200],
                           real_examined=[e["idx"] for e in exd][:6], **hint)
            else:
                mK = int(toks[0])
                mclusters = [] if toks[1] == "-" else [[int(t) for t in r.split(",")] for r in toks[1].split(";")]
                mlabels = [] if toks[2] == "-" else [int(t) for t in toks[2].split(",")]
                mtrace = [] if toks[3] == "-" else [[int(t) for t in r.split(":")[2].split(".")] for r in toks[3].split(";")]
                real_final = [e["idx"] for e in cs["final"]]
                model_final = [cl for cl in mclusters if len(cl) >= d]
                problems = []
                if mtrace != [e["idx"] for e in exd]:
                    problems.append("sequence of examined clusters")
                if mK != int(hg.n_clusters_):
                    problems.append(f"n_clusters_ real {hg.n_clusters_} model {mK}")
                if mlabels != real_labels:
                    problems.append("labels_")
                if model_final != real_final:
                    problems.append("final cluster order")
                if any(not e["same_idx"] for e in exd):
                    problems.append("parent and child mixtures were fitted on different members")
                # the real loop calls predict exactly when the score test passes and beats the best so far: replayed inside the
                # model; here only the weaker, local consequence
                for e in exd:
                    if e["predict_called"] and not (e["improvement"] > e["threshold"]):
                        problems.append("predict called although the score did not pass the threshold")
                if problems:
                    c.disagree(what="; ".join(problems), impl=dict(K=int(hg.n_clusters_), labels=real_labels[:40]),
                               model=dict(K=mK, labels=mlabels[:40]), **hint)
                if any(e["predict_called"] for e in exd):
                    c.count("cases_with_score_pass")
                if any(e["predict_called"] and min(e["labels"].count(0), e["labels"].count(1)) < cs["minpts"] for e in exd):
                    c.count("cases_with_split_refused_for_size")
                c.sample({"params": kw, "n": n, "d": d, "examined": len(exd), "K": int(hg.n_clusters_), "model": ans[:160]})
        # ---------------- the whole fit with the numerics inside the model
        ch.case((cs["meta"]["shape"], cs["meta"]["wf"], str(kw), _sha(X)), len(exd) >= 1)
        ch.count("cov:" + kw["covariance_type"] + (":normalize" if kw["normalize"] else ""))
        ch.count(f"K={hg.n_clusters_}")
        ch.count(f"n_init={cs['n_init']}")
        ch.count("shape:" + cs["meta"]["shape"])
        if cs["n_refused"]:
            ch.count("cases_where_scipy_refused_a_covariance")
        bad_tape = [e for e in cs["log"] if e["tape"] != tape42(len(e["tape"])) or len(e["tape"]) != e["k"] * cs["n_init"] or e["seed"] != 42]
        if bad_tape:
            ch.disagree(what=f"an inner mixture fit (n_components={bad_tape[0]['k']}) did not draw RandomState(42)'s values: "
                             f"{bad_tape[0]['tape'][:3]} (random_state={bad_tape[0]['seed']})", **hint)
            continue
        r = parse_hfit(hans)
        probs, soft = [], []
        preds, Q = cs["preds"], cs["Q"]
        if r is None:
            probs.append(f"model answers {hans[:60]!r}, the real fit returned")
        else:
            if [t.split(":")[2] for t in ([] if r["trace"] == "-" else r["trace"].split(";"))] != [".".join(map(str, e["idx"])) for e in exd]:
                probs.append("sequence of examined clusters")
            if r["K"] != int(hg.n_clusters_):
                probs.append(f"n_clusters_ real {hg.n_clusters_} model {r['K']}")
            if r["labels"] != real_labels:
                probs.append("labels_")
            if not probs:
                sc = 1.0 + float(np.max(np.abs(X)))
                for a, b in zip(r["centers"], hg.cluster_centers_):
                    if not _close(b, a, 1e-7 * sc):
                        probs.append(f"cluster_centers_: real {np.asarray(b).tolist()} model {a}")
                        break
                for a, b in zip(r["covs"], hg.cluster_covariances_):
                    if np.shape(a) != np.shape(b) or not _close(b, a, 1e-7 * sc * sc):
                        probs.append(f"cluster_covariances_: real {str(np.asarray(b).tolist())[:120]} model {str(a)[:120]}")
                        break
                if not _close(hg.cluster_weights_, r["weights"], 1e-9):
                    probs.append(f"cluster_weights_: real {np.asarray(hg.cluster_weights_).tolist()} model {r['weights']}")
                for name, what in (("pp1", "predict_proba"), ("pp0", "predict_proba (distance path)")):
                    if not _close(preds[name], r[name], 1e-7):
                        A, B = np.asarray(preds[name], dtype=float), np.asarray(r[name], dtype=float)
                        rows = list(range(len(A))) if A.shape != B.shape else \
                            [q for q in range(len(A)) if not _close(A[q], B[q], 1e-7)]
                        if A.shape == B.shape and _pred_unstable(hg, Q, rows, name):
                            ch.near_ties += 1
                            ch.count("numerically_undetermined_query_rows", len(rows))
                        else:
                            soft.append(what)
                for name, pname, what in (("p1", "pp1", "predict"), ("p0", None, "predict (nearest-centre path)")):
                    real_p = [int(t) for t in preds[name]]
                    if real_p != r[name]:
                        rows = [q for q in range(len(real_p)) if real_p[q] != r[name][q]]
                        # a label may differ only where the two best posteriors / distances tie to the tolerance, or where the
                        # real code's own answer changes under a 1e-13 perturbation of the fitted parameters
                        if pname is not None and all(_row_tie(preds[pname][q]) for q in rows):
                            ch.near_ties += 1
                        elif _pred_unstable(hg, Q, rows, name):
                            ch.near_ties += 1
                            ch.count("numerically_undetermined_query_rows", len(rows))
                        else:
                            probs.append(f"{what}: rows {rows[:5]} real {[real_p[q] for q in rows[:5]]} model {[r[name][q] for q in rows[:5]]}")
                probs += soft
        if probs:
            if (r is not None) and _split_near_tie(exd) and not soft:
                ch.near_ties += 1
                ch.count("split_decision_near_tie")
            elif (r is not None) and _restart_near_tie(cs["log"]):
                ch.near_ties += 1
                ch.count("inner_restart_near_tie")
            elif cs["n_refused"] > 12:
                ch.near_ties += 1           # more distinct refusals than were handed to the model's oracle
                ch.count("refusals_not_all_replayed")
            else:
                ch.disagree(what="; ".join(probs)[:600], **hint)
        far = np.asarray(preds["pp1"])[11:]
        ch.count("query_rows", len(Q))
        ch.count("query_rows_with_nan_probabilities", int(np.sum(np.any(np.isnan(np.asarray(preds["pp1"])), axis=1))))
        ch.sample({"params": kw, "n": n, "d": d, "K": int(hg.n_clusters_), "model": hans[:120]})
    return [c, ch]


def _pred_unstable(hg, Q, rows, name):
    """are the real model's own answers at these query rows numerically undetermined?  The fitted centres and covariances are
    perturbed by 1e-13 relative (twelve times); if `predict` / `predict_proba` of the REAL code changes at one of the rows, the
    row hangs on the last bits of the parameters (ill-conditioned covariance, far-away query) and cannot be compared"""
    import copy
    base = real_predictions(hg, Q)
    rs = np.random.RandomState(len(Q) * 7919 + len(rows))
    for _ in range(12):
        h2 = copy.copy(hg)
        h2.cluster_covariances_ = [np.asarray(c) * (1.0 + 1e-13 * rs.standard_normal(np.shape(c))) for c in hg.cluster_covariances_]
        h2.cluster_centers_ = [np.asarray(c) * (1.0 + 1e-13 * rs.standard_normal(np.shape(c))) for c in hg.cluster_centers_]
        alt = real_predictions(h2, Q)
        for q in rows:
            a, b = np.asarray(base[name][q]), np.asarray(alt[name][q])
            if a.ndim == 0:
                if int(a) != int(b):
                    return True
            elif not _close(a, b, 1e-7):
                return True
    return False


def _row_tie(prow, tol=1e-7):
    prow = np.asarray(prow, dtype=float)
    if np.any(np.isnan(prow)):
        return False
    srt = np.sort(prow)
    return len(srt) >= 2 and (srt[-1] - srt[-2]) <= tol


# ------------------------------------------------------------------------------------------ (iii) replication
def fit_spy(X, sw, k, ct, seed):
    """real GaussianMixture.fit; also reports the data points drawn as initial centres"""
    from tempest.cluster import GaussianMixture
    picked = []
    real_ss = np.searchsorted

    def spy(a, v, *args, **kwargs):
        r = real_ss(a, v, *args, **kwargs)
        picked.append(int(r))
        return r

    class SpyGM(GaussianMixture):
        def _initialize_parameters(self, Xi, swi):
            with common.patched(np, "searchsorted", spy):
                return GaussianMixture._initialize_parameters(self, Xi, swi)

    gm = SpyGM(n_components=k, covariance_type=ct, random_state=seed)
    with warnings.catch_warnings():
        warnings.simplefilter("ignore")
        gm.fit(X, sw)
    centres = [X[i].tolist() if 0 <= i < len(X) else None for i in picked]
    return gm, centres


def replicate_compare(X, cnt, k, ct, seed, tol=1e-6):
    """returns (status, detail): status in ok | skipped:<why> | differ"""
    cnt = np.asarray(cnt, dtype=int)
    Xr = np.repeat(X, cnt, axis=0)
    g1, c1 = fit_spy(X, cnt.astype(float), k, ct, seed)
    g2, c2 = fit_spy(Xr, None, k, ct, seed)
    if c1 != c2:
        return "skipped:different_initial_centres", None
    if g1.n_iter_ != g2.n_iter_:
        return "skipped:different_iteration_count", None
    if g1.n_iter_ > 60:
        return "skipped:slow_convergence", None
    xs = float(np.max(np.abs(X)))
    sp = float(np.max(np.ptp(X, axis=0)))
    out = []
    for name, a, b, sc in (("weights_", g1.weights_, g2.weights_, 1.0), ("means_", g1.means_, g2.means_, 1 + xs),
                           ("covariances_", g1.covariances_, g2.covariances_, 1e-6 + sp * sp)):
        if not _close(a, b, tol * sc):
            out.append({"field": name, "weighted": np.asarray(a).tolist(), "replicated": np.asarray(b).tolist()})
    if out:
        return "differ", out[0]
    return "ok", None


def gen_rep_case(rs, i):
    d = int(rs.randint(1, 5))
    n = int(rs.randint(2 * d + 2, 40))
    pf = ["separated", "overlap", "offset"][i % 3]
    X = gen_points(rs, d, n, pf)
    cnt = rs.randint(1, 5, n)
    if rs.rand() < 0.3:
        cnt[rs.rand(n) < 0.2] = 0
        if cnt.sum() < 2 * d + 2:
            cnt[:] = 1
    k = 1 if i % 2 == 0 else 2
    ct = "full" if rs.rand() < 0.6 else "diag"
    return X, cnt, k, ct, int(rs.randint(0, 1000)), pf


def _corr_replicate(tier):
    n_cases = 120 if tier == "quick" else 2000
    rng = common.rng_for("C15.replicate")
    c = Corr("replicate-T", "real vs real (theorem C15_em_factors_through_wsum predicts equality; tolerance 1e-6 relative)")
    for i in range(n_cases):
        rs = _np_rng(rng)
        X, cnt, k, ct, seed, pf = gen_rep_case(rs, i)
        try:
            st, detail = replicate_compare(X, cnt, k, ct, seed)
        except Exception as ex:
            c.count("real_raised:" + type(ex).__name__)
            continue
        c.case((pf, k, ct, seed, _sha(X, cnt)), bool(np.max(cnt) >= 2))
        c.count(f"k={k}:{st}")
        if st == "differ":
            c.disagree(what="integer-weighted fit differs from the fit on replicated points", detail=str(detail)[:300],
                       suite_kind="replicate", X=X, cnt=cnt, k=k, ct=ct, seed=seed)
        c.sample({"n": len(X), "d": X.shape[1], "k": k, "cov": ct, "counts": cnt.tolist()[:12], "status": st})
    return [c]


def _corr_lits(drv):
    """lits-X: the literal parameters the models are instantiated with in Props/C15Source.lean (`Model.ClusterLits`, tied to the
       literals of the source by `rfl`), as the compiled driver evaluates them at Float, against (a) the constants this harness
       sends to the driver and (b) the defaults of a freshly constructed real GaussianMixture — bit for bit"""
    from tempest.cluster import GaussianMixture
    c = Corr("lits-X", "X")
    ans = drv.batch(["lits.F"])[0].split()
    gm = GaussianMixture()
    if len(ans) != 5:
        c.disagree(input="lits.F", impl="5 fields", model=ans)
        return c
    rows = [("eps=1e-10", hex2f(ans[0]), EPS, None), ("reg_covar", hex2f(ans[1]), REG, gm.reg_covar), ("tol", hex2f(ans[2]), TOL, gm.tol),
            ("max_iter", int(ans[3]), GMAXIT, gm.max_iter), ("n_init", int(ans[4]), 1, gm.n_init)]
    for name, model, sent, real in rows:
        c.case((name, repr(model)), True)
        if f2hex(float(model)) != f2hex(float(sent)) or (real is not None and (type(real) is bool or f2hex(float(real)) != f2hex(float(model)))):
            c.disagree(input=name, impl={"harness": repr(sent), "real default": repr(real)}, model=repr(model))
    c.case(("tiny", f2hex(TINY)), True)
    if TINY != float(np.finfo(float).tiny) or TINY != 2.0 ** -1022:
        c.disagree(input="np.finfo(float).tiny", impl=repr(float(np.finfo(float).tiny)), model=repr(TINY))
    c.sample({n: repr(m) for n, m, _, _ in rows})
    return c


def correspond(tier):
    drv = common.Driver()
    out = [_corr_lits(drv)]
    out += _corr_algebra(tier, drv)
    out += _corr_init(tier, drv)
    fit_suites = _corr_fit(tier, drv)          # [gmmfit-T, property-R]
    out += [fit_suites[0]]
    out += _corr_hier(tier, drv, fit_suites[1])
    out += _corr_replicate(tier)
    out += [fit_suites[1]]
    return out


# ------------------------------------------------------------------------------------------ property oracle on the real code
def oracle_gmm(X, w, k, ct, seed, n_init=1, max_iter=1000, tol=1e-3):
    """simplex / symmetric PSD / mean-in-bbox / iteration bounds on a real fit; returns a description of the violation or None"""
    from tempest.cluster import GaussianMixture
    X = np.asarray(X, dtype=float)
    gm = GaussianMixture(n_components=k, covariance_type=ct, random_state=seed, n_init=n_init, max_iter=max_iter, tol=tol)
    with warnings.catch_warnings(), np.errstate(all="ignore"):
        warnings.simplefilter("ignore")
        gm.fit(X, None if w is None else np.asarray(w, dtype=float))
    return check_gmm_invariants(gm, X, k, ct)


def oracle_hgmm(X, w, kw, queries):
    """labels total, cap, minimum size, cluster weights, predict / predict_proba range on both paths, on a real hierarchical fit"""
    X = np.asarray(X, dtype=float)
    n, d = X.shape
    hg, log = run_hgmm_recorded(X, w, **kw)
    exd, _ = examined_from_log(hg, log, d)
    Q = np.vstack([np.asarray(q, dtype=float) for q in queries])
    preds = real_predictions(hg, Q)
    return check_hgmm_invariants(hg, X, w, kw, exd, preds, len(Q))


def _queries(rs, X):
    return [query_points(rs, X).tolist()]


def oracle_replicate(X, cnt, k, ct, seed):
    st, detail = replicate_compare(np.asarray(X, dtype=float), cnt, k, ct, seed, tol=1e-5)
    if st == "differ":
        return (f"fit with integer sample weights differs from the fit on replicated points (k={k}, {ct}, random_state={seed}) "
                f"in {detail['field']}: weighted {str(detail['weighted'])[:120]} vs replicated {str(detail['replicated'])[:120]}")
    return None


def _run_oracle(f):
    kind = f["kind"]
    try:
        if kind == "gmm":
            return oracle_gmm(f["X"], f["w"], f["k"], f["ct"], f["seed"], f.get("n_init", 1), f.get("max_iter", 1000), f.get("tol", 1e-3))
        if kind == "hgmm":
            return oracle_hgmm(f["X"], f["w"], f["kw"], f["queries"])
        if kind == "refit":
            return oracle_refit([(a, b) for a, b in f["seq"]], f["kw"])
        if kind == "replicate":
            return oracle_replicate(f["X"], f["cnt"], f["k"], f["ct"], f["seed"])
    except Exception as e:  # noqa
        return f"raised {type(e).__name__}: {e}"
    return None


def _tolist(a):
    return None if a is None else np.asarray(a).tolist()


def search(tier, hints):
    found = []
    cands = []
    rng = common.rng_for("C15.search")
    # 0. histories of several accepted splits in varied orders (4-8 separated blobs on lines / grids / nested layouts): the
    #    statement's own oracle — every training point exactly one label in [0,K), sizes >= min_points, weights sum to 1, K <= cap
    for i in range(30 if tier == "quick" else 300):
        rs = _np_rng(rng)
        X, w, kw, _ = gen_multi_split_case(rs, i)
        cands.append(dict(kind="hgmm", X=X.tolist(), w=_tolist(w), kw=kw, queries=_queries(rs, X)))
    #    ... and the same object fitted several times under a small finite cap
    for i in range(20 if tier == "quick" else 200):
        rs = _np_rng(rng)
        seq, kw_r, _ = gen_refit_case(rs, i)
        cands.append(dict(kind="refit", seq=[[_tolist(a), _tolist(b)] for a, b in seq], kw=kw_r))
    # 1. inputs on which model and code disagreed
    for h in hints:
        if h.get("suite_kind") == "refit":
            cands.insert(0, dict(kind="refit", seq=[[_tolist(a), _tolist(b)] for a, b in h["seq"]], kw=h["kw"]))
            continue
        sk = h.get("suite_kind")
        rs = _np_rng(rng)
        if sk == "split":
            X = np.asarray(h["X"], dtype=float)
            cands.append(dict(kind="hgmm", X=_tolist(X), w=_tolist(h.get("w")), kw=h["kw"], queries=_queries(rs, X)))
        elif sk == "replicate":
            cands.append(dict(kind="replicate", X=_tolist(h["X"]), cnt=_tolist(h["cnt"]), k=h["k"], ct=h["ct"], seed=h["seed"]))
        elif sk == "gmm":
            cands.append(dict(kind="gmm", X=_tolist(h["X"]), w=_tolist(h.get("w")), k=int(h["K"]), ct=h["ct"], seed=int(h["seed"]),
                              n_init=int(h["n_init"]), max_iter=int(h["max_iter"]), tol=float(h["tol"])))
        elif sk in ("mstep", "estep", "gmmeval"):
            X = np.asarray(h["X"], dtype=float)
            if len(X) <= 60:
                s = h.get("s")
                for ct in ("full", "diag"):
                    cands.append(dict(kind="gmm", X=_tolist(X), w=_tolist(s), k=int(h["K"]), ct=ct, seed=1))
                cnt = np.random.RandomState(len(X)).randint(1, 4, len(X))
                cands.append(dict(kind="replicate", X=_tolist(X), cnt=cnt.tolist(), k=1, ct="full", seed=1))
    # 2. the statement's data families
    n_g = 120 if tier == "quick" else 2000
    for i in range(n_g):
        rs = _np_rng(rng)
        d = int(rs.randint(1, 7))
        n = int(rs.randint(2 * d, 60))
        X = gen_points(rs, d, n, POINT_FAMILIES[i % 5])
        w = gen_weights(rs, n, WEIGHT_FAMILIES[(i // 5) % 5])
        if i % 4 == 3:
            X = X * 10.0 ** rs.uniform(1, 5)
        cands.append(dict(kind="gmm", X=X.tolist(), w=None if rs.rand() < 0.2 else w.tolist(), k=int(rs.randint(1, 4)),
                          ct="full" if i % 2 == 0 else "diag", seed=int(rs.randint(0, 100)),
                          n_init=int(rs.randint(1, 3)), max_iter=[1000, 1000, 3, 1][int(rs.randint(0, 4))], tol=1e-3))
    n_h = 40 if tier == "quick" else 600
    for i in range(n_h):
        rs = _np_rng(rng)
        X, w, kw, _ = gen_split_case(rs, i)
        cands.append(dict(kind="hgmm", X=X.tolist(), w=_tolist(w), kw=kw, queries=_queries(rs, X)))
    n_r = 40 if tier == "quick" else 600
    for i in range(n_r):
        rs = _np_rng(rng)
        X, cnt, k, ct, seed, _ = gen_rep_case(rs, i)
        cands.append(dict(kind="replicate", X=X.tolist(), cnt=cnt.tolist(), k=k, ct=ct, seed=seed))
    kinds_seen = set()
    for f in cands:
        if f["kind"] in kinds_seen:
            continue
        msg = _run_oracle(f)
        if msg:
            found.append(dict(f, what=msg))
            kinds_seen.add(f["kind"])      # one witness per kind is enough
            if len(found) >= 3:
                break
    return found


def replay(obj):
    f = obj.get("failing_input", obj)
    if "witness" in f.get("replay", {}):
        from . import witnesses
        return witnesses.ALL[f["replay"]["witness"]]()
    msg = _run_oracle(f)
    return {"fails": msg is not None, "detail": msg}
