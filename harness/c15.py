"""C15 — mixture and hierarchical clustering invariants."""
import hashlib
import warnings

import numpy as np

from . import common
from .common import Corr, f2hex, hex2f, flist

ID = "C15"
LEAN_MODULES = ["TempestVerif.Props.C15"]
RULE = ("(i) mstep-T / estep-T: generated weighted data (d=1..6, n=2d..200; separated / overlapping / rank-deficient / duplicated / "
        "far-from-origin point sets; sample weights uniform, log-normal skewed (sigma 3), two-point dominated, with exact zeros, small integers; "
        "K=1..3 random non-negative responsibilities incl. one-hot rows and an all-zero column) fed to the real GaussianMixture._m_step "
        "('full' and 'diag') and to the Float model, compared at 1e-9*(1+scale); the real _e_step is compared with the model's normalisation of the "
        "un-normalised matrix weights[k]*pdf recomputed with the same scipy call. Non-trivial = K>=2 or non-constant sample weights. "
        "init-T: real _initialize_parameters (k-means++ centres observed through np.searchsorted, log soft assignment -0.5 dist^2 recomputed "
        "with the same numpy expression) vs the model's max-shifted initNormalise+mstep; far-apart clusters (where exp(-0.5 dist^2) alone would underflow "
        "to an all-zero row) are included. Non-trivial = K>=2 or such a far row. "
        "(ii) split-X: real HierarchicalGaussianMixture.fit (2-4 blobs incl. an undersized one, duplicates, skewed weights; max_iterations in {0,1,2,1000}, "
        "min_points in {None, small, large}, threshold_modifier in {0.1,1,10}, normalize on/off, 'full'/'diag') with tempest.cluster.GaussianMixture "
        "replaced by a recording subclass; the model replays the recorded scores/child labels and must reproduce the examined-cluster sequence, labels_, "
        "n_clusters_ and the final cluster order exactly. Non-trivial = at least one cluster examined. "
        "(iii) replicate: real fit on (X, integer c) vs fit on np.repeat(X, c) under the same random_state (k=1; k=2 when both runs drew the same initial "
        "centres and stopped after the same number of EM iterations), tolerance 1e-6 relative. Non-trivial = some c_i >= 2.")
MODELLED = ["whole-fit statements are conditional: C15_mstep_weights_simplex / C15_mean_in_bbox need finite non-negative responsibilities with positive total; "
            "the initial soft assignment delivers them (C15_init_rows_simplex_full), that every later E-step does rests on scipy's pdf",
            "scipy.stats.multivariate_normal (pdf/logpdf) is not modelled: the E-step model receives the un-normalised matrix weights[k]*pdf(x_i) the real scipy call produced",
            "EM convergence, BIC values and the child mixture's predict are supplied to the split-loop model as recorded numbers (the model is the control flow on index lists)",
            "BLAS dot products / numpy reductions differ from the model's left-to-right sums by rounding only (tolerance 1e-9*(1+scale))",
            "np.argmax/np.argmin: first extremum, NaN-free rows",
            "k-means++ initialisation (searchsorted on cumulative sums) is not modelled; the replication check compares the real code with itself and skips cases where the two runs drew different centres"]
ASSUMPTIONS = ["covariance_type is 'full' or 'diag' ('tied'/'spherical' are outside the statement)",
               "sample weights are non-negative with a positive sum; min_points >= 2 when given",
               "the child mixture's predict returns one label in {0,1} per member (C15_predict_range with K=2)"]

TINY = float(np.finfo(float).tiny)
EPS = 1e-10


# ------------------------------------------------------------------------------------------ generators
def _np_rng(rng):
    return np.random.RandomState(rng.getrandbits(32))


def gen_points(rs, d, n, family):
    if family == "separated":
        kb = rs.randint(2, 5)
        cen = rs.normal(0, 12, (kb, d))
        a = rs.randint(0, kb, n)
        X = cen[a] + rs.normal(0, rs.uniform(0.3, 1.0), (n, d))
    elif family == "overlap":
        kb = rs.randint(2, 4)
        cen = rs.normal(0, 1.5, (kb, d))
        a = rs.randint(0, kb, n)
        X = cen[a] + rs.normal(0, 1.0, (n, d))
    elif family == "degenerate":
        # rank-one point set (a line through a random point), or one constant coordinate
        if d > 1 and rs.rand() < 0.5:
            X = rs.normal(0, 2, (n, 1)) * rs.normal(0, 1, (1, d)) + rs.normal(0, 3, (1, d))
        else:
            X = rs.normal(0, 2, (n, d))
            X[:, rs.randint(0, d)] = rs.normal(0, 5)
    elif family == "dups":
        m = max(2, n // 4)
        base = rs.normal(0, 4, (m, d))
        X = base[rs.randint(0, m, n)]
    else:  # "offset": bounding box far from the origin
        X = rs.normal(0, 1, (n, d)) * rs.uniform(0.01, 2) + rs.choice([-1.0, 1.0], d) * 10 ** rs.uniform(0, 4)
    return np.ascontiguousarray(X, dtype=float)


POINT_FAMILIES = ["separated", "overlap", "degenerate", "dups", "offset"]
WEIGHT_FAMILIES = ["ones", "skewed", "two", "zeros", "int"]


def gen_weights(rs, n, family):
    if family == "ones":
        w = np.ones(n)
    elif family == "skewed":
        w = np.exp(rs.normal(0, 3, n))
    elif family == "two":
        w = np.full(n, 1e-6)
        w[rs.choice(n, size=min(2, n), replace=False)] = 1.0
    elif family == "zeros":
        w = rs.uniform(0.1, 1, n)
        w[rs.rand(n) < 0.3] = 0.0
        if w.sum() == 0:
            w[0] = 1.0
    else:
        w = rs.randint(0, 5, n).astype(float)
        if w.sum() == 0:
            w[0] = 1.0
    return w


def gen_resp(rs, n, K):
    kind = rs.choice(["dirichlet", "uniform", "onehot", "zerocol"])
    if kind == "dirichlet":
        R = rs.dirichlet(np.full(K, 0.5), n)
        R[R < 1e-6] = 0.0
    elif kind == "uniform":
        R = rs.uniform(0, 1, (n, K))
    elif kind == "onehot":
        R = np.zeros((n, K))
        R[np.arange(n), rs.randint(0, K, n)] = 1.0
    else:
        R = rs.uniform(0.01, 1, (n, K))
        if K >= 2:
            R[:, rs.randint(0, K)] = 0.0
    return kind, np.ascontiguousarray(R)


def _mat(M, enc=f2hex):
    M = np.asarray(M)
    if M.size == 0:
        return "-"
    return ";".join(flist(row, enc) for row in M)


def _p_list(s):
    return [] if s == "-" else [hex2f(t) for t in s.split(",")]


def _p_mat(s):
    return [] if s == "-" else [_p_list(r) for r in s.split(";")]


def _p_stack(s):
    return [] if s == "-" else [_p_mat(m) for m in s.split("|")]


def _sha(*arrs):
    h = hashlib.sha1()
    for a in arrs:
        h.update(np.ascontiguousarray(a).tobytes())
    return h.hexdigest()[:16]


def _close(a, b, tol):
    a = np.asarray(a, dtype=float)
    b = np.asarray(b, dtype=float)
    if a.shape != b.shape:
        return False
    both_nan = np.isnan(a) & np.isnan(b)
    with np.errstate(invalid="ignore"):
        ok = (np.abs(a - b) <= tol) | both_nan | (a == b)
    return bool(np.all(ok))


# ------------------------------------------------------------------------------------------ (i) algebra
def _real_mstep(X, R, s, K, ct):
    from tempest.cluster import GaussianMixture
    gm = GaussianMixture(n_components=K, covariance_type=ct)
    with warnings.catch_warnings():
        warnings.simplefilter("ignore")
        w, m, c = gm._m_step(X, R.copy(), s)
    return gm, w, m, c


def _unnormalised(gm, X, w, m, c):
    """weights[k] * pdf_k(x_i), recomputed exactly as `_e_step` does (same scipy call, same fallback)"""
    from scipy.stats import multivariate_normal
    P = np.zeros((X.shape[0], gm.n_components))
    for k in range(gm.n_components):
        cov = gm._get_covariance(c, k)
        try:
            P[:, k] = w[k] * multivariate_normal.pdf(X, mean=m[k], cov=cov + np.eye(cov.shape[0]) * gm.reg_covar)
        except (np.linalg.LinAlgError, ValueError):
            P[:, k] = w[k] * multivariate_normal.pdf(X, mean=m[k], cov=np.eye(len(m[k])) * gm.reg_covar)
    return P


def _corr_algebra(tier, drv):
    n_cases = 300 if tier == "quick" else 12000
    rng = common.rng_for("C15.mstep")
    cm = Corr("mstep-T", "toleranced Float (model at Float vs real _m_step, 1e-9*(1+scale))")
    ce = Corr("estep-T", "toleranced Float (model normalisation vs real _e_step, 1e-9)")
    lines, cases = [], []
    for i in range(n_cases):
        rs = _np_rng(rng)
        d = rs.randint(1, 7)
        n = rs.randint(2 * d, 201) if rs.rand() < 0.3 else rs.randint(2 * d, max(2 * d + 1, 41))
        K = rs.randint(1, 4)
        pf = POINT_FAMILIES[i % len(POINT_FAMILIES)]
        wf = WEIGHT_FAMILIES[(i // len(POINT_FAMILIES)) % len(WEIGHT_FAMILIES)]
        X = gen_points(rs, d, n, pf)
        s = gen_weights(rs, n, wf)
        if rs.rand() < 0.5:
            s = s / s.sum()          # what `fit` hands to `_m_step`
        rk, R = gen_resp(rs, n, K)
        if float((R * s[:, None]).sum()) <= 0.0:
            R[:, 0] = 1.0
        real = {}
        for ct in ("full", "diag"):
            real[ct] = _real_mstep(X, R, s, K, ct)
        lines.append(f"mstep.F d={d} k={K} x={_mat(X)} r={_mat(R)} s={flist(s, f2hex)} tiny={f2hex(TINY)} eps={f2hex(EPS)}")
        nontriv = K >= 2 or bool(np.ptp(s) > 0)
        cases.append(("m", dict(d=d, n=n, K=K, pf=pf, wf=wf, rk=rk, X=X, R=R, s=s, real=real, nontriv=nontriv)))
        # e-step on the parameters the real M-step produced
        ct = "full" if i % 2 == 0 else "diag"
        gm, w, m, c = real[ct]
        with warnings.catch_warnings():
            warnings.simplefilter("ignore")
            try:
                P = _unnormalised(gm, X, w, m, c)
                resp = gm._e_step(X, w, m, c)
            except Exception:  # scipy refused the parameters: nothing to compare
                ce.count("scipy_raised")
                continue
        if not np.all(np.isfinite(P)):
            ce.count("nonfinite_density")
            continue
        lines.append(f"estep.F p={_mat(P)} eps={f2hex(EPS)}")
        cases.append(("e", dict(d=d, n=n, K=K, ct=ct, pf=pf, wf=wf, X=X, P=P, resp=resp, w=w, m=m, c=c,
                                nontriv=K >= 2 or bool(np.ptp(P) > 0))))
    res = drv.batch(lines)
    for (kind, cs), line, ans in zip(cases, lines, res):
        if kind == "m":
            X, R, s, K, d = cs["X"], cs["R"], cs["s"], cs["K"], cs["d"]
            cm.case((cs["pf"], cs["wf"], cs["rk"], d, cs["n"], K, _sha(X, R, s)), cs["nontriv"])
            cm.count("points:" + cs["pf"])
            cm.count("weights:" + cs["wf"])
            cm.count("resp:" + cs["rk"])
            cm.count(f"K={K}")
            toks = ans.split(" ")
            if len(toks) != 4:
                cm.disagree(input=line[:300], model=ans[:200], what="model answer malformed", suite_kind="mstep",
                            X=X, R=R, s=s, K=K)
                continue
            mw, mm, mcf, mcd = _p_list(toks[0]), _p_mat(toks[1]), _p_stack(toks[2]), _p_mat(toks[3])
            xs = float(np.max(np.abs(X))) if X.size else 0.0
            spread = float(np.max(np.ptp(X, axis=0))) if X.size else 0.0
            bad = []
            for ct in ("full", "diag"):
                gm, w, m, c = cs["real"][ct]
                if not _close(w, mw, 1e-9):
                    bad.append((ct, "weights", w.tolist(), mw))
                if not _close(m, mm, 1e-9 * (1 + xs)):
                    bad.append((ct, "means", m.tolist(), mm))
                mc = mcf if ct == "full" else mcd
                # scale of a covariance entry: squared distance of the data from the component mean
                msc = max(spread, float(np.max(np.abs(X - m[:, None, :])))) if X.size else 0.0
                if not _close(c, mc, 1e-9 * (1 + msc * msc)):
                    bad.append((ct, "covariances", np.asarray(c).tolist(), mc))
            if bad:
                ct, what, iv, mv = bad[0]
                cm.disagree(what=f"{what} ({ct}) differ", impl=str(iv)[:300], model=str(mv)[:300], suite_kind="mstep",
                            X=X, R=R, s=s, K=K)
            cm.sample({"op": line[:200] + "...", "impl_weights": cs["real"]["full"][1].tolist(), "model_weights": mw})
        else:
            P, resp, K = cs["P"], cs["resp"], cs["K"]
            ce.case((cs["pf"], cs["wf"], cs["ct"], cs["d"], cs["n"], K, _sha(P)), cs["nontriv"])
            ce.count("cov:" + cs["ct"])
            ce.count(f"K={K}")
            mr = _p_mat(ans)
            if not _close(resp, mr, 1e-9):
                ce.disagree(what="normalised responsibilities differ", impl=str(resp[:3].tolist())[:300], model=str(mr[:3])[:300],
                            suite_kind="estep", X=cs["X"], w=cs["w"], m=cs["m"], c=cs["c"], K=K, ct=cs["ct"])
            else:
                exact = sum(1 for a, b in zip(np.asarray(resp).ravel(), np.asarray(mr).ravel()) if f2hex(a) == f2hex(b))
                ce.count("entries_bit_equal", exact)
                ce.count("entries", int(np.asarray(resp).size))
            if float(P.sum(axis=1).min()) < 1e-9:
                ce.count("row_with_density_below_eps")
            ce.sample({"op": line[:200] + "...", "impl_row0": np.asarray(resp)[0].tolist(), "model_row0": mr[0] if mr else None})
    return [cm, ce]


def real_init(X, sw, K, ct, seed):
    """real `_initialize_parameters` under a private RandomState; also the indices of the drawn centres"""
    from tempest.cluster import GaussianMixture
    picked = []
    real_ss = np.searchsorted

    def spy(a, v, *args, **kwargs):
        r = real_ss(a, v, *args, **kwargs)
        picked.append(int(r))
        return r

    gm = GaussianMixture(n_components=K, covariance_type=ct)
    gm._rng = np.random.RandomState(seed)
    with common.patched(np, "searchsorted", spy), warnings.catch_warnings():
        warnings.simplefilter("ignore")
        w, m, c = gm._initialize_parameters(X, sw)
    return picked, w, m, c


def _corr_init(tier, drv):
    n_cases = 150 if tier == "quick" else 6000
    rng = common.rng_for("C15.init")
    c = Corr("init-T", "toleranced Float (model max-shifted initNormalise+mstep vs real _initialize_parameters)")
    lines, cases = [], []
    for i in range(n_cases):
        rs = _np_rng(rng)
        d = int(rs.randint(1, 7))
        n = int(rs.randint(2 * d, 41))
        K = int(rs.randint(1, 4))
        pf = POINT_FAMILIES[i % len(POINT_FAMILIES)]
        wf = WEIGHT_FAMILIES[(i // len(POINT_FAMILIES)) % len(WEIGHT_FAMILIES)]
        X = gen_points(rs, d, n, pf)
        s = gen_weights(rs, n, wf)
        s = s / s.sum()
        ct = "full" if i % 2 == 0 else "diag"
        seed = int(rs.randint(0, 10 ** 6))
        try:
            picked, w, m, cv = real_init(X, s, K, ct, seed)
        except Exception as ex:
            c.count("real_raised:" + type(ex).__name__)
            continue
        if len(picked) != K or any(not (0 <= j < n) for j in picked):
            c.count("centres_not_observed")
            continue
        U = np.zeros((n, K))          # log_resp before the shift
        for k in range(K):
            U[:, k] = -0.5 * np.sum((X - X[picked[k]]) ** 2, axis=1)
        lines.append(f"init.F d={d} k={K} x={_mat(X)} u={_mat(U)} s={flist(s, f2hex)} tiny={f2hex(TINY)} eps={f2hex(EPS)}")
        cases.append(dict(X=X, s=s, K=K, d=d, n=n, ct=ct, pf=pf, wf=wf, seed=seed, U=U, w=w, m=m, cv=cv))
    res = drv.batch(lines)
    for cs, line, ans in zip(cases, lines, res):
        X, K, ct = cs["X"], cs["K"], cs["ct"]
        under = int(np.sum(np.exp(cs["U"]).sum(axis=1) == 0.0))     # rows where the unshifted exp would be all zero
        c.case((cs["pf"], cs["wf"], ct, cs["d"], cs["n"], K, cs["seed"], _sha(X, cs["s"])), K >= 2 or under > 0)
        c.count("points:" + cs["pf"])
        c.count(f"K={K}")
        if under:
            c.count("cases_with_far_row")
        if not np.all(np.isfinite(cs["w"])):
            c.count("real_result_not_finite")
        toks = ans.split(" ")
        if len(toks) != 4:
            c.disagree(what="model answer malformed", model=ans[:200], suite_kind="mstep", X=X, s=cs["s"], K=K)
            continue
        mw, mm, mcf, mcd = _p_list(toks[0]), _p_mat(toks[1]), _p_stack(toks[2]), _p_mat(toks[3])
        xs = float(np.max(np.abs(X)))
        msc = float(np.max(np.ptp(X, axis=0)))
        if np.all(np.isfinite(cs["m"])):
            msc = max(msc, float(np.max(np.abs(X - cs["m"][:, None, :]))))
        mc = mcf if ct == "full" else mcd
        bad = None
        if not _close(cs["w"], mw, 1e-9):
            bad = ("weights", cs["w"].tolist(), mw)
        elif not _close(cs["m"], mm, 1e-9 * (1 + xs)):
            bad = ("means", cs["m"].tolist(), mm)
        elif not _close(cs["cv"], mc, 1e-9 * (1 + msc * msc)):
            bad = ("covariances", np.asarray(cs["cv"]).tolist(), mc)
        if bad:
            c.disagree(what=f"initial {bad[0]} ({ct}) differ", impl=str(bad[1])[:300], model=str(bad[2])[:300],
                       suite_kind="mstep", X=X, s=cs["s"], K=K)
        c.sample({"op": line[:160] + "...", "far_rows": under, "impl_weights": cs["w"].tolist(), "model_weights": mw})
    return [c]


# ------------------------------------------------------------------------------------------ (ii) split loop
class Tagged(np.ndarray):
    """ndarray that remembers the index list of its last fancy-indexing (`X[indices]`)"""

    def __array_finalize__(self, obj):
        self._c15_idx = getattr(obj, "_c15_idx", None)

    def __getitem__(self, item):
        out = super().__getitem__(item)
        if isinstance(item, list) and isinstance(out, Tagged):
            out._c15_idx = [int(i) for i in item]
        return out


def run_hgmm_recorded(X, w, **kw):
    """real HierarchicalGaussianMixture.fit with a recording GaussianMixture; returns (hg, log)"""
    from tempest import cluster
    Real = cluster.GaussianMixture
    log = []

    class RecGM(Real):
        def fit(self, data, sample_weight=None):
            ev = {"k": self.n_components, "idx": getattr(data, "_c15_idx", None), "n": int(len(data)),
                  "w": None if sample_weight is None else np.array(sample_weight, dtype=float), "bic": None,
                  "labels": None, "predict_called": False}
            self._c15_ev = ev
            log.append(ev)
            return Real.fit(self, np.asarray(data), sample_weight)

        def bic(self, data):
            b = Real.bic(self, np.asarray(data))
            self._c15_ev["bic"] = b
            if self.n_components == 2:
                # what `child_gmm.predict(data)` returns (deterministic; the real loop calls it only if the score test passes)
                self._c15_ev["labels"] = [int(t) for t in Real.predict(self, np.asarray(data))]
            return b

        def predict(self, data):
            self._c15_ev["predict_called"] = True
            return Real.predict(self, np.asarray(data))

    hg = cluster.HierarchicalGaussianMixture(**kw)
    Xt = np.array(X, dtype=float).view(Tagged)
    with common.patched(cluster, "GaussianMixture", RecGM), warnings.catch_warnings():
        warnings.simplefilter("ignore")
        hg.fit(Xt, sample_weight=None if w is None else np.array(w, dtype=float))
    return hg, log


def examined_from_log(hg, log, d):
    """pairs (parent fit, child fit) = one examined cluster each; the rest are the final per-cluster fits"""
    ex, final = [], []
    i = 0
    while i < len(log):
        e = log[i]
        if e["k"] == 1 and i + 1 < len(log) and log[i + 1]["k"] == 2 and e["bic"] is not None:
            ch = log[i + 1]
            thr = hg.threshold_modifier * hg._compute_bic_tolerance(d, ch["w"])
            ex.append({"idx": ch["idx"], "parent_bic": e["bic"], "child_bic": ch["bic"],
                       "improvement": e["bic"] - ch["bic"], "threshold": thr, "labels": ch["labels"],
                       "predict_called": ch["predict_called"], "same_idx": e["idx"] == ch["idx"]})
            i += 2
        else:
            final.append(e)
            i += 1
    return ex, final


def gen_split_case(rs, i):
    d = int(rs.randint(1, 4))
    shape = ["balanced", "undersized", "overlap", "dups"][i % 4]
    kb = int(rs.randint(2, 5))
    if shape == "undersized":
        sizes = [int(rs.randint(12, 40)) for _ in range(kb - 1)] + [int(rs.randint(1, 2 * d + 1))]
    else:
        sizes = [int(rs.randint(max(2 * d, 6), 45)) for _ in range(kb)]
    sep = 2.0 if shape == "overlap" else 15.0
    cen = rs.normal(0, sep, (kb, d))
    X = np.vstack([cen[j] + rs.normal(0, 1.0, (sizes[j], d)) for j in range(kb)])
    if shape == "dups":
        m = len(X)
        src = rs.randint(0, m, m // 3)
        dst = rs.randint(0, m, m // 3)
        X[dst] = X[src]
    X = X[rs.permutation(len(X))]
    n = len(X)
    wf = ["ones", "skewed", "ones", "int", "skewed", "ones", "two"][(i // 4) % 7]
    w = None if (wf == "ones" and rs.rand() < 0.5) else gen_weights(rs, n, wf)
    maxit = [0, 1, 2][int(rs.randint(0, 3))] if rs.rand() < 0.45 else 1000
    mp_kind = ["none", "small", "none", "small", "large"][int(rs.randint(0, 5))]
    if mp_kind == "none":
        mp = None
    elif mp_kind == "small":
        mp = int(rs.randint(2, 6))
    else:
        srt = sorted(sizes)
        mp = int(rs.randint(srt[0] + 1, max(srt[0] + 2, srt[-1] + 5)))
    kw = dict(max_iterations=maxit, min_points=mp, threshold_modifier=[0.1, 1.0, 1.0, 0.1, 10.0][int(rs.randint(0, 5))],
              normalize=bool(rs.rand() < 0.5), covariance_type="full" if rs.rand() < 0.7 else "diag")
    return X, w, kw, dict(shape=shape, sizes=sizes, wf=wf, mp_kind=mp_kind)


def split_line(n, minpts, maxit, ex):
    seen = {}
    conflict = None
    for e in ex:
        key = tuple(e["idx"])
        val = (f2hex(e["improvement"]), f2hex(e["threshold"]), "".join(str(t) for t in e["labels"]))
        if key in seen and seen[key] != val:
            conflict = key
        seen[key] = val
    script = ";".join(f"{'.'.join(map(str, k))}:{v[0]}:{v[1]}:{v[2]}" for k, v in seen.items()) or "-"
    return f"hgmm.F n={n} minpts={minpts} maxit={maxit} script={script}", conflict


def _corr_split(tier, drv):
    n_cases = 300 if tier == "quick" else 12000
    rng = common.rng_for("C15.split")
    c = Corr("split-X", "exact replay (recorded float scores compared with the same IEEE `>`; index lists exact)")
    lines, cases = [], []
    for i in range(n_cases):
        rs = _np_rng(rng)
        X, w, kw, meta = gen_split_case(rs, i)
        n, d = X.shape
        try:
            hg, log = run_hgmm_recorded(X, w, **kw)
        except Exception as ex:  # the real fit refused this data set: not a statement about the loop
            c.count("real_raised:" + type(ex).__name__)
            continue
        exd, final = examined_from_log(hg, log, d)
        if any(e["idx"] is None for e in exd) or any(e["idx"] is None for e in final):
            c.count("index_tag_lost")      # the implementation no longer slices with `X[indices]`: nothing to replay
            continue
        minpts = kw["min_points"] if kw["min_points"] is not None else 2 * d
        line, conflict = split_line(n, minpts, kw["max_iterations"], exd)
        lines.append(line)
        cases.append(dict(X=X, w=w, kw=kw, meta=meta, hg=hg, ex=exd, final=final, conflict=conflict, minpts=minpts))
    res = drv.batch(lines)
    for cs, line, ans in zip(cases, lines, res):
        hg, exd, kw, X = cs["hg"], cs["ex"], cs["kw"], cs["X"]
        n, d = X.shape
        c.case((cs["meta"]["shape"], cs["meta"]["wf"], str(kw), _sha(X)), len(exd) >= 1)
        c.count("shape:" + cs["meta"]["shape"])
        c.count("min_points:" + cs["meta"]["mp_kind"])
        c.count(f"max_iterations={kw['max_iterations']}")
        c.count(f"K={hg.n_clusters_}")
        c.count("examined", len(exd))
        hint = dict(suite_kind="split", X=X, w=cs["w"], kw=kw)
        if cs["conflict"] is not None:
            c.disagree(what="the same member list was scored differently in two passes", members=list(cs["conflict"]), **hint)
            continue
        toks = ans.split(" ")
        if len(toks) != 4:
            c.disagree(what="model could not replay the log", model=ans[:200], input=line[:200],
                       real_examined=[e["idx"] for e in exd][:6], **hint)
            continue
        mK = int(toks[0])
        mclusters = [] if toks[1] == "-" else [[int(t) for t in r.split(",")] for r in toks[1].split(";")]
        mlabels = [] if toks[2] == "-" else [int(t) for t in toks[2].split(",")]
        mtrace = [] if toks[3] == "-" else [[int(t) for t in r.split(":")[2].split(".")] for r in toks[3].split(";")]
        real_labels = [int(t) for t in hg.labels_]
        real_final = [e["idx"] for e in cs["final"]]
        model_final = [cl for cl in mclusters if len(cl) >= d]
        problems = []
        if mtrace != [e["idx"] for e in exd]:
            problems.append("sequence of examined clusters")
        if mK != int(hg.n_clusters_):
            problems.append(f"n_clusters_ real {hg.n_clusters_} model {mK}")
        if mlabels != real_labels:
            problems.append("labels_")
        if model_final != real_final:
            problems.append("final cluster order")
        if any(not e["same_idx"] for e in exd):
            problems.append("parent and child mixtures were fitted on different members")
        # the real loop calls predict exactly when the score test passes and beats the best so far: replayed inside the model;
        # here only the weaker, local consequence
        for e in exd:
            if e["predict_called"] and not (e["improvement"] > e["threshold"]):
                problems.append("predict called although the score did not pass the threshold")
        if problems:
            c.disagree(what="; ".join(problems), impl=dict(K=int(hg.n_clusters_), labels=real_labels[:40]),
                       model=dict(K=mK, labels=mlabels[:40]), **hint)
        if any(e["predict_called"] for e in exd):
            c.count("cases_with_score_pass")
        if any(e["predict_called"] and min(e["labels"].count(0), e["labels"].count(1)) < cs["minpts"] for e in exd):
            c.count("cases_with_split_refused_for_size")
        c.sample({"params": kw, "n": n, "d": d, "examined": len(exd), "K": int(hg.n_clusters_), "model": ans[:160]})
    return [c]


# ------------------------------------------------------------------------------------------ (iii) replication
def fit_spy(X, sw, k, ct, seed):
    """real GaussianMixture.fit; also reports the data points drawn as initial centres"""
    from tempest.cluster import GaussianMixture
    picked = []
    real_ss = np.searchsorted

    def spy(a, v, *args, **kwargs):
        r = real_ss(a, v, *args, **kwargs)
        picked.append(int(r))
        return r

    class SpyGM(GaussianMixture):
        def _initialize_parameters(self, Xi, swi):
            with common.patched(np, "searchsorted", spy):
                return GaussianMixture._initialize_parameters(self, Xi, swi)

    gm = SpyGM(n_components=k, covariance_type=ct, random_state=seed)
    with warnings.catch_warnings():
        warnings.simplefilter("ignore")
        gm.fit(X, sw)
    centres = [X[i].tolist() if 0 <= i < len(X) else None for i in picked]
    return gm, centres


def replicate_compare(X, cnt, k, ct, seed, tol=1e-6):
    """returns (status, detail): status in ok | skipped:<why> | differ"""
    cnt = np.asarray(cnt, dtype=int)
    Xr = np.repeat(X, cnt, axis=0)
    g1, c1 = fit_spy(X, cnt.astype(float), k, ct, seed)
    g2, c2 = fit_spy(Xr, None, k, ct, seed)
    if c1 != c2:
        return "skipped:different_initial_centres", None
    if g1.n_iter_ != g2.n_iter_:
        return "skipped:different_iteration_count", None
    if g1.n_iter_ > 60:
        return "skipped:slow_convergence", None
    xs = float(np.max(np.abs(X)))
    sp = float(np.max(np.ptp(X, axis=0)))
    out = []
    for name, a, b, sc in (("weights_", g1.weights_, g2.weights_, 1.0), ("means_", g1.means_, g2.means_, 1 + xs),
                           ("covariances_", g1.covariances_, g2.covariances_, 1e-6 + sp * sp)):
        if not _close(a, b, tol * sc):
            out.append({"field": name, "weighted": np.asarray(a).tolist(), "replicated": np.asarray(b).tolist()})
    if out:
        return "differ", out[0]
    return "ok", None


def gen_rep_case(rs, i):
    d = int(rs.randint(1, 5))
    n = int(rs.randint(2 * d + 2, 40))
    pf = ["separated", "overlap", "offset"][i % 3]
    X = gen_points(rs, d, n, pf)
    cnt = rs.randint(1, 5, n)
    if rs.rand() < 0.3:
        cnt[rs.rand(n) < 0.2] = 0
        if cnt.sum() < 2 * d + 2:
            cnt[:] = 1
    k = 1 if i % 2 == 0 else 2
    ct = "full" if rs.rand() < 0.6 else "diag"
    return X, cnt, k, ct, int(rs.randint(0, 1000)), pf


def _corr_replicate(tier):
    n_cases = 120 if tier == "quick" else 4000
    rng = common.rng_for("C15.replicate")
    c = Corr("replicate-T", "real vs real (theorem C15_em_factors_through_wsum predicts equality; tolerance 1e-6 relative)")
    for i in range(n_cases):
        rs = _np_rng(rng)
        X, cnt, k, ct, seed, pf = gen_rep_case(rs, i)
        try:
            st, detail = replicate_compare(X, cnt, k, ct, seed)
        except Exception as ex:
            c.count("real_raised:" + type(ex).__name__)
            continue
        c.case((pf, k, ct, seed, _sha(X, cnt)), bool(np.max(cnt) >= 2))
        c.count(f"k={k}:{st}")
        if st == "differ":
            c.disagree(what="integer-weighted fit differs from the fit on replicated points", detail=str(detail)[:300],
                       suite_kind="replicate", X=X, cnt=cnt, k=k, ct=ct, seed=seed)
        c.sample({"n": len(X), "d": X.shape[1], "k": k, "cov": ct, "counts": cnt.tolist()[:12], "status": st})
    return [c]


def correspond(tier):
    drv = common.Driver()
    out = []
    out += _corr_algebra(tier, drv)
    out += _corr_init(tier, drv)
    out += _corr_split(tier, drv)
    out += _corr_replicate(tier)
    return out


# ------------------------------------------------------------------------------------------ property oracle on the real code
def oracle_gmm(X, w, k, ct, seed):
    """simplex / symmetric PSD / mean-in-bbox on a real fit; returns a description of the violation or None"""
    from tempest.cluster import GaussianMixture
    X = np.asarray(X, dtype=float)
    gm = GaussianMixture(n_components=k, covariance_type=ct, random_state=seed)
    with warnings.catch_warnings():
        warnings.simplefilter("ignore")
        gm.fit(X, None if w is None else np.asarray(w, dtype=float))
    pi = np.asarray(gm.weights_, dtype=float)
    if pi.shape != (k,) or not np.all(np.isfinite(pi)):
        return f"weights_ not finite / wrong shape: {pi.tolist()}"
    if np.any(pi < 0):
        return f"negative component weight: {pi.tolist()}"
    if abs(float(np.sum(pi)) - 1.0) > 1e-12:
        return f"component weights sum to {float(np.sum(pi))!r} (|sum-1| = {abs(float(np.sum(pi)) - 1.0):.3e} > 1e-12)"
    lo, hi = X.min(axis=0), X.max(axis=0)
    sp = float(np.max(hi - lo))
    for j in range(k):
        C = np.asarray(gm.covariances_[j], dtype=float)
        if not np.all(np.isfinite(C)):
            return f"covariance of component {j} not finite"
        scale = max(float(np.max(np.abs(C))), 1e-300)
        if ct == "full":
            if float(np.max(np.abs(C - C.T))) > 1e-12 * scale:
                return f"covariance of component {j} not symmetric: max |C - C^T| = {float(np.max(np.abs(C - C.T))):.3e}"
            ev = float(np.min(np.linalg.eigvalsh((C + C.T) / 2)))
            if ev < -1e-12 * scale:
                return f"covariance of component {j} has eigenvalue {ev!r} < 0 (scale {scale:.3e})"
        else:
            if np.any(C < 0):
                return f"diagonal covariance of component {j} has a negative entry {float(C.min())!r}"
        if pi[j] >= 1e-3:
            m = np.asarray(gm.means_[j], dtype=float)
            slack = 1e-9 * (1.0 + np.maximum(np.abs(lo), np.abs(hi)))
            if np.any(m < lo - slack) or np.any(m > hi + slack):
                return (f"mean of component {j} (weight {pi[j]:.4f}) outside the bounding box: mean={m.tolist()} "
                        f"lo={lo.tolist()} hi={hi.tolist()}")
    return None


def oracle_hgmm(X, w, kw, queries):
    """labels total, cap, minimum size (through the recorder), predict range on a real hierarchical fit"""
    X = np.asarray(X, dtype=float)
    n, d = X.shape
    hg, log = run_hgmm_recorded(X, w, **kw)
    K = int(hg.n_clusters_)
    lab = np.asarray(hg.labels_)
    if lab.shape != (n,) or lab.dtype.kind not in "iu":
        return f"labels_ has shape {lab.shape} dtype {lab.dtype}"
    if K < 1 or np.any(lab < 0) or np.any(lab >= K):
        return f"training label outside [0,{K}): min {int(lab.min())} max {int(lab.max())}"
    if K > kw["max_iterations"] + 1:
        return f"n_clusters_ = {K} exceeds max_iterations + 1 = {kw['max_iterations'] + 1}"
    minpts = kw["min_points"] if kw["min_points"] is not None else 2 * d
    exd, _ = examined_from_log(hg, log, d)
    sizes = np.bincount(lab, minlength=K)
    if K > 1 and int(sizes.min()) < minpts:
        return f"an accepted split left a cluster of {int(sizes.min())} < min_points = {minpts} members (sizes {sizes.tolist()})"
    with warnings.catch_warnings():
        warnings.simplefilter("ignore")
        for Q in queries:
            p = np.asarray(hg.predict(np.asarray(Q, dtype=float)))
            if p.shape != (len(Q),) or p.dtype.kind not in "iu" or np.any(p < 0) or np.any(p >= K):
                return f"predict returned labels outside [0,{K}) for query points: {p.tolist()[:10]}"
    return None


def _queries(rs, X):
    d = X.shape[1]
    return [X[: min(5, len(X))].tolist(), rs.normal(0, 30, (6, d)).tolist(),
            (X.mean(axis=0) + rs.choice([-1.0, 1.0], (4, d)) * 1e6).tolist(), np.full((2, d), 1e150).tolist()]


def oracle_replicate(X, cnt, k, ct, seed):
    st, detail = replicate_compare(np.asarray(X, dtype=float), cnt, k, ct, seed, tol=1e-5)
    if st == "differ":
        return (f"fit with integer sample weights differs from the fit on replicated points (k={k}, {ct}, random_state={seed}) "
                f"in {detail['field']}: weighted {str(detail['weighted'])[:120]} vs replicated {str(detail['replicated'])[:120]}")
    return None


def _run_oracle(f):
    kind = f["kind"]
    try:
        if kind == "gmm":
            return oracle_gmm(f["X"], f["w"], f["k"], f["ct"], f["seed"])
        if kind == "hgmm":
            return oracle_hgmm(f["X"], f["w"], f["kw"], f["queries"])
        if kind == "replicate":
            return oracle_replicate(f["X"], f["cnt"], f["k"], f["ct"], f["seed"])
    except Exception as e:  # noqa
        return f"raised {type(e).__name__}: {e}"
    return None


def _tolist(a):
    return None if a is None else np.asarray(a).tolist()


def search(tier, hints):
    found = []
    cands = []
    rng = common.rng_for("C15.search")
    # 1. inputs on which model and code disagreed
    for h in hints:
        sk = h.get("suite_kind")
        rs = _np_rng(rng)
        if sk == "split":
            X = np.asarray(h["X"], dtype=float)
            cands.append(dict(kind="hgmm", X=_tolist(X), w=_tolist(h.get("w")), kw=h["kw"], queries=_queries(rs, X)))
        elif sk == "replicate":
            cands.append(dict(kind="replicate", X=_tolist(h["X"]), cnt=_tolist(h["cnt"]), k=h["k"], ct=h["ct"], seed=h["seed"]))
        elif sk in ("mstep", "estep"):
            X = np.asarray(h["X"], dtype=float)
            if len(X) <= 60:
                s = h.get("s")
                for ct in ("full", "diag"):
                    cands.append(dict(kind="gmm", X=_tolist(X), w=_tolist(s), k=int(h["K"]), ct=ct, seed=1))
                cnt = np.random.RandomState(len(X)).randint(1, 4, len(X))
                cands.append(dict(kind="replicate", X=_tolist(X), cnt=cnt.tolist(), k=1, ct="full", seed=1))
    # 2. the statement's data families
    n_g = 120 if tier == "quick" else 2000
    for i in range(n_g):
        rs = _np_rng(rng)
        d = int(rs.randint(1, 7))
        n = int(rs.randint(2 * d, 60))
        X = gen_points(rs, d, n, POINT_FAMILIES[i % 5])
        w = gen_weights(rs, n, WEIGHT_FAMILIES[(i // 5) % 5])
        cands.append(dict(kind="gmm", X=X.tolist(), w=None if rs.rand() < 0.2 else w.tolist(), k=int(rs.randint(1, 4)),
                          ct="full" if i % 2 == 0 else "diag", seed=int(rs.randint(0, 100))))
    n_h = 40 if tier == "quick" else 600
    for i in range(n_h):
        rs = _np_rng(rng)
        X, w, kw, _ = gen_split_case(rs, i)
        cands.append(dict(kind="hgmm", X=X.tolist(), w=_tolist(w), kw=kw, queries=_queries(rs, X)))
    n_r = 40 if tier == "quick" else 600
    for i in range(n_r):
        rs = _np_rng(rng)
        X, cnt, k, ct, seed, _ = gen_rep_case(rs, i)
        cands.append(dict(kind="replicate", X=X.tolist(), cnt=cnt.tolist(), k=k, ct=ct, seed=seed))
    kinds_seen = set()
    for f in cands:
        if f["kind"] in kinds_seen:
            continue
        msg = _run_oracle(f)
        if msg:
            found.append(dict(f, what=msg))
            kinds_seen.add(f["kind"])      # one witness per kind is enough
            if len(found) >= 3:
                break
    return found


def replay(obj):
    f = obj.get("failing_input", obj)
    if "witness" in f.get("replay", {}):
        from . import witnesses
        return witnesses.ALL[f["replay"]["witness"]]()
    msg = _run_oracle(f)
    return {"fails": msg is not None, "detail": msg}
