"""C17 — accessors never alias internal state; committed history is append-only.

Suite 1 (ops): classic state-machine differential.  Random op sequences run on the REAL
`tempest.state_manager.StateManager` and on the Lean reference model (`Model/StateMgr.lean`, through
`sm.run`); after every op both sides print a canonical digest of all observable reads (payloads only).
Suite 2 (sampler): real `Sampler` iterations; every mutator call the pipeline makes on the state manager is
recorded and replayed on the model; the caller scribbles on everything `sample()`, `posterior()`, `results()`,
`state.to_dict()` return.  Current state and history must agree with the model after every step.
"""
import contextlib
import io
import warnings

import numpy as np

from . import common
from .common import Corr

ID = "C17"
LEAN_MODULES = ["TempestVerif.Props.C17", "TempestVerif.Props.C17Run", "TempestVerif.Props.C17Nested",
                "TempestVerif.Props.C17Sites", "TempestVerif.Props.C17Source"]
RULE = ("suite ops: random op sequences of length 5..60 over set/update (copy=True/False, None/scalar/new array/previously "
        "returned array), get_current(key|None), get_history(key, index|None, flat), get_last_history, commit(strict), "
        "compute_results, compute_logw_and_logz(beta), to_dict, update_from_dict / from_dict of an exported dictionary (in ~2/3 of the "
        "cases the exported list objects — and the exported dictionary itself — are passed, not fresh containers; afterwards the "
        "caller overwrites every array of that dictionary and clears / appends to its lists / blanks its _current slots), "
        "~15% malformed ops (invalid keys, bad indices, unknown ops, "
        "dangling handles), and the caller overwriting returned arrays with a sentinel (right away with prob 1/2, else later "
        "at random); executed on the real StateManager and on the Lean model, digests of all observable reads compared "
        "exactly after every op (regime X: no arithmetic).  Non-trivial = the sequence performs at least one commit, one "
        "accessor/export that returns an array and one scribble that overwrites a non-empty returned array.  "
        "suite sampler: Sampler(clustering=False) runs of 3..7 iterations with scribbling on the outputs of sample(), "
        "posterior() for all 8 combinations of return_logw x trim_importance_weights x resample (re-read with the same random "
        "stream), results(), state.to_dict(), state.compute_logw_and_logz(1.0); the mutator calls of the pipeline are replayed on the model; per iteration "
        "exactly one batch is appended per recorded key and earlier batches are bit-identical; every outermost manager call made by "
        "execute_iteration is recorded and the model decides (sm.iter) that the iteration has the shape body ++ [commit, get_current()] "
        "with a body free of commit / import / copy=False (hypothesis of C17_iteration_appends_one_batch).  "
        "suite posterior-composite: a well-formed history of 0..3 batches (blobs never / always / in _current only; blobs_dtype declared or "
        "not), accessor calls and caller writes in between, then Sampler.posterior() with random options on the real SamplerCore and "
        "compute_posterior of the model (Model/StateMgrX.lean): error or returned slots, payloads of x/logl and lengths of weights/logw "
        "when no rows are selected, and the digests of all reads after the call and after the caller overwrote every returned array.  "
        "suite resume-composite: op sequences, then the real save_state -> new Sampler -> load_state through a file against the model's "
        "`resume` (to_dict; update_from_dict into a newly constructed manager; the defaults loop of load_sampler_state): digests of every "
        "read of the resumed manager before and after the caller overwrote the exported dictionary and the old manager's current values.  "
        "suite statemanager-nested: op sequences with CONTAINER values (object ndarray for blobs, list for assignments; elements None / "
        "scalar / array / an array obtained earlier; copy=True/False; re-import of exported dictionaries) on the real StateManager "
        "and on the nested model (Model/StateMgrN.lean, deep copies); the caller overwrites the arrays INSIDE returned containers, plain arrays "
        "and the elements of containers; digests (payloads down to the elements) compared exactly after every op; non-trivial = a "
        "commit, a returned container and a write into an array inside a returned container; the fixed sequences are also run under "
        "the pre-fix rule (deep=0) and must be told apart.  "
        "suite sampler-blobs (real code only, the property's exact oracle): Sampler runs whose likelihood returns no blob / a float / a "
        "sub-array dtype / a structured dtype with a sub-array field / (array, str) tuples / dicts / ragged arrays with blobs_dtype=object, "
        "tpcn and rwm; every array found anywhere inside sample(), results(), to_dict(), get_history*, get_current('blobs'), and "
        "posterior() for all 16 option combinations is overwritten: no np.shares_memory with internal state, internal state and all "
        "public re-reads bit-identical (deep comparison), one batch per iteration; then checkpoint -> new Sampler -> load_state: restored "
        "history equal, nothing shared, writes to the imported dictionary invisible, two more iterations only append.")
MODELLED = ["array shapes/dtypes are not modelled: payload = flattened content; generated sequences keep one shape per key "
            "(np.array of a ragged list is outside the model)",
            "numerical content of logw (compute_logw_and_logz, property C04): compared by length only; compute_results() is "
            "exercised only when the beta/logz/logl histories are well formed (same number of batches, beta/logz scalars, logl arrays)",
            "from_dict: a second StateManager living beside the first is modelled as `freshIn` (theorems C17_freshIn_inv, "
            "C17_resume_shares_nothing) but not executed by the driver; the harness covers it on the real code: other = "
            "StateManager.from_dict(d), then every read of `other` must stay what it was (digest section O=)",
            "list containers of the exported dictionary: update_from_dict builds fresh lists, so the model gives the caller's lists no identity; the harness "
            "passes the exported lists themselves and mutates them afterwards (op `mut`), which must change nothing",
            "save_state/load_state (dill round trip) = import of fresh arrays; the value-level restoration is C08's (C08_restore, C08_resume_prefix); "
            "here: suite sampler-blobs resumes a real checkpoint and checks sharing / append-only",
            "nested values: the nested model has depth 2 (a container of arrays; an element that is itself a container is an opaque cell and "
            "is rejected as an argument); deeper nesting (object array of dicts of arrays) is exercised on the real code only (suite sampler-blobs). "
            "copy.deepcopy memoisation (two elements of one container that are the same array stay one array in the copy) is not modelled: "
            "it concerns the caller's own copy only.  A top-level value of a type other than None / scalar / ndarray / list / tuple / dict "
            "(a set, a custom object) is returned by reference by _ensure_copy (rule 4 of C17_ensure_copy_rules): never stored by the pipeline",
            "rows selected by trim_weights / systematic_resample in posterior(): the gathered arrays are new cells without payload (C12 owns the "
            "selection); get_last_history(default=): the caller's own object comes back (C17_accessor_returns row `param`; checked on the real code)"]
ASSUMPTIONS = ["the caller can only write into arrays it was handed (returned by an accessor or created by itself)",
               "the only reference stored on request is set_current/update_current(copy=False): such an array may alias _current "
               "(ghost set `imported`) and the theorems about `_current` reads exclude exactly those addresses; it must still never alias "
               "committed history or results (C17_history_indep_of_scribble, C17N_history_indep_of_caller_writes; checked by the oracle).  Arrays and lists passed to "
               "update_from_dict / from_dict are ordinary caller-held objects: nothing may alias them afterwards "
               "(C17_import_never_aliases).  The pipeline itself never passes copy=False (C17_sites_no_opt_in, regenerated from source)",
               "numpy: ndarray.copy() of a non-object array, np.array(list), np.concatenate(list), fancy / boolean indexing and arithmetic "
               "return arrays that share no memory with their inputs; copy.deepcopy returns an object graph disjoint from its input "
               "(suite sampler-blobs checks np.shares_memory == 0 on every accessor output every run)"]


def translators():
    """static ties: G5-tables (key sets, step order, posterior tuples) and G5-smsites (copy discipline of state_manager.py, every
    use of the manager elsewhere) are regenerated from the source and checked by the theorems of Props/C17Sites.lean; the
    older textual check of the key lists hard-wired in Model/StateMgr.lean is kept as a third row"""
    import os
    import re
    from tempest import state_manager as smod
    from translate import g5_tables, g5_smsites, g22_statemgr
    # G22: the bodies of the accessors / mutators compiled to terms over the models' heap operations (Gen/StateMgrSrc.lean);
    # Props/C17Source.lean proves that Model.StateMgr.step / Model.StateMgrN.step compute exactly those terms
    rows = [g5_tables.generate(), g5_smsites.generate(), g22_statemgr.generate()]
    src = open(os.path.join(common.LEAN, "TempestVerif", "Model", "StateMgr.lean")).read()
    out = {}
    for name in ("currentKeys", "historyKeys"):
        m = re.search(r"def %s : List Key :=\s*\[([^\]]*)\]" % name, src)
        if not m:
            return rows + [("G5-keysets", "unavailable", f"cannot find {name} in the model source")]
        out[name] = re.findall(r'"([^"]*)"', m.group(1))
    ok = (sorted(out["currentKeys"]) == sorted(smod.CURRENT_STATE_KEYS) and len(set(out["currentKeys"])) == len(out["currentKeys"])
          and sorted(out["historyKeys"]) == sorted(smod.HISTORY_STATE_KEYS) and len(set(out["historyKeys"])) == len(out["historyKeys"])
          and sorted(CUR_KEYS) == sorted(smod.CURRENT_STATE_KEYS) and sorted(HIST_KEYS) == sorted(smod.HISTORY_STATE_KEYS)
          and set(smod.REQUIRED_COMMIT_KEYS) == {"beta", "logl"})
    return rows + [("G5-keysets", "ok" if ok else "broken",
                    f"CURRENT_STATE_KEYS={sorted(smod.CURRENT_STATE_KEYS)} HISTORY_STATE_KEYS={sorted(smod.HISTORY_STATE_KEYS)} "
                    f"REQUIRED_COMMIT_KEYS={sorted(smod.REQUIRED_COMMIT_KEYS)} vs model {out}")]


CUR_KEYS = ["u", "x", "logl", "assignments", "blobs", "acceptance", "steps", "efficiency", "ess", "beta", "logz", "calls", "iter"]
HIST_KEYS = ["u", "x", "logl", "blobs", "iter", "logz", "calls", "steps", "efficiency", "ess", "acceptance", "beta"]
ARRAY_KEYS = ["u", "x", "logl", "blobs", "assignments"]
SENTINEL = -9


# ------------------------------------------------------------------ canonical digests (python side)
def _pv(v, enc=None):
    if v is None:
        return "N"
    if isinstance(v, np.ndarray):
        if enc is not None:
            return enc(v)
        return "A" + ".".join(str(int(t)) for t in v.ravel().tolist())
    if enc is not None:
        return enc(v)
    return "S%d" % int(v)


def _show_dict(d, enc=None, drop=lambda k, s: s == "N"):
    items = []
    for k in sorted(d):
        s = _pv(d[k], enc)
        if not drop(k, s):
            items.append(f"{k}:{s}")
    return ",".join(items) + f";n={len(d)}"


def _show_hist(h, enc=None):
    return ",".join(f"{k}:{'/'.join(_pv(v, enc) for v in h[k])}" for k in sorted(h) if h[k]) + f";n={len(h)}"


def _err(e):
    return {"ValueError": "E:value", "IndexError": "E:index", "KeyError": "E:key"}.get(type(e).__name__)


def read_history(sm):
    """every history entry through the public accessor get_history(key, i)"""
    out = {}
    for k in HIST_KEYS:
        ent = []
        i = 0
        while True:
            try:
                ent.append(sm.get_history(k, i))
            except IndexError:
                break
            i += 1
        out[k] = ent
    return out


def well_formed(hist):
    b, z, l = hist["beta"], hist["logz"], hist["logl"]
    if not b:
        return True
    sc = lambda v: v is not None and not isinstance(v, np.ndarray)  # noqa
    return (all(sc(v) for v in b) and all(sc(v) for v in z) and all(isinstance(v, np.ndarray) for v in l)
            and len(z) == len(b) and len(l) == len(b))


def ref_logw(sm, beta=1.0, hist=None):
    """what a fresh manager holding the same committed history (as read through get_history) computes:
    logw is a function of the committed history only"""
    from tempest.state_manager import StateManager
    hist = read_history(sm) if hist is None else hist
    if not hist["beta"]:
        return np.array([])
    clone = StateManager(2)
    clone.update_from_dict({"_history": {k: list(hist[k]) for k in ("beta", "logz", "logl")}})
    with warnings.catch_warnings():
        warnings.simplefilter("ignore")
        with np.errstate(all="ignore"):
            return clone.compute_logw_and_logz(float(beta))[0]


def _show_logw(v, ref):
    v = np.asarray(v)
    return f"{int(v.size)}:{'ok' if _same(v, np.asarray(ref)) else 'BAD'}"


def _show_results(res, ref=None):
    d = {}
    for k, v in res.items():
        d[k] = v
    items = []
    for k in sorted(d):
        v = d[k]
        if k == "logw":
            good = ref is None or _same(np.asarray(v), np.asarray(ref))
            items.append(f"logw:S{int(np.asarray(v).size)}" if good else "logw:BAD")
            continue
        s = _pv(v)
        if s in ("N", "A"):
            continue
        items.append(f"{k}:{s}")
    return ",".join(items) + f";n={len(d)}"


def digest(sm, r, enc=None, with_results=True, check_cached_logw=True):
    with warnings.catch_warnings():
        warnings.simplefilter("ignore")
        cur = sm.get_current()
        hist = read_history(sm)
        s = f"r={r}#c={_show_dict(cur, enc)}#h={_show_hist(hist, enc)}"
        if not with_results:
            return s
        if not well_formed(hist):
            return s + "#R=skip#W=skip"
        ref = ref_logw(sm, 1.0, hist)
        try:
            with np.errstate(all="ignore"):
                res = sm.compute_results()
            s += "#R=" + _show_results(res, ref if check_cached_logw else None)
        except (ValueError, IndexError, KeyError) as e:
            s += "#R=" + _err(e)
        with np.errstate(all="ignore"):
            lw = sm.compute_logw_and_logz(1.0)[0]
        return s + "#W=" + _show_logw(lw, ref)


# ------------------------------------------------------------------ executing op tokens on the real object
class Real:
    def __init__(self, sm=None):
        from tempest.state_manager import StateManager
        self.sm = StateManager(2) if sm is None else sm
        self.recs = []          # per op: (list of arrays the caller obtained, export dict or None)
        self.stats = {"commit": 0, "arrays_out": 0, "scribbled": 0}
        self.others = []        # second managers built by from_dict: (manager, digest of all its reads when it was built)

    # -- argument parsing mirrors Drv/C17.lean: None => malformed
    def _arg(self, t):
        if t == "N":
            return (None, [])
        if t[:1] == "S":
            return (int(t[1:]), []) if _lean_int(t[1:]) else None
        if t[:1] == "A":
            body = t[1:]
            parts = [] if body == "" else body.split(".")
            if not all(_lean_int(x) for x in parts):
                return None
            a = np.array([int(x) for x in parts], dtype=float)
            return (a, [a])
        if t[:1] == "H":
            if not t[1:].isdigit():
                return None
            i = int(t[1:])
            if i >= len(self.recs) or len(self.recs[i][0]) != 1:
                return None
            return (self.recs[i][0][0], [])
        return None

    @staticmethod
    def _bool(t):
        return {"0": False, "1": True}.get(t)

    @staticmethod
    def _arrays(v):
        if isinstance(v, np.ndarray):
            return [v]
        if isinstance(v, dict):
            out = []
            for x in v.values():
                out += Real._arrays(x)
            return out
        if isinstance(v, list):
            out = []
            for x in v:
                out += Real._arrays(x)
            return out
        return []

    def _call(self, f, fmt):
        """run an accessor/mutator; returns (result string, arrays obtained, export)"""
        try:
            with warnings.catch_warnings():
                warnings.simplefilter("ignore")
                with np.errstate(all="ignore"):
                    v = f()
        except (ValueError, IndexError, KeyError) as e:
            return _err(e), [], None
        return fmt(v)

    def exec(self, tok):
        sm = self.sm
        f = tok.split(":")
        bad = ("bad-op", [], None)
        out = bad
        kind = f[0]
        if kind == "scr" and len(f) == 3:
            if f[1].isdigit() and int(f[1]) < len(self.recs) and _lean_int(f[2]):
                for a in self.recs[int(f[1])][0]:
                    if a.size:
                        self.stats["scribbled"] += 1
                    a[...] = int(f[2])
                out = ("U", [], None)
        elif kind == "set" and len(f) == 4:
            a, c = self._arg(f[2]), self._bool(f[3])
            if a is not None and c is not None:
                r = self._call(lambda: sm.set_current(f[1], a[0], copy=c), lambda v: ("U", [], None))
                out = (r[0], a[1], None)
        elif kind == "upd" and len(f) == 3:
            c = self._bool(f[2])
            items = [] if f[1] == "-" else [it.split("~") for it in f[1].split(",")]
            args = [self._arg(it[1]) if len(it) == 2 else None for it in items]
            if c is not None and all(a is not None for a in args):
                d = {}
                held = []
                for it, a in zip(items, args):
                    assert it[0] not in d, "generator must not repeat keys inside upd"
                    d[it[0]] = a[0]
                    held += a[1]
                r = self._call(lambda: sm.update_current(d, copy=c), lambda v: ("U", [], None))
                out = (r[0], held, None)
        elif kind == "get" and len(f) == 2:
            out = self._call(lambda: sm.get_current(f[1]), lambda v: ("V:" + _pv(v), self._arrays(v), None))
        elif tok == "getall":
            out = self._call(lambda: sm.get_current(), lambda v: ("D:" + _show_dict(v), self._arrays(v), None))
        elif kind == "geth" and len(f) == 4:
            fl = self._bool(f[3])
            idx = None if f[2] == "*" else (int(f[2]) if _lean_int(f[2]) else "bad")
            if fl is not None and idx != "bad":
                out = self._call(lambda: sm.get_history(f[1], idx, fl), lambda v: ("V:" + _pv(v), self._arrays(v), None))
        elif kind == "getl" and len(f) == 2:
            out = self._call(lambda: sm.get_last_history(f[1]), lambda v: ("V:" + _pv(v), self._arrays(v), None))
        elif kind == "commit" and len(f) == 2 and self._bool(f[1]) is not None:
            st = self._bool(f[1])
            out = self._call(lambda: sm.commit_current_to_history(strict=st), lambda v: ("U", [], None))
            if out[0] == "U":
                self.stats["commit"] += 1
        elif tok == "results":
            if not well_formed(read_history(sm)):
                out = ("skip", [], None)
            else:
                out = self._call(lambda: sm.compute_results(),
                                 lambda v: ("D:" + _show_results(v, ref_logw(sm, 1.0)), self._arrays(v), None))
        elif kind == "logw" and len(f) == 2 and _lean_int(f[1]):
            if not well_formed(read_history(sm)):
                out = ("skip", [], None)
            else:
                ref = ref_logw(sm, int(f[1]))
                out = self._call(lambda: sm.compute_logw_and_logz(float(int(f[1]))),
                                 lambda v: ("L:" + _show_logw(v[0], ref), self._arrays(v[0]), None))
        elif tok == "todict":
            out = self._call(lambda: sm.to_dict(),
                             lambda v: ("X:" + _show_dict(v["_current"]) + ";" + _show_hist(v["_history"]),
                                        self._arrays(v["_current"]) + self._arrays(v["_history"]), v))
        elif kind in ("imp", "fromd") and len(f) == 3:
            d = self._dict_for(f[1], f[2])
            if d is not None and kind == "imp":
                out = self._call(lambda: sm.update_from_dict(d), lambda v: ("U", [], None))
            elif d is not None:
                from tempest.state_manager import StateManager
                other = StateManager.from_dict(d)
                digest(other, "-")       # settle: a first compute_results() may leave a cache behind (even when it raises)
                self.others = self.others[-1:] + [(other, digest(other, "-"))]
                out = ("U", [], None)
        elif kind == "mut" and len(f) == 3 and f[1].isdigit() and f[2] in ("clear", "dup", "nonecur"):
            i = int(f[1])
            if i < len(self.recs) and self.recs[i][1] is not None:
                ex = self.recs[i][1]
                if f[2] == "clear":
                    for v in ex["_history"].values():
                        v.clear()
                elif f[2] == "dup":
                    for v in ex["_history"].values():
                        if v:
                            v.append(v[-1])
                else:
                    for k in ex["_current"]:
                        ex["_current"][k] = None
                out = ("U", [], None)
        self.recs.append((out[1], out[2]))
        self.stats["arrays_out"] += sum(1 for a in out[1] if a.size)
        return out[0]

    def _dict_for(self, idx, mode):
        """the dictionary handed to update_from_dict / from_dict for `imp:<idx>:<mode>` (None = malformed op).
        With `s` the exported list objects themselves are passed (and the exported dictionary itself when every section is
        wanted), otherwise fresh lists holding the same arrays; the arrays are always the exported ones."""
        if not (idx.isdigit() and all(ch in "chzs" for ch in mode)):
            return None
        i = int(idx)
        if i >= len(self.recs) or self.recs[i][1] is None:
            return None
        ex = self.recs[i][1]
        same = "s" in mode
        if same and "c" in mode and "h" in mode and "z" not in mode:
            return ex
        d = {}
        if "c" in mode:
            d["_current"] = ex["_current"] if same else dict(ex["_current"])
        if "h" in mode:
            d["_history"] = {k: (v if same else list(v)) for k, v in ex["_history"].items()}
            if "z" in mode:
                d["_history"]["zz"] = []
        elif "z" in mode:
            d["_history"] = {"zz": []}
        return d

    def others_status(self):
        if not self.others:
            return "-"
        return "ok" if all(digest(o, "-") == snap for o, snap in self.others) else "BAD"


def _lean_int(t):
    """String.toInt? accepts an optional '-' followed by ASCII digits"""
    body = t[1:] if t[:1] == "-" else t
    return body != "" and all(ch in "0123456789" for ch in body)


def run_real(tokens):
    r = Real()
    out = []
    for t in tokens:
        res = r.exec(t)
        out.append(digest(r.sm, res) + "#O=" + r.others_status())
    return out, r


# ------------------------------------------------------------------ generator
class Gen:
    def __init__(self, rng):
        self.rng = rng
        self.tag = 0
        self.kind = {}
        for k in CUR_KEYS:
            if k in ARRAY_KEYS:
                self.kind[k] = rng.randint(1, 3)          # array length of this key in this sequence
            elif k in ("beta", "logz"):
                self.kind[k] = 0                          # scalar
            else:
                self.kind[k] = 0 if rng.random() < 0.7 else rng.randint(1, 2)
        self.toks = []
        self.meta = []        # per op: ("acc", key or None) | ("export",) | ("set", key) | ("other",)
        self.pending = []     # accessor ops not yet scribbled
        self.commits = 0

    def fresh(self, k):
        self.tag += 1
        n = self.kind[k]
        if n == 0:
            return "S%d" % self.tag
        return "A" + ".".join(str(10 * self.tag + j) for j in range(n))

    def arg(self, k, op_index):
        r = self.rng.random()
        if r < 0.08:
            return "N"
        if r < 0.16:
            # an array obtained earlier for the same key (same shape by construction)
            c = [i for i, m in enumerate(self.meta) if m[0] in ("acc1", "set") and m[1] == k and self.kind[k] > 0]
            if c:
                return "H%d" % self.rng.choice(c)
        return self.fresh(k)

    def key(self, pool=CUR_KEYS):
        r = self.rng.random()
        if r < 0.45:
            c = [k for k in ("beta", "logz", "logl", "u") if k in pool]
            return self.rng.choice(c)
        return self.rng.choice(pool)

    def emit(self, tok, meta):
        self.toks.append(tok)
        self.meta.append(meta)
        return len(self.toks) - 1

    def scr_for(self, i):
        self.emit(f"scr:{i}:{self.rng.choice([SENTINEL, SENTINEL, -7, 0])}", ("scr",))

    def malformed(self):
        r = self.rng.randint(0, 11)
        k = self.rng.choice(["foo", "U", "", "logw", "assignments", "_current"])
        if r == 0:
            self.emit(f"get:{k if k != 'assignments' else 'zz'}", ("other",))
        elif r == 1:
            self.emit(f"set:{k if k != 'assignments' else 'n_dim'}:{self.fresh('u')}:{self.rng.choice('01')}", ("other",))
        elif r == 2:
            self.emit(f"geth:{k}:{self.rng.choice(['*', '0'])}:0", ("other",))     # 'assignments' is not a history key
        elif r == 3:
            self.emit(f"getl:{k}", ("other",))
        elif r == 4:
            hk = self.key(HIST_KEYS)
            self.emit(f"geth:{hk}:{self.rng.choice([-1, -2, self.commits + 1, self.commits + 5, 99])}:0", ("other",))
        elif r == 5:
            k1 = self.key()
            self.emit(f"upd:{k1}~{self.fresh(k1)},bogus~S1,x9~N:{self.rng.choice('01')}", ("other",))
        elif r == 6:
            self.emit(self.rng.choice(["frob", "commit", "commit:2", "set:u", "get", "todict:1", "results:0", "geth:u:x:0",
                                       "geth:u:0:2", "logw", "logw:x", "logw:1:1", "set:u:Q:1", "set:u:A1.x:1", "set:u:S:1", "upd:u:1", "scr:0", "imp:0", "mut:0", "mut:0:frob", "fromd:0", "imp:0:q"]),
                      ("other",))
        elif r == 7:
            self.emit(f"scr:{len(self.toks) + self.rng.randint(0, 40)}:{SENTINEL}", ("other",))
        elif r == 8:
            self.emit(f"{self.rng.choice(['imp', 'fromd'])}:{self.rng.randint(0, len(self.toks) + 3)}:ch", ("other",))
        elif r == 9:
            # a handle that cannot denote a single array: an op that returned none, or an op that does not exist yet
            c = [i for i, m in enumerate(self.meta) if m[0] in ("commit", "scr", "imp")]   # these never hand out arrays
            i = self.rng.choice(c) if c and self.rng.random() < 0.7 else len(self.toks) + self.rng.randint(0, 3)
            self.emit(f"set:u:H{i}:1", ("other",))
        elif r == 10:
            hk = self.rng.choice(["beta", "logz", "iter"])
            self.emit(f"geth:{hk}:*:1", ("other",))       # np.concatenate of scalars / of nothing
        else:
            self.emit("commit:1", ("other",))             # strict commit (ValueError unless beta and logl are set)

    def step(self):
        rng = self.rng
        if rng.random() < 0.15:
            self.malformed()
            return
        r = rng.random()
        acc = None
        if r < 0.24:
            k = self.key()
            i = self.emit(f"set:{k}:{self.arg(k, len(self.toks))}:{'0' if rng.random() < 0.15 else '1'}", ("set", k))
            if self.kind[k] > 0 and rng.random() < 0.3:
                self.pending.append(i)
        elif r < 0.31:
            ks = rng.sample(CUR_KEYS, rng.randint(0, 4))
            if rng.random() < 0.5:
                ks = list(dict.fromkeys(ks + ["beta", "logz", "logl"]))
            body = ",".join(f"{k}~{self.arg(k, len(self.toks))}" for k in ks) or "-"
            i = self.emit(f"upd:{body}:{'0' if rng.random() < 0.15 else '1'}", ("upd",))
            if rng.random() < 0.3:
                self.pending.append(i)
        elif r < 0.39:
            k = self.key()
            acc = self.emit(f"get:{k}", ("acc1", k))
        elif r < 0.44:
            acc = self.emit("getall", ("acc",))
        elif r < 0.52:
            k = self.key(HIST_KEYS)
            idx = rng.randint(0, max(0, self.commits - 1)) if rng.random() < 0.9 else self.commits
            acc = self.emit(f"geth:{k}:{idx}:{rng.choice('01')}", ("acc1", k))
        elif r < 0.57:
            k = self.key(HIST_KEYS)
            acc = self.emit(f"geth:{k}:*:{'1' if rng.random() < 0.35 else '0'}", ("acc",))
        elif r < 0.62:
            k = self.key(HIST_KEYS)
            acc = self.emit(f"getl:{k}", ("acc1", k))
        elif r < 0.76:
            self.emit(f"commit:{'1' if rng.random() < 0.1 else '0'}", ("commit",))
            self.commits += 1
        elif r < 0.80:
            acc = self.emit("results", ("acc",))
        elif r < 0.84:
            acc = self.emit(f"logw:{rng.choice([1, 1, 1, 0, 2])}", ("acc",))
        elif r < 0.89:
            acc = self.emit("todict", ("export",))
        elif r < 0.91:
            ex = [i for i, m in enumerate(self.meta) if m[0] == "export"]
            if ex:
                mode = rng.choice(["ch", "ch", "ch", "c", "h", "chz", "z"]) + ("s" if rng.random() < 0.65 else "")
                i = rng.choice(ex)
                if rng.random() < 0.25:
                    self.emit(f"fromd:{i}:{mode}", ("imp",))
                else:
                    self.emit(f"imp:{i}:{mode}", ("imp",))
                # what the caller passed in stays in its hands: overwrite the arrays, mutate the lists
                if rng.random() < 0.6:
                    self.scr_for(i)
                if rng.random() < 0.5:
                    self.emit(f"mut:{i}:{rng.choice(['clear', 'dup', 'dup', 'nonecur'])}", ("scr",))
            else:
                acc = self.emit("todict", ("export",))
        else:
            if self.pending:
                i = self.pending.pop(rng.randrange(len(self.pending)))
                self.scr_for(i)
            else:
                cands = [i for i, m in enumerate(self.meta) if m[0] in ("acc", "acc1", "export")]
                if cands:
                    self.scr_for(rng.choice(cands))
                else:
                    acc = self.emit("getall", ("acc",))
        if acc is not None:
            if rng.random() < 0.5:
                self.scr_for(acc)
            else:
                self.pending.append(acc)


def gen_sequence(rng):
    g = Gen(rng)
    n = rng.randint(5, 60)
    if rng.random() < 0.6:
        # typical start: the three keys compute_results needs
        for k in rng.sample(["beta", "logz", "logl"], 3):
            g.emit(f"set:{k}:{g.fresh(k)}:1", ("set", k))
    while len(g.toks) < n:
        g.step()
    # every array still held is overwritten at the end, then everything is read once more
    for i in g.pending[:6]:
        g.scr_for(i)
    g.emit("getall", ("acc",))
    return g.toks


# ------------------------------------------------------------------ model side, in the background
def model_async(lines, parts=4):
    """run the lines through the compiled model driver in `parts` processes while the caller works; returns join()"""
    import threading
    drv = common.Driver()
    size = max(1, (len(lines) + parts - 1) // parts)
    chunks = [lines[i:i + size] for i in range(0, len(lines), size)]
    res = [None] * len(chunks)
    errs = []

    def work(i):
        try:
            res[i] = drv.batch(chunks[i])
        except Exception as e:  # noqa
            errs.append(e)
    ths = [threading.Thread(target=work, args=(i,)) for i in range(len(chunks))]
    for t in ths:
        t.start()

    def join():
        for t in ths:
            t.join()
        if errs:
            raise errs[0]
        return [x for r in res for x in r]
    return join


# ------------------------------------------------------------------ suite 1
def correspond_ops(tier):
    n = 1500 if tier == "quick" else 22000
    rng = common.rng_for("C17.ops")
    c = Corr("statemanager-ops", "exact (reference model, no arithmetic)")
    seqs = [gen_sequence(rng) for _ in range(n)]
    # a few fixed sequences: the three former aliasing witnesses and the append-only shape
    seqs[:0] = [t.split(";") for t in FIXED]
    lines = ["sm.run ops=" + ";".join(t) for t in seqs]
    join = model_async(lines)
    real = [run_real(toks) for toks in seqs]
    model = join()
    for toks, line, ans, (impl, r) in zip(seqs, lines, model, real):
        nontrivial = r.stats["commit"] >= 1 and r.stats["arrays_out"] >= 1 and r.stats["scribbled"] >= 1
        c.case(toks, nontrivial)
        c.count("len", len(toks))
        c.count("commits", r.stats["commit"])
        c.count("scribbled_arrays", r.stats["scribbled"])
        for d in impl:
            res = d[2:d.index("#")]
            c.count("res:" + (res if res[:1] in "Ebs" or res == "U" else res[:1]))
        c.count("results_ok", sum(1 for d in impl if "#R=skip" not in d))
        m = ans.split("|")
        if m != impl:
            j = next((i for i, (a, b) in enumerate(zip(impl, m)) if a != b), min(len(impl), len(m)))
            c.disagree(input=line, ops=toks, first_diff_at=j, op=toks[j] if j < len(toks) else None,
                       impl=impl[j] if j < len(impl) else None, model=m[j] if j < len(m) else None)
        c.sample({"ops": ";".join(toks), "last_digest": impl[-1] if impl else None})
    return c


FIXED = [
    "set:u:A3.4:1;set:beta:S1:1;set:logz:S0:1;set:logl:A5.6:1;commit:0;commit:0;todict;imp:6:chs;scr:6:-9;mut:6:clear;getall;"
    "todict;fromd:11:chs;imp:11:hs;mut:11:dup;scr:11:-7;mut:11:nonecur;results;commit:0;mut:11:clear;getall",
    "set:beta:S1:1;set:logz:S0:1;set:logl:A5.6:1;commit:0;logw:1;scr:4:-9;logw:1;results;scr:7:-9;logw:1;commit:0;logw:2;scr:11:-9;logw:2;logw:1",
    "set:u:A3.4:1;commit:0;todict;scr:2:-9;get:u;geth:u:0:0",
    "set:u:A3.4:1;set:logl:A5.6:1;set:beta:S0:1;set:logz:S0:1;commit:0;results;scr:5:-9;results",
    "set:u:A3.4:1;set:logl:A5.6:1;set:beta:S0:1;commit:0;getall;scr:4:-9;getl:u;scr:6:-9;geth:u:0:0;scr:8:-9;geth:u:*:0;scr:10:-9;getall",
    "set:u:A1.2:0;scr:0:-9;get:u;commit:0;scr:0:-7;geth:u:0:0;get:u",
    "set:beta:S1:1;set:logz:S0:1;set:logl:A1:1;commit:0;commit:0;todict;imp:5:chz;results;results;todict;imp:9:h;scr:5:-9;getall",
    "upd:u~A1.2,bogus~S1,x~A3:1;get:u;get:x;commit:1;commit:0;geth:u:0:1;geth:beta:*:1;geth:u:*:1",
]


# ------------------------------------------------------------------ suite 2: real Sampler iterations
class _Recorder:
    """wraps the public methods of a live StateManager and records every OUTERMOST call as a model op token (calls the
    manager makes on itself, e.g. compute_results -> get_history, are part of the recorded call)"""

    NAMES = ("set_current", "update_current", "commit_current_to_history", "update_from_dict", "get_current", "get_history",
             "get_last_history", "compute_logw_and_logz", "compute_results", "to_dict")

    def __init__(self, sm, enc):
        self.sm, self.enc, self.toks = sm, enc, []
        self.n_commit = 0
        self.depth = 0
        self.all_calls = None     # when a list: every outermost call (getters too) is appended here (used around sample())
        for name in self.NAMES:
            setattr(sm, name, self._wrap(name, getattr(sm, name)))

    def _arg(self, v):
        s = self.enc(v) if v is not None else "N"
        return s

    def _token(self, name, a, k):
        if name == "set_current":
            key, val = a[0], a[1]
            cp = k.get("copy", a[2] if len(a) > 2 else True)
            return f"set:{key}:{self._arg(val)}:{int(bool(cp))}"
        if name == "update_current":
            d = a[0]
            cp = k.get("copy", a[1] if len(a) > 1 else True)
            return "upd:" + (",".join(f"{kk}~{self._arg(v)}" for kk, v in d.items()) or "-") + f":{int(bool(cp))}"
        if name == "commit_current_to_history":
            st = k.get("strict", a[0] if a else False)
            self.n_commit += 1
            return f"commit:{int(bool(st))}"
        if name == "get_current":
            key = k.get("key", a[0] if a else None)
            return "getall" if key is None else f"get:{key}"
        if name == "get_history":
            key = k.get("key", a[0] if a else None)
            idx = k.get("index", a[1] if len(a) > 1 else None)
            fl = k.get("flat", a[2] if len(a) > 2 else False)
            return f"geth:{key}:{'*' if idx is None else int(idx)}:{int(bool(fl))}"
        if name == "get_last_history":
            return f"getl:{k.get('key', a[0] if a else None)}"
        if name == "compute_logw_and_logz":
            b = k.get("beta_final", a[0] if a else 1.0)
            return f"logw:{int(b)}" if float(b) == int(b) else "logw:1"
        if name == "compute_results":
            return "results"
        if name == "to_dict":
            return "todict"
        return "UNSUPPORTED:" + name

    def _wrap(self, name, f):
        def g(*a, **k):
            if self.depth == 0:
                tok = self._token(name, a, k)
                if name in ("set_current", "update_current", "commit_current_to_history", "update_from_dict"):
                    self.toks.append(tok)
                if self.all_calls is not None:
                    self.all_calls.append(tok)
            self.depth += 1
            try:
                return f(*a, **k)
            finally:
                self.depth -= 1
        return g


class _Enc:
    """injective naming of values by content: arrays -> A<id>, scalars -> S<id>; a sentinel-filled array -> A<sentinel>"""

    def __init__(self):
        self.ids = {}

    def __call__(self, v):
        if isinstance(v, np.ndarray):
            if v.size and v.dtype.kind in "fiu" and bool(np.all(v == SENTINEL)):
                return "A%d" % SENTINEL
            key = ("A", v.dtype.str, v.shape, v.tobytes())
            return "A%d" % self.ids.setdefault(key, 1000 + len(self.ids))
        key = ("S", type(v).__name__, repr(v))
        return "S%d" % self.ids.setdefault(key, 1000 + len(self.ids))


def _snapshot(sm):
    return ({k: (None if v is None else (v.copy() if isinstance(v, np.ndarray) else v)) for k, v in sm._current.items()},
            {k: [x.copy() if isinstance(x, np.ndarray) else x for x in v] for k, v in sm._history.items()})


def _same(a, b):
    if isinstance(a, np.ndarray) or isinstance(b, np.ndarray):
        return (isinstance(a, np.ndarray) and isinstance(b, np.ndarray) and a.dtype == b.dtype and a.shape == b.shape
                and a.tobytes() == b.tobytes())
    return type(a) is type(b) and (a == b or (a != a and b != b))


def _scribble(obj):
    n = 0
    for a in Real._arrays(list(obj) if isinstance(obj, tuple) else obj):
        if a.size:
            a[...] = SENTINEL
            n += 1
    return n


SAMPLER_TIME_LIMIT = 20.0      # seconds; a normal run of <= 7 iterations takes well under one second


class _Hang(Exception):
    pass


@contextlib.contextmanager
def _time_limit(seconds):
    """the real code may stop terminating once its state has been corrupted; bound every run (main thread only)"""
    import signal
    import threading
    if threading.current_thread() is not threading.main_thread():
        yield
        return

    def on_alarm(signum, frame):
        raise _Hang(f"no progress within {seconds} s")
    old = signal.signal(signal.SIGALRM, on_alarm)
    signal.setitimer(signal.ITIMER_REAL, seconds)
    try:
        yield
    finally:
        signal.setitimer(signal.ITIMER_REAL, 0)
        signal.signal(signal.SIGALRM, old)


def sampler_run(seed, n_iter, rng, c=None):
    """returns (tokens, impl digests, problems) for one Sampler run with scribbling.  If the real code raises, the same run
    is repeated without the caller's writes: only a failure that the writes caused is a problem of this property."""
    import random
    st = rng.getstate()
    try:
        with _time_limit(SAMPLER_TIME_LIMIT):
            return _sampler_run(seed, n_iter, rng, c, True)
    except Exception as e:  # noqa
        rng2 = random.Random()
        rng2.setstate(st)
        try:
            with _time_limit(SAMPLER_TIME_LIMIT):
                _sampler_run(seed, n_iter, rng2, None, False)
        except Exception as e2:  # noqa
            if c is not None:
                c.count("sampler_raised_without_scribbling:" + type(e2).__name__)
            return [], [], []
        return [], [], [f"the run raised {type(e).__name__}: {e} after the caller overwrote returned arrays "
                        f"(the same run without the writes completes)"]


def _sampler_run(seed, n_iter, rng, c, do_scribble):
    from .witnesses import _mk_sampler
    problems = []
    enc = _Enc()
    toks, impl = [], []
    shapes = _sampler_run.shapes = []      # per iteration: the manager calls execute_iteration made (for `sm.iter`)
    with contextlib.redirect_stdout(io.StringIO()), warnings.catch_warnings():
        warnings.simplefilter("ignore")
        np.random.seed(seed)
        s = _mk_sampler(clustering=False, n_particles=rng.choice([16, 32, 48]))
        rec = _Recorder(s.state, enc)
        sm = s.state

        def flush(extra=None, res="-"):
            # everything the pipeline did since the last flush, then the caller's own op
            new = rec.toks
            rec.toks = []
            for t in new:
                toks.append(t)
                impl.append(None)          # not observed individually
            if extra is not None:
                toks.append(extra)
            impl.append(digest(sm, res, enc, with_results=False)) if extra is not None else None

        s._core._initialize_fresh()
        flush("get:beta")
        for it in range(n_iter):
            before = _snapshot(sm)
            nc = rec.n_commit
            rec.all_calls = []
            st = s.sample()
            shapes.append(";".join(rec.all_calls))
            rec.all_calls = None
            after = _snapshot(sm)
            if rec.n_commit != nc + 1:
                problems.append(f"iteration {it}: {rec.n_commit - nc} commits (want exactly 1)")
            for k in HIST_KEYS:
                want = 1 if after[0].get(k) is not None else 0
                if len(after[1][k]) != len(before[1][k]) + want:
                    problems.append(f"iteration {it}: history[{k}] grew by {len(after[1][k]) - len(before[1][k])}, want {want}")
                if not all(_same(x, y) for x, y in zip(before[1][k], after[1][k])):
                    problems.append(f"iteration {it}: an earlier batch of history[{k}] changed during sample()")
            i_get = len(toks) + len(rec.toks)
            flush("getall")
            outs = [("sample", st, i_get)]
            if c is not None:
                c.count("iterations")
            # the caller scribbles on what it was given, in random order / subset
            if rng.random() < 0.8:
                outs.append(("results", s.results(), None))
            if rng.random() < 0.8:
                i_td = len(toks) + len(rec.toks)
                d = sm.to_dict()
                flush("todict")
                outs.append(("to_dict", d, i_td))
            rng.shuffle(outs)
            for name, o, idx in outs:
                n = _scribble(o) if do_scribble else 0
                if c is not None:
                    c.count("scribbled:" + name, n)
                if idx is not None:
                    flush(f"scr:{idx}:{SENTINEL}")
                now = _snapshot(sm)
                for k in now[0]:
                    if not _same(now[0][k], after[0][k]):
                        problems.append(f"iteration {it}: scribbling on {name}() output changed current[{k}]")
                for k in HIST_KEYS:
                    if len(now[1][k]) != len(after[1][k]) or not all(_same(x, y) for x, y in zip(after[1][k], now[1][k])):
                        problems.append(f"iteration {it}: scribbling on {name}() output changed history[{k}]")
            # posterior(): every option combination, every output overwritten, then re-read with the same random stream
            for rl in (False, True):
                for tr in (True, False):
                    for rs in (False, True):
                        kw = dict(resample=rs, return_logw=rl, trim_importance_weights=tr)
                        rs_state = np.random.get_state()
                        out = s.posterior(**kw)
                        snap = [np.array(a, copy=True) for a in out]
                        n = _scribble(out) if do_scribble else 0
                        if c is not None:
                            c.count("scribbled:posterior", n)
                            c.count("posterior_calls")
                        np.random.set_state(rs_state)
                        out2 = s.posterior(**kw)
                        if len(out2) != len(snap) or not all(_same(np.asarray(x), np.asarray(y)) for x, y in zip(snap, out2)):
                            problems.append(f"iteration {it}: posterior({kw}) differs after the caller overwrote the arrays "
                                            f"returned by the previous identical call")
            # compute_logw_and_logz(): twice around a scribble
            with np.errstate(all="ignore"):
                lw1 = sm.compute_logw_and_logz(1.0)[0]
                snap = np.array(lw1, copy=True)
                if do_scribble and isinstance(lw1, np.ndarray) and lw1.size:
                    lw1[...] = SENTINEL
                lw2 = sm.compute_logw_and_logz(1.0)[0]
            if not _same(np.asarray(lw2), snap):
                problems.append(f"iteration {it}: compute_logw_and_logz(1.0) differs after the caller overwrote the array "
                                f"returned by the previous call")
            now = _snapshot(sm)
            for k in HIST_KEYS:
                if len(now[1][k]) != len(after[1][k]) or not all(_same(x, y) for x, y in zip(after[1][k], now[1][k])):
                    problems.append(f"iteration {it}: scribbling on posterior()/logw outputs changed history[{k}]")
            # public re-reads after all the scribbling
            cur2 = sm.get_current()
            for k in cur2:
                if not _same(cur2[k], after[0][k]):
                    problems.append(f"iteration {it}: get_current()[{k}] differs after scribbling")
            h2 = read_history(sm)
            for k in HIST_KEYS:
                if len(h2[k]) != len(after[1][k]) or not all(_same(x, y) for x, y in zip(h2[k], after[1][k])):
                    problems.append(f"iteration {it}: get_history({k}) differs after scribbling")
            r1 = s.results()
            r2 = s.results()
            for k in r1:
                if not _same(r1[k], r2[k]):
                    problems.append(f"iteration {it}: results()[{k}] not stable")
            if np.shares_memory(r1["logl"], r2["logl"]):
                problems.append(f"iteration {it}: two results() calls share memory")
    return toks, impl, problems


def correspond_sampler(tier):
    n = 14 if tier == "quick" else 100
    rng = common.rng_for("C17.sampler")
    c = Corr("sampler-iterations", "exact (recorded mutator calls replayed on the reference model; values named by content)")
    drv = common.Driver()
    runs = []
    iter_lines = []
    for j in range(n):
        seed = rng.randint(0, 2 ** 31 - 1)
        n_iter = rng.randint(3, 7)
        toks, impl, problems = sampler_run(seed, n_iter, rng, c)
        iter_lines += [(seed, sh) for sh in getattr(_sampler_run, "shapes", [])]
        c.count("pipeline_mutator_calls", sum(1 for t in toks if t.split(":")[0] in ("set", "upd", "commit")))
        c.count("pipeline_copy_false_calls", sum(1 for t in toks if t.split(":")[0] in ("set", "upd") and t.endswith(":0")))
        runs.append((seed, n_iter, toks, impl, problems))
    lines = ["sm.run ops=" + (";".join(t[2]) or "-") for t in runs]
    model = drv.batch(lines)
    # every real iteration must have the shape of the iteration model: body (no commit / import / copy=False), commit, get_current()
    for (seed, sh), ans in zip(iter_lines, drv.batch(["sm.iter ops=" + (sh or "-") for _, sh in iter_lines])):
        c.count("iteration_shape:" + ans.split(":")[0])
        if ans[:3] == "ok:":
            c.count("iteration_body_ops", int(ans[3:]))
        else:
            c.disagree(input=f"sampler seed={seed}", impl=f"manager calls of one execute_iteration: {sh[:300]}",
                       model="body ++ [commit(), get_current()]", sampler_seed=seed)
    for (seed, n_iter, toks, impl, problems), line, ans in zip(runs, lines, model):
        c.case((seed, n_iter, toks), n_iter >= 2)
        m = ans.split("|")
        for p in problems[:3]:
            c.disagree(input=f"sampler seed={seed} n_iter={n_iter}", impl=p, model="one commit per iteration, no aliasing", sampler_seed=seed)
        if not toks:
            continue
        if len(m) != len(impl):
            c.disagree(input=line[:300], impl=f"{len(impl)} ops", model=f"{len(m)} digests", sampler_seed=seed)
            continue
        for j, (a, b) in enumerate(zip(impl, m)):
            if a is None:
                continue
            b2 = "#".join(b.split("#")[1:3])           # compare the c= and h= sections
            a2 = "#".join(a.split("#")[1:3])
            if a2 != b2:
                c.disagree(input=f"sampler seed={seed} n_iter={n_iter}", op_index=j, op=toks[j], impl=a2[:300], model=b2[:300],
                           sampler_seed=seed)
                break
        c.sample({"seed": seed, "n_iter": n_iter, "n_ops": len(toks), "ops_head": ";".join(toks[:12])[:400]})
    return c


# ------------------------------------------------------------------ suite: compute_posterior as a composite accessor
def gen_post(rng):
    """a well-formed history of 0..3 batches (u, x, logl of one length; beta, logz scalars; blobs never / always / current only),
    accessor calls and caller writes in between, then posterior() with random options"""
    n = rng.randint(1, 3)
    commits = rng.choice([0, 1, 1, 2, 2, 3])
    blobs_mode = rng.choice(["never", "never", "always", "always", "current-only"])
    declared = rng.random() < 0.4
    toks = []
    arr = lambda: "A" + ".".join(str(rng.randint(-4, 4)) for _ in range(n))  # noqa
    for c in range(commits):
        for k in rng.sample(["u", "x", "logl"], 3):
            toks.append(f"set:{k}:{arr()}:1")
        toks.append(f"set:beta:S{c}:1")
        toks.append(f"set:logz:S{rng.randint(-1, 1)}:1")
        if blobs_mode == "always":
            toks.append(f"set:blobs:{arr()}:1")
        if rng.random() < 0.4:
            toks.append(rng.choice(["get:u", "getall", "geth:u:*:1", "results", "todict", "logw:1"]))
            toks.append(f"scr:{len(toks) - 1}:{SENTINEL}")
        toks.append("commit:0")
    if blobs_mode == "current-only":
        toks.append(f"set:blobs:{arr()}:1")
    if rng.random() < 0.3:
        toks.append(rng.choice(["results", "geth:x:*:1", "getall"]))
    opts = dict(resample=rng.random() < 0.4, return_blobs=rng.random() < 0.5,
                trim_importance_weights=rng.random() < 0.5, return_logw=rng.random() < 0.5)
    return toks, opts, declared, (commits, blobs_mode)


def _slot(name, v, exact):
    if v is None:
        return f"{name}=N"
    if not exact:
        return f"{name}=A?"
    if name in ("weights", "logw"):
        return f"{name}=L{int(np.asarray(v).size)}"
    return f"{name}={_pv(np.asarray(v))}"


def correspond_post(tier):
    from .witnesses import _mk_sampler
    n = 250 if tier == "quick" else 4000
    rng = common.rng_for("C17.post")
    c = Corr("posterior-composite", "exact (reference model of compute_posterior: errors, returned slots, payloads where no rows are "
                                    "selected, independence of every read from the caller's writes)")
    cases = [gen_post(rng) for _ in range(n)]
    lines = []
    for toks, opts, declared, _ in cases:
        bits = "".join("1" if b else "0" for b in (opts["resample"], opts["return_blobs"], opts["trim_importance_weights"],
                                                    opts["return_logw"], declared))
        lines.append(f"sm.post ops={';'.join(toks) or '-'} opt={bits} scr={SENTINEL}")
    model = common.Driver().batch(lines)
    for (toks, opts, declared, meta), line, ans in zip(cases, lines, model):
        with contextlib.redirect_stdout(io.StringIO()), warnings.catch_warnings():
            warnings.simplefilter("ignore")
            np.random.seed(rng.randint(0, 2 ** 31 - 1))
            s = _mk_sampler(clustering=False, n_particles=4, **({"blobs_dtype": "f8"} if declared else {}))
            r = Real(s.state)
            for t in toks:
                r.exec(t)
            try:
                with np.errstate(all="ignore"):
                    out = s.posterior(**opts)
                names = ["x", "weights", "logl"] + (["blobs"] if len(out) == 4 + int(opts["return_logw"]) else []) + \
                        (["logw"] if opts["return_logw"] else [])
                exact = not (opts["resample"] or opts["trim_importance_weights"])
                res = ",".join(_slot(nm, v, exact) for nm, v in zip(names, out)) if len(names) == len(out) else f"arity:{len(out)}"
            except ValueError:
                out, res = (), "E:value"
            except Exception as e:  # noqa
                out, res = (), f"raised:{type(e).__name__}:{e}"
            d1 = digest(s.state, "-") + "#O=-"
            n_scr = _scribble(out)
            d2 = digest(s.state, "-") + "#O=-"
        impl = f"{res}#{d1}#{d2}"
        c.case((toks, sorted(opts.items()), declared), meta[0] >= 1 and n_scr >= 1)
        c.count("result:" + ("error" if res[:2] == "E:" else "tuple" if res[:2] == "x=" else "other"))
        c.count(f"commits={meta[0]}")
        c.count(f"blobs={meta[1]}{'+declared' if declared else ''}")
        c.count("opts:" + "".join(t for t, k in (("rs", "resample"), ("rb", "return_blobs"), ("tr", "trim_importance_weights"),
                                                 ("rl", "return_logw")) if opts[k]))
        c.count("returned_blobs", int("blobs=" in res))
        c.count("scribbled_outputs", n_scr)
        if impl != ans:
            c.disagree(input=line, impl=impl[:600], model=ans[:600], post_case=[toks, opts, declared])
        c.sample({"ops": ";".join(toks), "opts": opts, "declared": declared, "result": res})
    return c


def correspond_resume(tier):
    """checkpoint -> NEW Sampler -> load_state (real save_sampler_state / load_sampler_state, through a file) against the model's
    `resume` (export; update_from_dict into a newly constructed manager; the defaults loop): every read of the resumed manager,
    before and after the caller overwrites the exported dictionary and what the old manager hands out"""
    import os
    import shutil
    import tempfile
    from .witnesses import _mk_sampler
    n = 120 if tier == "quick" else 1500
    rng = common.rng_for("C17.resume")
    c = Corr("resume-composite", "exact (reference model of load_sampler_state: update_from_dict into a new manager + defaults)")
    cases = []
    for _ in range(n):
        if rng.random() < 0.5:
            toks = gen_post(rng)[0]
        else:
            toks = [t for t in gen_sequence(rng) if t.split(":")[0] not in ("fromd", "mut")][:rng.randint(3, 30)]
        cases.append(toks)
    lines = [f"sm.resume ops={';'.join(t) or '-'} scr={SENTINEL}" for t in cases]
    model = common.Driver().batch(lines)
    d = tempfile.mkdtemp(prefix="c17_resume_")
    try:
        for j, (toks, line, ans) in enumerate(zip(cases, lines, model)):
            with contextlib.redirect_stdout(io.StringIO()), warnings.catch_warnings():
                warnings.simplefilter("ignore")
                s1 = _mk_sampler(clustering=False, n_particles=4)
                r = Real(s1.state)
                for t in toks:
                    r.exec(t)
                path = os.path.join(d, f"ck{j % 4}.state")
                exported = s1.state.to_dict()
                s1.save_state(path)
                s2 = _mk_sampler(clustering=False, n_particles=4)
                s2.load_state(path)
                d1 = digest(s2.state, "-") + "#O=-"
                n_scr = _scribble(exported["_current"]) + _scribble(exported["_history"]) + _scribble(s1.state.get_current())
                d2 = digest(s2.state, "-") + "#O=-"
            impl = f"{d1}#{d2}"
            c.case(toks, r.stats["commit"] >= 1 and n_scr >= 1)
            c.count("commits", r.stats["commit"])
            c.count("defaults_applied", sum(1 for k in ("iter", "calls", "beta", "logz", "steps", "acceptance", "efficiency")
                                            if s1.state.get_current(k) is None))
            if impl != ans:
                c.disagree(input=line, impl=impl[:500], model=ans[:500], resume_ops=toks)
            c.sample({"ops": ";".join(toks), "resumed_digest": d1[:300]})
    finally:
        shutil.rmtree(d, ignore_errors=True)
    return c


def correspond(tier):
    from . import c17_nested
    return [correspond_ops(tier), correspond_sampler(tier), correspond_post(tier), correspond_resume(tier),
            c17_nested.correspond_nested(tier), c17_nested.correspond_blobs(tier)]


# ------------------------------------------------------------------ property oracle on the real code
def _frozen(v):
    """private snapshot: the oracle must not depend on the accessors returning copies"""
    return v.copy() if isinstance(v, np.ndarray) else v


def _state_reads(sm, betas=(1.0,)):
    """all observable reads, as comparable python objects (bitwise); every array is copied by the oracle itself.
    `betas`: arguments with which compute_logw_and_logz is read (the oracle re-reads with the argument the caller used last,
    so that its own reads do not displace whatever an implementation may have memoised for that call)"""
    with warnings.catch_warnings():
        warnings.simplefilter("ignore")
        cur = {k: _frozen(v) for k, v in sm.get_current().items()}
        hist = {k: [_frozen(v) for v in l] for k, l in read_history(sm).items()}
        res = None
        if well_formed(hist):
            try:
                with np.errstate(all="ignore"):
                    sm.compute_results()       # first call may (re)fill the cache; the read that counts is the settled one
            except Exception:  # noqa
                pass
            try:
                with np.errstate(all="ignore"):
                    res = {k: _frozen(v) for k, v in sm.compute_results().items()}
            except Exception as e:  # noqa
                res = {"__error__": type(e).__name__}
        lw = None
        if well_formed(hist):
            lw = {}
            for b in betas:
                try:
                    with np.errstate(all="ignore"):
                        lw[b] = _frozen(np.asarray(sm.compute_logw_and_logz(b)[0]))
                except Exception as e:  # noqa
                    lw[b] = type(e).__name__
    return cur, hist, res, lw


def _cmp_reads(a, b):
    """first difference between two read sets, or None"""
    for k in a[0]:
        if k not in b[0] or not _same(a[0][k], b[0][k]):
            return f"get_current('{k}')"
    for k in a[1]:
        if len(a[1][k]) != len(b[1][k]):
            return f"len(history['{k}'])"
        for i, (x, y) in enumerate(zip(a[1][k], b[1][k])):
            if not _same(x, y):
                return f"get_history('{k}', {i})"
    if (a[2] is None) != (b[2] is None):
        return "compute_results() availability"
    if a[2] is not None:
        for k in a[2]:
            if k not in b[2] or not _same(a[2][k], b[2][k]):
                return f"compute_results()['{k}']"
    if (a[3] is None) != (b[3] is None):
        return "compute_logw_and_logz() availability"
    if a[3] is not None:
        for k in a[3]:
            if not _same(a[3][k], b[3][k]):
                return f"compute_logw_and_logz({k})"
    return None


def oracle(tokens):
    """Property oracle on the real object: (1) a scribble on arrays that were not stored with copy=False changes no observable read
    (this includes every array of a dictionary that was passed to update_from_dict / from_dict), a scribble on an array that was
    stored with copy=False changes no history / results read, and mutating the containers of such a dictionary changes nothing;
    a manager built with from_dict keeps reading the same;
    (2) after every op other than update_from_dict the old history is a bitwise prefix of the new one;
    (3) a successful commit appends exactly one entry per non-None recorded key.
    Returns a description of the first violation, or None."""
    r = Real()
    imp_c = []             # arrays stored by reference into _current on request (set_current/update_current(copy=False))
    isin = lambda a, l: any(a is b for b in l)  # noqa
    betas = (1.0,)
    for j, t in enumerate(tokens):
        f = t.split(":")
        before = _state_reads(r.sm, betas)
        kind = f[0]
        tgt = []
        if kind == "scr" and len(f) == 3 and f[1].isdigit() and int(f[1]) < len(r.recs):
            tgt = r.recs[int(f[1])][0]
        shared_c = any(isin(a, imp_c) for a in tgt)
        held = [a for i in _refs(t) if i < len(r.recs) for a in r.recs[i][0]]
        res = r.exec(t)
        if f[0] == "logw" and res[:2] == "L:":
            betas = (float(int(f[1])),)
            before = before[:3] + (_state_reads(r.sm, betas)[3],)
        after = _state_reads(r.sm, betas)
        if r.others_status() == "BAD":
            return f"op {j} `{t}`: a second manager built with from_dict() reads differently than when it was built"
        # ghost bookkeeping of opt-in sharing: copy=False is the only way to ask for it
        if res != "bad-op" and kind in ("set", "upd") and t.endswith(":0"):
            imp_c += held + r.recs[-1][0]
        if kind == "scr":
            if shared_c:
                # an array shared with _current on request: history and results must still be untouched
                d = _cmp_reads(({}, before[1], before[2], before[3]), ({}, after[1], after[2], after[3]))
                if d:
                    return f"op {j} `{t}`: overwriting an array that was stored with copy=False changed {d}"
                continue
            d = _cmp_reads(before, after)
            if d:
                return f"op {j} `{t}`: overwriting returned arrays changed {d}"
            continue
        if kind == "imp":
            continue
        # append-only
        for k in HIST_KEYS:
            old, new = before[1][k], after[1][k]
            if len(new) < len(old) or not all(_same(x, y) for x, y in zip(old, new)):
                return f"op {j} `{t}`: history['{k}'] is not an extension of what it was"
            grow = len(new) - len(old)
            if kind == "commit" and res == "U":
                want = 1 if before[0].get(k) is not None else 0
                if grow != want:
                    return f"op {j} `{t}`: commit appended {grow} entries to history['{k}'] (current value {'set' if want else 'None'})"
                if want and not _same(new[-1], before[0][k]):
                    return f"op {j} `{t}`: committed batch of '{k}' differs from the current value"
            elif grow != 0:
                return f"op {j} `{t}`: history['{k}'] grew by {grow} without a commit"
        if kind not in ("set", "upd", "commit"):
            d = _cmp_reads(before, after)
            if d:
                return f"op {j} `{t}`: a read-only accessor changed {d}"
    return None


def _refs(tok):
    """(field path, referenced op index) for every op reference inside a token"""
    f = tok.split(":")
    out = []
    if f[0] in ("scr", "imp", "mut", "fromd") and len(f) == 3 and f[1].isdigit():
        out.append(int(f[1]))
    elif f[0] == "set" and len(f) == 4 and f[2][:1] == "H" and f[2][1:].isdigit():
        out.append(int(f[2][1:]))
    elif f[0] == "upd" and len(f) == 3:
        for it in f[1].split(","):
            kv = it.split("~")
            if len(kv) == 2 and kv[1][:1] == "H" and kv[1][1:].isdigit():
                out.append(int(kv[1][1:]))
    return out


def _subst(tok, pos):
    f = tok.split(":")
    m = lambda s: str(pos.get(int(s), int(s)))  # noqa
    if f[0] in ("scr", "imp", "mut", "fromd") and len(f) == 3 and f[1].isdigit():
        f[1] = m(f[1])
    elif f[0] == "set" and len(f) == 4 and f[2][:1] == "H" and f[2][1:].isdigit():
        f[2] = "H" + m(f[2][1:])
    elif f[0] == "upd" and len(f) == 3:
        items = []
        for it in f[1].split(","):
            kv = it.split("~")
            if len(kv) == 2 and kv[1][:1] == "H" and kv[1][1:].isdigit():
                kv[1] = "H" + m(kv[1][1:])
            items.append("~".join(kv))
        f[1] = ",".join(items)
    return ":".join(f)


def _renumber(tokens, keep):
    """the sub-sequence `keep` of tokens with op references renumbered; an op that refers to a dropped op is dropped too"""
    keep = set(keep)
    n = len(tokens)
    changed = True
    while changed:
        changed = False
        for i in sorted(keep):
            if any(r < n and r not in keep for r in _refs(tokens[i])):
                keep.discard(i)
                changed = True
    order = sorted(keep)
    pos = {old: new for new, old in enumerate(order)}
    return [_subst(tokens[i], pos) for i in order]


def shrink(tokens):
    """delta debugging on the op list (op references renumbered), keeping `oracle` failing"""
    cur = list(tokens)
    if oracle(cur) is None:
        return cur
    n = 2
    while len(cur) >= 2:
        chunk = max(1, len(cur) // n)
        reduced = False
        for start in range(0, len(cur), chunk):
            keep = [i for i in range(len(cur)) if not (start <= i < start + chunk)]
            cand = _renumber(cur, keep)
            try:
                bad = cand and oracle(cand) is not None
            except Exception:  # noqa
                bad = False
            if bad:
                cur = cand
                n = max(n - 1, 2)
                reduced = True
                break
        if not reduced:
            if chunk == 1:
                break
            n = min(n * 2, len(cur))
    return cur


def search(tier, hints):
    found = []
    cands = []
    for h in hints:
        if h.get("ops"):
            cands.append(list(h["ops"]))
    cands += [t.split(";") for t in FIXED]
    rng = common.rng_for("C17.search")
    for _ in range(1500 if tier == "quick" else 30000):
        cands.append(gen_sequence(rng))
    seen = set()
    for toks in cands:
        try:
            msg = oracle(toks)
        except Exception as e:  # noqa
            msg = None
        if msg:
            small = shrink(toks)
            key = ";".join(small)
            if key in seen:
                continue
            seen.add(key)
            found.append({"what": oracle(small), "ops": small, "ops_line": key, "original_length": len(toks)})
            if len(found) >= 5:
                break
    if not found:
        # sampler level: the oracle of suite 2 on the real code
        for h in hints:
            if "sampler_seed" in h:
                rng2 = common.rng_for("C17.sampler")
                toks, impl, problems = sampler_run(h["sampler_seed"], 4, rng2)
                if problems:
                    found.append({"what": problems[0], "sampler_seed": h["sampler_seed"], "n_iter": 4})
                    break
    from . import c17_nested
    if not found or any(h.get("nested_ops") for h in hints):
        found += c17_nested.search_nested(tier, hints)
    if not found or any(h.get("blob_case") for h in hints):
        found += c17_nested.search_blobs(hints)
    if not found:
        for h in hints:
            if h.get("post_case"):
                msg = post_oracle(*h["post_case"])
                if msg:
                    found.append({"what": msg, "post_case": h["post_case"]})
                    break
    if not found:
        for h in hints:
            if h.get("resume_ops") is not None:
                msg = resume_oracle(h["resume_ops"])
                if msg:
                    found.append({"what": msg, "resume_ops": h["resume_ops"]})
                    break
    found.sort(key=lambda f: len(f.get("ops", f.get("nested_ops", []))) or 99)
    return found


def resume_oracle(toks):
    """property oracle for resume on the real code: the history restored into a NEW sampler is the committed one, the two
    managers share no memory, and nothing the caller writes into the old manager's outputs reaches the resumed one"""
    import os
    import shutil
    import tempfile
    from .witnesses import _mk_sampler
    from .c17_nested import shared_with_internal
    d = tempfile.mkdtemp(prefix="c17_resume_")
    try:
        with contextlib.redirect_stdout(io.StringIO()), warnings.catch_warnings():
            warnings.simplefilter("ignore")
            s1 = _mk_sampler(clustering=False, n_particles=4)
            r = Real(s1.state)
            for t in toks:
                r.exec(t)
            path = os.path.join(d, "ck.state")
            s1.save_state(path)
            s2 = _mk_sampler(clustering=False, n_particles=4)
            s2.load_state(path)
            h1 = {k: [_frozen(v) for v in l] for k, l in read_history(s1.state).items()}
            h2 = {k: [_frozen(v) for v in l] for k, l in read_history(s2.state).items()}
            for k in HIST_KEYS:
                if len(h1[k]) != len(h2[k]) or not all(_same(x, y) for x, y in zip(h1[k], h2[k])):
                    return f"resume: history['{k}'] of the resumed manager differs from the committed one"
            if shared_with_internal([s1.state._current, s1.state._history], s2.state):
                return "resume: the resumed manager shares arrays with the old one"
            before = _state_reads(s2.state)
            _scribble(s1.state.to_dict()["_history"])
            _scribble(s1.state.get_current())
            s2.state.update_from_dict(ex := s1.state.to_dict())
            mid = _state_reads(s2.state)
            _scribble(ex["_current"])
            _scribble(ex["_history"])
            dd = _cmp_reads(mid, _state_reads(s2.state))
            if dd:
                return f"resume: overwriting an imported dictionary changed {dd} of the resumed manager"
            del before
    finally:
        shutil.rmtree(d, ignore_errors=True)
    return None


def post_oracle(toks, opts, declared):
    """property oracle for posterior() on the real code: overwriting what it returned changes no later read, and an identical
    second call (same random stream) returns the same values"""
    from .witnesses import _mk_sampler
    with contextlib.redirect_stdout(io.StringIO()), warnings.catch_warnings():
        warnings.simplefilter("ignore")
        np.random.seed(7)
        s = _mk_sampler(clustering=False, n_particles=4, **({"blobs_dtype": "f8"} if declared else {}))
        r = Real(s.state)
        for t in toks:
            r.exec(t)
        before = _state_reads(s.state)
        st = np.random.get_state()
        try:
            with np.errstate(all="ignore"):
                out = s.posterior(**opts)
        except Exception:  # noqa
            return None
        mid = _state_reads(s.state)
        d = _cmp_reads(before, mid)
        if d:
            return f"posterior({opts}) changed {d}"
        snap = [np.array(a, copy=True) if a is not None else None for a in out]
        _scribble(out)
        d = _cmp_reads(before, _state_reads(s.state))
        if d:
            return f"overwriting the arrays returned by posterior({opts}) changed {d}"
        np.random.set_state(st)
        with np.errstate(all="ignore"):
            out2 = s.posterior(**opts)
        if len(out2) != len(snap) or not all(_same(np.asarray(x), np.asarray(y)) for x, y in zip(snap, out2)):
            return f"posterior({opts}) differs after the caller overwrote the previous call's output"
    return None


def replay(obj):
    f = obj.get("failing_input", obj)
    if "witness" in f.get("replay", {}):
        from . import witnesses
        return witnesses.ALL[f["replay"]["witness"]]()
    if "ops" in f:
        msg = oracle(list(f["ops"]))
        return {"fails": msg is not None, "detail": msg}
    if "nested_ops" in f:
        from . import c17_nested
        msg = c17_nested.oracle(list(f["nested_ops"]))
        return {"fails": msg is not None, "detail": msg}
    if "record_oracle" in f:
        from . import c17_nested
        msg = c17_nested.record_oracle()
        return {"fails": msg is not None, "detail": msg}
    if "blob_case" in f:
        from . import c17_nested
        kind, sk, seed, n_iter = f["blob_case"]
        problems = c17_nested.blob_run(kind, seed, n_iter, sk)
        return {"fails": bool(problems), "detail": problems[:3]}
    if "post_case" in f:
        msg = post_oracle(*f["post_case"])
        return {"fails": msg is not None, "detail": msg}
    if "resume_ops" in f:
        msg = resume_oracle(list(f["resume_ops"]))
        return {"fails": msg is not None, "detail": msg}
    if "sampler_seed" in f:
        toks, impl, problems = sampler_run(f["sampler_seed"], f.get("n_iter", 4), common.rng_for("C17.sampler"))
        return {"fails": bool(problems), "detail": problems[:3]}
    return {"fails": False, "detail": "nothing to replay"}
