"""Instrumentation for C09: value-level event log of both random streams, per-iteration observables, call-edge profile.

Nothing here edits /repo: attributes of `numpy.random`, of live sampler objects and of classes are replaced for the duration
of a `with` block and restored afterwards.
"""
import contextlib
import inspect
import io
import os
import sys
import warnings

import numpy as np

from . import common

GLOBAL_FUNCS = ["seed", "rand", "randn", "random", "random_sample", "ranf", "sample", "gamma", "choice", "uniform", "normal",
                "randint", "permutation", "shuffle", "standard_normal", "standard_gamma", "exponential", "beta", "binomial",
                "poisson", "standard_t", "multivariate_normal", "bytes", "set_state"]
KIND = {"rand": "U", "random": "U", "random_sample": "U", "ranf": "U", "sample": "U", "randn": "Z", "standard_normal": "Z",
        "gamma": "G"}


def quiet():
    return contextlib.redirect_stdout(io.StringIO())


def _caller_in_repo(depth=2):
    root = os.path.realpath(common.REPO) + os.sep
    f = sys._getframe(depth)
    fn = os.path.realpath(f.f_code.co_filename)
    if fn.startswith(root):
        return os.path.relpath(fn, root), f.f_lineno
    return None, None


class EventLog:
    """events: dicts {tag, n, site, it, [name, args, result]}  tag in S:<k> | R: | U Z G I | pS:<k> | pU … | ?name"""

    def __init__(self, keep_calls=False):
        self.events = []
        self.keep_calls = keep_calls
        self.iteration = -1       # -1 = outside any iteration

    def add(self, tag, n, name=None, args=None, kwargs=None, result=None):
        site = _caller_in_repo(3)
        e = {"tag": tag, "n": int(n), "site": site, "it": self.iteration, "name": name}
        if self.keep_calls:
            e["args"], e["kwargs"] = args, kwargs
            e["result"] = None if result is None else np.array(result, copy=True)
        self.events.append(e)


def rle(events):
    """canonical run-length encoding of the tag sequence (same format as Drv/C09.lean `rle`)"""
    out, cur, cnt = [], None, 0
    for e in events:
        t, n = e["tag"], e["n"]
        if ":" in t:
            if cur is not None:
                out.append(f"{cur}*{cnt}")
                cur, cnt = None, 0
            out.append(t)
            continue
        if n == 0:
            continue
        if t == cur:
            cnt += n
        else:
            if cur is not None:
                out.append(f"{cur}*{cnt}")
            cur, cnt = t, n
    if cur is not None:
        out.append(f"{cur}*{cnt}")
    return ",".join(out) if out else "-"


def _copy_arg(a):
    return np.array(a, copy=True) if isinstance(a, np.ndarray) else a


@contextlib.contextmanager
def trace_events(log):
    """wrap every drawing / seeding attribute of numpy.random and the RandomState constructor"""
    saved = {}
    real_rs = np.random.RandomState

    def mk(name, real):
        def w(*a, **k):
            r = real(*a, **k)
            if name == "seed":
                log.add(f"S:{a[0] if a else k.get('seed')}", 0, name, a, k)
            elif name == "set_state":
                log.add("R:", 0, name)
            elif name == "choice":
                p = k.get("p", a[3] if len(a) > 3 else None)
                log.add("U" if p is not None else "I", np.size(r), name, tuple(_copy_arg(x) for x in a),
                        {kk: _copy_arg(v) for kk, v in k.items()}, r)
            elif name in KIND:
                log.add(KIND[name], np.size(r), name, tuple(_copy_arg(x) for x in a), {kk: _copy_arg(v) for kk, v in k.items()}, r)
            else:
                log.add("?" + name, np.size(r) if r is not None else 1, name, a, k, r)
            return r
        return w

    class LoggedRandomState:
        """stands in for np.random.RandomState: a real private generator whose use is logged"""

        def __init__(self, *a, **k):
            self._r = real_rs(*a, **k)
            log.add(f"pS:{a[0] if a else k.get('seed')}", 0, "RandomState", a, k)

        def __getattr__(self, name):
            real = getattr(self._r, name)
            if not callable(real):
                return real

            def w(*a, **k):
                r = real(*a, **k)
                if name == "seed":
                    log.add(f"pS:{a[0] if a else None}", 0, "p.seed")
                elif name == "choice":
                    p = k.get("p", a[3] if len(a) > 3 else None)
                    log.add("pU" if p is not None else "pI", np.size(r), "p.choice", result=r)
                elif name in KIND:
                    log.add("p" + KIND[name], np.size(r), "p." + name, result=r)
                elif name in ("get_state",):
                    pass
                else:
                    log.add("p?" + name, np.size(r) if r is not None else 1, "p." + name, result=r)
                return r
            return w
    try:
        for n in GLOBAL_FUNCS:
            if hasattr(np.random, n):
                saved[n] = getattr(np.random, n)
                setattr(np.random, n, mk(n, saved[n]))
        saved["RandomState"] = real_rs
        np.random.RandomState = LoggedRandomState
        yield
    finally:
        for n, v in saved.items():
            setattr(np.random, n, v)


class IterObs:
    def __init__(self):
        self.warm = None
        self.n_inf = self.n_fin = 0
        self.discarded = 0
        self.ll_calls = []
        self.refit = False
        self.fits = []
        self.groups = None
        self.pool = None
        self.steps = None
        self.start_state = None
        self.end_state = None

    def token(self):
        def dots(xs):
            return ".".join(str(int(x)) for x in xs) if len(xs) else "-"
        if self.warm:
            return f"w/{self.discarded}/{self.n_inf}/{self.n_fin}"
        return f"a/{int(self.refit)}/{dots(self.fits)}/{dots(self.groups or [])}/{int(self.pool or 0)}/{int(self.steps)}"


def state_key(st=None):
    """hashable snapshot of the process-wide MT19937 state (key vector, position, cached Gaussian)"""
    st = st if st is not None else np.random.get_state()
    return (st[0], st[1].tobytes(), int(st[2]), int(st[3]), float(st[4]))


@contextlib.contextmanager
def observe_iterations(sampler, log, obs_list):
    """per-iteration observables of a live sampler, taken from sources independent of the RNG log"""
    from tempest import cluster as cl
    core = sampler._core
    real_exec = core.execute_iteration
    real_ll = core.mutator.log_likelihood
    clusterer = core.trainer.clusterer
    cur = {"o": None}
    idx = {"i": 0}
    import tempest.steps.train as train_mod
    real_trim = train_mod.trim_weights
    real_gmm_fit = cl.GaussianMixture.fit

    def exec_wrapper(*a, **k):
        o = IterObs()
        cur["o"] = o
        log.iteration = idx["i"]
        o.start_state = state_key()
        try:
            r = real_exec(*a, **k)
        finally:
            log.iteration = -1
        o.end_state = state_key()
        o.warm = bool(sampler.state.get_current("beta") == 0.0)
        o.steps = int(sampler.state.get_current("steps"))
        if o.warm and o.ll_calls:
            # every likelihood call of a warm-up iteration is one prior batch: all but the last were discarded
            o.discarded = len(o.ll_calls) - 1
            o.n_inf, o.n_fin = o.ll_calls[-1]
        obs_list.append(o)
        idx["i"] += 1
        cur["o"] = None
        return r

    def ll_wrapper(x):
        r = real_ll(x)
        o = cur["o"]
        if o is not None and len(o.ll_calls) < 2000:
            logl = np.asarray(r[0])
            ninf = int(np.sum(np.isinf(logl)))
            o.ll_calls.append((ninf, int(len(logl) - ninf)))
        return r

    def trim_wrapper(*a, **k):
        r = real_trim(*a, **k)
        o = cur["o"]
        if o is not None and o.pool is None:
            o.pool = int(len(r[0]))
        return r

    def gmm_fit_wrapper(self, *a, **k):
        o = cur["o"]
        if o is not None and getattr(o, "_in_fit", False):
            o.fits.append(int(self.n_components))
        return real_gmm_fit(self, *a, **k)
    saved_c = {}
    try:
        core.execute_iteration = exec_wrapper
        core.mutator.log_likelihood = ll_wrapper
        train_mod.trim_weights = trim_wrapper
        cl.GaussianMixture.fit = gmm_fit_wrapper
        if clusterer is not None:
            real_fit, real_predict = clusterer.fit, clusterer.predict

            def fit_wrapper(*a, **k):
                o = cur["o"]
                if o is not None:
                    o.refit = True
                    o._in_fit = True
                try:
                    return real_fit(*a, **k)
                finally:
                    if o is not None:
                        o._in_fit = False

            def predict_wrapper(X):
                r = real_predict(X)
                o = cur["o"]
                if o is not None and o.groups is None:
                    o.groups = [int(c) for c in np.unique(np.asarray(r), return_counts=True)[1]]
                return r
            clusterer.fit, clusterer.predict = fit_wrapper, predict_wrapper
            saved_c = {"fit": real_fit, "predict": real_predict}
        yield
    finally:
        with contextlib.suppress(AttributeError):
            delattr(core, "execute_iteration")
        core.mutator.log_likelihood = real_ll
        train_mod.trim_weights = real_trim
        cl.GaussianMixture.fit = real_gmm_fit
        if clusterer is not None and saved_c:
            for name in saved_c:
                with contextlib.suppress(AttributeError):
                    delattr(clusterer, name)


def cfg_args(sampler):
    """the <cfg> tokens of the driver protocol, read from the live objects and the real signatures"""
    from tempest.modes import ModeStatistics
    c = sampler._core.config
    rf1 = inspect.signature(ModeStatistics.from_particles).parameters["resample_factor"].default
    rf2 = inspect.signature(ModeStatistics.from_global).parameters["resample_factor"].default
    rf = rf1 if c.clustering else rf2
    cl = sampler._core.trainer.clusterer
    cinit = int(cl.n_init) if cl is not None else 0
    return (f"N={c.n_particles} D={c.n_dim} tpcn={int(c.sample != 'rwm')} syst={int(c.resample == 'syst')} "
            f"clust={int(bool(c.clustering))} rf={int(rf)} cinit={cinit} cap=1000")


@contextlib.contextmanager
def profile_edges(edge_set, spans):
    """record (nearest package ancestor id, callee id) for every call of a package function"""
    root = os.path.realpath(common.REPO) + os.sep
    by_file = {}
    for rel, lo, hi, fid in spans:
        by_file.setdefault(rel, []).append((lo, hi, fid))
    cache = {}

    def fid_of(code):
        k = code
        if k in cache:
            return cache[k]
        fn = os.path.realpath(code.co_filename)
        res = None
        if fn.startswith(root):
            rel = os.path.relpath(fn, root)
            best = None
            for lo, hi, fid in by_file.get(rel, []):
                if lo <= code.co_firstlineno <= hi and (best is None or hi - lo < best[0]):
                    best = (hi - lo, fid)
            # nested defs / lambdas / comprehensions are not in `spans`: they fall to the innermost enclosing function
            if best is not None:
                res = best[1]
            else:
                res = ("module", rel)
        cache[k] = res
        return res

    def prof(frame, event, arg):
        if event != "call":
            return
        callee = fid_of(frame.f_code)
        if callee is None or isinstance(callee, tuple):
            return
        f = frame.f_back
        while f is not None:
            c = fid_of(f.f_code)
            if c is not None:
                if not isinstance(c, tuple) and c != callee:
                    edge_set.add((c, callee))
                elif isinstance(c, tuple):
                    edge_set.add((c, callee))
                break
            f = f.f_back
    old = sys.getprofile()
    sys.setprofile(prof)
    try:
        yield
    finally:
        sys.setprofile(old)


def run_quiet(fn):
    with quiet(), warnings.catch_warnings():
        warnings.simplefilter("ignore")
        return fn()
