"""C16, second pass — whole calls of apply_boundary_conditions / check_bounds in every accepted argument form
(suites pycall-Q / pycall-F / pycall-S), the float32 property oracle (property-S) and the call site in
BaseMCMCRunner.run after fix 9001dc4 (suites callsite-rwm / callsite-tpcn).

Model side: Model/BoundaryPy.lean (`applyPy`, `checkPy`, `proposeAll`) through the driver commands
`c16py.{Q,F,S}` and `c16site.{Q,F}`; Props/C16Py.lean proves that these are the core `apply` / `checkBounds`."""
import math
import struct
import warnings
from fractions import Fraction

import numpy as np

from . import common
from .common import Corr, f2hex, hex2f, frac2s, flist


# ------------------------------------------------------------------ encodings
def f32hex(x):
    return "%08x" % struct.unpack("<I", struct.pack("<f", float(x)))[0]


def hex2f32(h):
    return np.float32(struct.unpack("<f", struct.pack("<I", int(h, 16)))[0])


def enc_opt(idx):
    return "None" if idx is None else flist(idx, str)


def enc_rows(rows, enc):
    rows = [list(r) for r in rows]
    return "!" if not rows else ";".join(flist(r, enc) for r in rows)


def enc_res(res):
    """check_bounds result -> 's1' / 'v101' (kind matters: scalar for 1-D input, one flag per row for 2-D)"""
    if np.ndim(res) == 0:
        return "s" + ("1" if bool(res) else "0")
    a = np.asarray(res)
    if a.ndim != 1 or a.dtype != np.bool_:
        return f"?{a.dtype}{a.shape}"
    return "v" + "".join("1" if b else "0" for b in a.tolist())


# ------------------------------------------------------------------ argument forms
def idx_form(rng, idx):
    """the same index set in one of the forms the functions accept; returns (object, tag)"""
    if idx is None:
        return None, "None"
    forms = ["list", "list", "tuple", "int64", "int32", "uint8", "intp_readonly"]
    if not idx:
        forms += ["empty_float64", "empty_float64", "empty_int"]
    elif idx == list(range(idx[0], idx[0] + len(idx))):
        forms.append("range")
    f = rng.choice(forms)
    if f == "list":
        return list(idx), f
    if f == "tuple":
        return tuple(idx), f
    if f == "int64":
        return np.array(idx, dtype=np.int64), f
    if f == "int32":
        return np.array(idx, dtype=np.int32), f
    if f == "uint8":
        return np.array(idx, dtype=np.uint8), f
    if f == "intp_readonly":
        a = np.array(idx, dtype=np.intp)
        a.flags.writeable = False
        return a, f
    if f == "empty_float64":
        return np.array([]), f          # what `np.array([])` gives: dtype float64, no element
    if f == "empty_int":
        return np.array([], dtype=int), f
    return range(idx[0], idx[0] + len(idx)), f


def arr_form(rng, rows, nd, dtype):
    """the same values as a numpy array in one of several layouts; returns (array, tag)"""
    base = np.array(rows[0] if nd == 1 else rows, dtype=dtype)
    if nd == 2 and base.ndim == 1:      # zero rows
        base = base.reshape(0, 0)
    forms = ["c", "c", "strided", "readonly"] + (["fortran", "transposed_view"] if nd == 2 else [])
    f = rng.choice(forms)
    if f == "c":
        return base, f
    if f == "readonly":
        base.flags.writeable = False
        return base, f
    if f == "fortran":
        return np.asfortranarray(base), f
    if f == "transposed_view":
        t = np.ascontiguousarray(base.T)
        return t.T, f
    # strided: every second element of a larger buffer along the last axis
    big = np.zeros(base.shape[:-1] + (2 * base.shape[-1],), dtype=dtype)
    big[..., ::2] = base
    big[..., 1::2] = 7.5
    return big[..., ::2], f


def call_real(per, refl, a):
    from tempest.mcmc import apply_boundary_conditions, check_bounds
    with warnings.catch_warnings():
        warnings.simplefilter("ignore")
        v = apply_boundary_conditions(a, per, refl)
        cb0 = check_bounds(a, per, refl)
        cb1 = check_bounds(v, per, refl)
    return v, cb0, cb1


# ------------------------------------------------------------------ float32 values
F32_ADV = None


def f32_adversarial():
    global F32_ADV
    if F32_ADV is None:
        f = np.float32
        xs = [f(0.0), f(-0.0), f(1e-45), f(-1e-45), f(1.17549435e-38), f(-1.17549435e-38), f(0.5), f(-0.5), f(1.0), f(-1.0)]
        for k in range(-4, 5):
            xs += [f(k), np.nextafter(f(k), f(np.inf)), np.nextafter(f(k), f(-np.inf)), f(k + 0.5), f(k + 0.25)]
        for e in (22, 23, 24, 25, 31, 32, 62, 63, 64, 100, 127):
            b = f(2.0 ** e)
            xs += [b, -b, np.nextafter(b, f(0.0)), -np.nextafter(b, f(0.0)), np.nextafter(b, f(np.inf))]
        xs += [f(2.0 ** 23 + 1), f(-(2.0 ** 23 + 1)), f(2.0 ** 24 - 1), f(2.0 ** 24 + 2), f(2.0 ** 23 - 0.5), f(-(2.0 ** 22 + 0.5))]
        # tiny negatives: x % 1.0 == 1.0 exactly in binary32
        xs += [f(-2.0 ** -30), f(-2.0 ** -25), f(-1e-10), f(-1e-30), f(-1e-40)]
        xs += [f(3.4028235e38), f(-3.4028235e38), f(1e30), f(-1e30), f(3.0000002), f(1.9999999)]
        F32_ADV = [x for x in xs if np.isfinite(x)]
    return F32_ADV


def rand_f32(rng, rand_double):
    k = rng.random()
    if k < 0.45:
        return rng.choice(f32_adversarial())
    if k < 0.6:
        n = np.float32(rng.randint(-2 ** 20, 2 ** 20))
        return np.nextafter(n, np.float32(rng.choice([np.inf, -np.inf])))
    while True:
        with warnings.catch_warnings():
            warnings.simplefilter("ignore")
            x = np.float32(rand_double(rng))
        if np.isfinite(x):
            return x


# ------------------------------------------------------------------ whole-call suites
def special_tags(c, per, refl, rows):
    """histogram of the designated-coordinate values the assignment names"""
    des = set(per or []) | set(refl or [])
    for row in rows:
        for i, x in enumerate(row):
            if i not in des:
                continue
            x = float(x)
            if x == 0.0 and math.copysign(1.0, x) < 0:
                c.count("des_negative_zero")
            if x == 1.0 - 2.0 ** -53:
                c.count("des_1_minus_2^-53")
            if abs(x) >= 2.0 ** 53 and x == math.floor(x):
                c.count("des_huge_even_integer")       # every double >= 2^53 is an even integer
                if abs(x) >= 2.0 ** 63:
                    c.count("des_beyond_int64")
            elif abs(x) >= 2.0 ** 30 and x == math.floor(x) and math.fmod(x, 2.0) != 0:
                c.count("des_huge_odd_integer")


def pycall_suites(tier, gens):
    """gens: dict with rand_double, rand_dyadic, subsets (from c16.py)"""
    n = {"quick": 900, "thorough": 20000}[tier]
    drv = common.Driver()
    out = []
    for regime in ("Q", "F", "S"):
        rng = common.rng_for("C16.pycall." + regime)
        c = Corr(f"pycall-{regime}", {"Q": "exact-dyadic (Rat model), whole calls", "F": "bit-exact (Float model), whole calls",
                                       "S": "bit-exact (Float32 model; Float model if the code upcasts), whole calls"}[regime])
        lines, alt_lines, cases = [], [], []
        for _ in range(n if regime != "S" else max(300, n // 2)):
            d = rng.randint(1, 5)
            k = rng.random()
            if k < 0.35:
                nd, nrows = 1, 1
            elif k < 0.55:
                nd, nrows = 2, 1            # n_walkers = 1
            elif k < 0.6:
                nd, nrows = 2, 0            # no walker at all: shape (0, d)
            else:
                nd, nrows = 2, rng.randint(2, 4)
            per, refl = gens["subsets"](rng, d)
            if regime == "Q":
                pts = [[gens["rand_dyadic"](rng) for _ in range(d)] for _ in range(nrows)]
                fl = [[float(x) for x in row] for row in pts]
                enc, dtype = frac2s, np.float64
            elif regime == "F":
                fl = [[gens["rand_double"](rng) for _ in range(d)] for _ in range(nrows)]
                pts, enc, dtype = fl, f2hex, np.float64
            else:
                fl = [[rand_f32(rng, gens["rand_double"]) for _ in range(d)] for _ in range(nrows)]
                pts, enc, dtype = fl, f32hex, np.float32
            per_o, ptag = idx_form(rng, per)
            refl_o, rtag = idx_form(rng, refl)
            if nrows == 0:
                a = np.zeros((0, d), dtype=dtype)
                atag = "zero_rows"
            else:
                a, atag = arr_form(rng, fl, nd, dtype)
            a_before = a.copy()
            line = f"c16py.{regime} per={enc_opt(per)} refl={enc_opt(refl)} nd={nd} ncols={d} u={enc_rows(pts, enc)}"
            try:
                v, cb0, cb1 = call_real(per_o, refl_o, a)
            except Exception as ex:  # the model runs on every such input: a raise is a disagreement (and a hint for the search)
                c.case((line, ptag, rtag, atag), True)
                c.disagree(input=f"{line} [periodic as {ptag}, reflective as {rtag}, u {atag}]",
                           impl=f"raised {type(ex).__name__}: {ex}", model="runs", per=per, refl=refl,
                           point=[float(x) for x in fl[0]] if fl else [], rows=[[float(x) for x in r] for r in fl], nd=nd,
                           f32=(regime == "S"))
                if c.stats.get("disagreements", 0) >= 20:
                    break
                continue
            lines.append(line)
            if regime == "S":
                alt_lines.append(f"c16py.F per={enc_opt(per)} refl={enc_opt(refl)} nd={nd} ncols={d} "
                                 f"u={enc_rows([[float(x) for x in r] for r in fl], f2hex)}")
            cases.append((per, refl, fl, nd, d, a_before.shape, a_before.dtype, v, cb0, cb1))
            nontriv = any(not (0 <= float(x) < 1) for row in fl for i, x in enumerate(row)
                          if i in (set(per or []) | set(refl or [])))
            c.case((enc_opt(per), enc_opt(refl), nd, enc_rows(pts, enc), ptag, rtag, atag), nontriv)
            c.count(f"per_as_{ptag}")
            c.count(f"refl_as_{rtag}")
            c.count(f"u_{atag}")
            c.count(f"nd={nd}")
            if nd == 2:
                c.count(f"rows={nrows}")
            if set(range(d)) <= set(per or []) | set(refl or []):
                c.count("all_special_2d_early_exit" if nd == 2 else "all_special_1d_early_exit")
            special_tags(c, per, refl, fl)
        res = drv.batch(lines)
        alt = drv.batch(alt_lines) if alt_lines else [None] * len(lines)
        for (per, refl, fl, nd, d, shape, dtype, v, cb0, cb1), line, ans, ans64 in zip(cases, lines, res, alt):
            v = np.asarray(v)
            model, enc = ans, (frac2s_f if regime == "Q" else f2hex if regime == "F" else f32hex)
            if regime == "S" and v.dtype == np.float64:
                model, enc = ans64, f2hex          # the code computes in binary64: compare with the Float model
                c.count("float32_upcast_by_the_code")
            elif regime == "S":
                c.count("float32_kept")
            rows = [v.tolist()] if v.ndim == 1 else v.tolist()
            if v.ndim == 1:
                impl_arr = "1:" + flist(v.tolist(), enc)
            else:
                impl_arr = f"2:{d}:" + enc_rows(v.tolist(), enc)
            impl = f"{impl_arr} {enc_res(cb0)} {enc_res(cb1)}"
            shape_ok = v.shape == shape and (v.dtype == dtype or (regime == "S" and v.dtype == np.float64))
            if impl != model or not shape_ok:
                c.disagree(input=line, impl=impl if shape_ok else f"{impl} shape={v.shape} dtype={v.dtype}", model=model,
                           point=[float(x) for x in fl[0]] if fl else [], per=per, refl=refl,
                           rows=[[float(x) for x in r] for r in fl], nd=nd, f32=(regime == "S"))
            c.sample({"op": line, "impl": impl, "model": model})
        out.append(c)
    return out


def frac2s_f(x):
    return frac2s(Fraction(x))


# ------------------------------------------------------------------ call site (BaseMCMCRunner.run, fix 9001dc4)
def _site_gen(rng, gens, kind, regime):
    d = rng.randint(1, 4)
    n = rng.choice([1, 1, 2, 3, 4])
    per, refl = gens["subsets"](rng, d)
    # SamplerConfig never lets an index be in both lists or repeated; the functions accept it, so keep a few
    if regime == "Q":
        cur = [[Fraction(rng.randint(0, 256), 256) for _ in range(d)] for _ in range(n)]
    else:
        cur = [[rng.choice([0.0, 1.0, 1.0 - 2.0 ** -53, 2.0 ** -1074, 0.5]) if rng.random() < 0.2 else rng.random()
                for _ in range(d)] for _ in range(n)]
    des = set(per or []) | set(refl or [])
    zs = []
    for _ in range(n):
        z = []
        for i in range(d):
            k = rng.random()
            if regime == "Q":
                q = gens["rand_dyadic"](rng)
                if i not in des and k < 0.6:
                    q = Fraction(rng.randint(-300, 300), 256)      # strict coordinate: around the cube, faces included
                z.append(q)
            else:
                if i not in des and k < 0.55:
                    z.append(rng.uniform(-1.2, 1.2))
                elif k < 0.75:
                    x = gens["rand_double"](rng)
                    z.append(x if abs(x) < 1e15 else rng.uniform(-3, 3))
                else:
                    z.append(float(rng.randint(-5, 5)) - rng.choice([0.0, 2.0 ** -40, 0.5]))
        zs.append(z)
    return dict(kind=kind, d=d, n=n, per=per, refl=refl, cur=[[float(x) for x in r] for r in cur],
                zs=[[float(x) for x in r] for r in zs])


def site_run(case, forms_rng=None):
    """run ONE iteration of the real runner with the normal draws of the tape; returns what was observed"""
    import tempest.mcmc as M
    from tempest.modes import ModeStatistics
    d, n, kind = case["d"], case["n"], case["kind"]
    per, refl = case["per"], case["refl"]
    if forms_rng is not None:
        per_o, _ = idx_form(forms_rng, per)
        refl_o, _ = idx_form(forms_rng, refl)
    else:
        per_o, refl_o = per, refl
    cur = np.array(case["cur"], dtype=float).reshape(n, d)
    if kind == "rwm":
        ms = ModeStatistics(np.full((1, d), 0.5), np.eye(d).reshape(1, d, d), np.array([2.0]))
    else:
        ms = ModeStatistics(np.full((1, d), 0.5), (0.25 * np.eye(d)).reshape(1, d, d), np.array([2.0]))
    seen = {"pt": [], "apply": [], "check": []}

    def prior_transform(u):
        seen["pt"].append(np.array(u, dtype=float, copy=True))
        return np.array(u, dtype=float, copy=True)

    def log_likelihood(x):
        return np.zeros(len(np.atleast_2d(x))), None

    x0 = cur.copy()
    sig = 1.0 if kind == "rwm" else 0.5
    zq = [np.array(z, dtype=float) for z in case["zs"]]
    orig_apply, orig_check = M.apply_boundary_conditions, M.check_bounds

    def spy_apply(u, *a, **kw):
        arg = np.array(u, dtype=float, copy=True)
        out = orig_apply(u, *a, **kw)
        seen["apply"].append((arg, np.array(out, dtype=float, copy=True)))
        return out

    def spy_check(u, *a, **kw):
        arg = np.array(u, dtype=float, copy=True)
        out = orig_check(u, *a, **kw)
        seen["check"].append((arg, np.array(np.atleast_1d(out), copy=True)))
        return out

    def randn(m):
        return zq.pop(0)

    with warnings.catch_warnings():
        warnings.simplefilter("ignore")
        with common.patched(np.random, "randn", randn), common.patched(np.random, "gamma", lambda shape, scale: 1.0), \
                common.patched(np.random, "rand", lambda m: np.zeros(m)), \
                common.patched(M, "apply_boundary_conditions", spy_apply), common.patched(M, "check_bounds", spy_check), \
                common.patched(M.BaseMCMCRunner, "_check_convergence", lambda self, a: True), \
                common.patched(M.RWMRunner, "_initialize_sigmas", lambda self: np.ones(self.n_clusters) * sig), \
                common.patched(M.TPCNRunner, "_initialize_sigmas", lambda self: np.ones(self.n_clusters) * sig):
            # entered exactly as Mutator.run does (steps/mutate.py:179-196): through parallel_mcmc, so that the dispatch on
            # `sample` and the hand-over of (periodic, reflective) down to the runner are part of what is observed
            out = M.parallel_mcmc(u=cur, x=x0, logl=np.zeros(n), blobs=None, assignments=np.zeros(n, dtype=int), beta=1.0,
                                  mode_stats=ms, log_likelihood=log_likelihood, prior_transform=prior_transform,
                                  progress_bar=None, n_steps=1, n_max=1, sample=kind, periodic=per_o, reflective=refl_o,
                                  verbose=False)
    raws, folded = [], []
    for arg, res in seen["apply"]:
        for r, f in zip(np.atleast_2d(arg), np.atleast_2d(res)):
            raws.append(r)
            folded.append(f)
    return dict(raws=raws, folded=folded, pt=seen["pt"], check=seen["check"], new_u=np.array(out[0], dtype=float), cur=cur,
                orig_apply=orig_apply, orig_check=orig_check, per_o=per_o, refl_o=refl_o)


def site_oracle(case):
    """the call-site reading of the property on the REAL code (exact; cannot fire on correct code):
    every point handed to prior_transform lies in [0,1]^d and is, bit for bit, either the fold of the walker's raw
    proposal or the walker's current position; a walker whose folded proposal fails check_bounds does not move."""
    o = site_run(case)
    n, d = case["n"], case["d"]
    if len(o["raws"]) != n or len(o["pt"]) != n:
        return f"observed {len(o['raws'])} raw proposals and {len(o['pt'])} prior_transform calls for {n} walkers"
    if not all(np.all(np.isfinite(r)) for r in o["raws"]):
        return None
    for k in range(n):
        raw, cur, got = o["raws"][k], o["cur"][k], o["pt"][k]
        with warnings.catch_warnings():
            warnings.simplefilter("ignore")
            fold = o["orig_apply"](raw.copy(), o["per_o"], o["refl_o"])
            ok = bool(o["orig_check"](fold, o["per_o"], o["refl_o"]))
        hexes = [f2hex(x) for x in got]
        if not all(0.0 <= x <= 1.0 for x in got.tolist()):
            return f"walker {k}: prior_transform evaluated outside the cube at {got.tolist()!r} (raw proposal {raw.tolist()!r})"
        want = fold if ok else cur
        if hexes != [f2hex(x) for x in want]:
            return (f"walker {k}: evaluated at {got.tolist()!r}, expected the "
                    f"{'folded proposal' if ok else 'current position (proposal rejected by check_bounds)'} {want.tolist()!r}")
        if not ok and [f2hex(x) for x in o["new_u"][k]] != [f2hex(x) for x in cur]:
            return f"walker {k}: proposal outside the cube ({fold.tolist()!r}) but the walker moved to {o['new_u'][k].tolist()!r}"
        if [f2hex(x) for x in o["new_u"][k]] not in ([f2hex(x) for x in cur], [f2hex(x) for x in fold]):
            return f"walker {k}: new position {o['new_u'][k].tolist()!r} is neither the folded proposal nor the current position"
    return None


def callsite_suites(tier, gens):
    n = {"quick": 250, "thorough": 4000}[tier]
    drv = common.Driver()
    out = []
    for kind in ("rwm", "tpcn"):
        c = Corr(f"callsite-{kind}", "real runner, one iteration; recorded raw proposals -> model proposeAll "
                                     "(Q: exact-dyadic for rwm; F: bit-exact)")
        for regime in (("Q", "F") if kind == "rwm" else ("F",)):
            rng = common.rng_for(f"C16.site.{kind}.{regime}")
            frng = common.rng_for(f"C16.site.forms.{kind}.{regime}")
            lines, obs = [], []
            for _ in range(n):
                case = _site_gen(rng, gens, kind, regime)
                d, nw = case["d"], case["n"]
                try:
                    o = site_run(case, forms_rng=frng)
                except Exception as ex:  # the real runner raised on a legal state: a disagreement with the model, which runs
                    c.case(("raised", case["kind"], case["cur"], case["zs"]), True)
                    c.disagree(input=str(case), impl=f"real runner raised {type(ex).__name__}: {ex}", model="runs", site=case)
                    if c.stats.get("disagreements", 0) >= 20:
                        break
                    continue
                if len(o["raws"]) != nw or len(o["pt"]) != nw or sum(len(f) for _, f in o["check"]) != nw:
                    c.case(("shape", case["kind"], case["cur"], case["zs"]), True)
                    c.disagree(input=str(case), impl=f"{len(o['raws'])} folds, {len(o['pt'])} prior_transform calls, "
                               f"{sum(len(f) for _, f in o['check'])} in_bounds flags", model=f"{nw} folds, {nw} evaluations, {nw} flags",
                               site=case)
                    continue
                if not all(np.all(np.isfinite(r)) for r in o["raws"]):
                    c.count("nonfinite_raw_skipped")
                    continue
                if regime == "Q":
                    # the raw proposals must be exact small dyadics for the Rat model to be comparable
                    fr = [[Fraction(float(x)) for x in r] for r in o["raws"]]
                    if any(q.denominator > 2 ** 30 or abs(q) > 2 ** 40 for r in fr for q in r):
                        c.count("inexact_raw_skipped")
                        continue
                    enc = frac2s_f
                else:
                    enc = f2hex
                lines.append(f"c16site.{regime} per={enc_opt(case['per'])} refl={enc_opt(case['refl'])} ncols={d} "
                             f"cur={enc_rows(o['cur'].tolist(), enc)} raws={enc_rows([r.tolist() for r in o['raws']], enc)}")
                obs.append((case, o, enc))
            res = drv.batch(lines)
            for (case, o, enc), line, ans in zip(obs, lines, res):
                flags = np.concatenate([f for _, f in o["check"]])
                checked = np.vstack([np.atleast_2d(a) for a, _ in o["check"]])
                impl = f"{enc_rows([p.tolist() for p in o['pt']], enc)} " + "".join("1" if b else "0" for b in flags.tolist())
                moved_ok = all(
                    [f2hex(x) for x in o["new_u"][k]] in ([f2hex(x) for x in o["cur"][k]], [f2hex(x) for x in o["pt"][k]])
                    and (bool(flags[k]) or [f2hex(x) for x in o["new_u"][k]] == [f2hex(x) for x in o["cur"][k]])
                    for k in range(case["n"]))
                # RWM with a flat likelihood and u_rand = 0: every in-bounds proposal is accepted (alpha = 1 > 0)
                if case["kind"] == "rwm":
                    moved_ok = moved_ok and all([f2hex(x) for x in o["new_u"][k]] == [f2hex(x) for x in o["pt"][k]]
                                                for k in range(case["n"]))
                # the 2-D check is made on the folded proposals
                rows_ok = [[f2hex(x) for x in r] for r in checked] == [[f2hex(x) for x in r] for r in o["folded"]]
                c.count("one_2d_check_call" if len(o["check"]) == 1 and o["check"][0][0].ndim == 2 else "other_check_call_pattern")
                rej = int((~flags).sum())
                c.case((line,), rej > 0 or any(not (0 <= x < 1) for r in o["raws"] for x in r.tolist()))
                c.count("walkers", case["n"])
                c.count("rejected_out_of_cube", rej)
                c.count("n_walkers=1" if case["n"] == 1 else "n_walkers>1")
                c.count(f"regime_{enc.__name__}")
                if set(range(case["d"])) <= set(case["per"] or []) | set(case["refl"] or []):
                    c.count("all_special_early_exit")
                if impl != ans or not moved_ok or not rows_ok:
                    c.disagree(input=line, impl=impl + ("" if moved_ok else " [walker moved although rejected / to a third point]")
                               + ("" if rows_ok else " [check_bounds not applied to the folded proposals]"),
                               model=ans, site=case)
                c.sample({"op": line, "impl": impl, "model": ans})
        out.append(c)
    return out


# ------------------------------------------------------------------ the harness ASSUMPTION, checked on the real code every run
def _gen_cfg_indices(rng, d):
    def lst():
        if rng.random() < 0.15:
            return None
        out = []
        for _ in range(rng.randint(0, 3)):
            k = rng.random()
            if k < 0.6:
                out.append(rng.randrange(d))
            elif k < 0.7:
                out.append(-rng.randint(1, d))            # negative: numpy would count from the end
            elif k < 0.8:
                out.append(d + rng.randint(0, 3))          # out of range
            elif k < 0.87:
                out.append(np.int64(rng.randrange(d)))     # a numpy integer (valid as an index)
            elif k < 0.94:
                out.append(float(rng.randrange(d)))        # a float: not an index
            else:
                out.append(rng.choice([True, False]))      # a bool: numpy would read u[..., True] as a MASK (fixed in b8d82fc)
        return tuple(out) if rng.random() < 0.3 else out
    return lst(), lst()


def indices_valid(d, per, refl):
    import operator
    seen = []
    for l in (per, refl):
        s = set()
        for i in (l or []):
            if isinstance(i, (bool, np.bool_)):
                return False
            try:
                j = operator.index(i)
            except TypeError:
                return False
            if not 0 <= j < d:
                return False
            s.add(j)
        seen.append(s)
    return not (seen[0] & seen[1])


def config_accepts(d, per, refl):
    from tempest.config import SamplerConfig
    f = lambda u: u  # noqa
    try:
        SamplerConfig(prior_transform=f, log_likelihood=f, n_dim=d, periodic=per, reflective=refl)
        return True
    except (ValueError, TypeError):
        return False


def validation_suite(tier):
    c = Corr("index-validation", "real SamplerConfig: every accepted (periodic, reflective) is a pair of disjoint lists of valid indices "
                                 "(the ASSUMPTION under which index lists are modelled as List Nat)")
    rng = common.rng_for("C16.cfg")
    for _ in range(400 if tier == "quick" else 5000):
        d = rng.randint(1, 5)
        per, refl = _gen_cfg_indices(rng, d)
        acc = config_accepts(d, per, refl)
        val = indices_valid(d, per, refl)
        c.case((d, repr(per), repr(refl)), not val)
        c.count(("accepted" if acc else "rejected") + ("_valid" if val else "_invalid"))
        if any(isinstance(i, bool) for l in (per, refl) for i in (l or [])):
            c.count("bool_index_" + ("accepted" if acc else "rejected"))
        if acc and not val:
            c.disagree(input=f"n_dim={d} periodic={per!r} reflective={refl!r}", impl="accepted by SamplerConfig",
                       model="invalid index list (negative / out of range / not an integer / in both lists)",
                       cfg={"d": d, "per": _plain(per), "refl": _plain(refl)})
    return c


def _plain(l):
    """JSON-able copy that keeps bools bools and floats floats"""
    if l is None:
        return None
    return [x if isinstance(x, (bool, float)) else int(x) for x in l]


def config_oracle(cfg, oracle):
    """a config the sampler accepts whose index lists break the property of the two functions on some point"""
    d, per, refl = cfg["d"], cfg["per"], cfg["refl"]
    if not config_accepts(d, per, refl):
        return None
    if any(isinstance(i, bool) for l in (per, refl) for i in (l or [])):
        # the functions get the lists as they are (the harness' _impl would turn True into the integer 1)
        from tempest.mcmc import apply_boundary_conditions
        u = np.array([1.5 + i for i in range(d)])
        as_int = lambda l: None if l is None else [int(i) for i in l]  # noqa
        try:
            got = apply_boundary_conditions(u, per, refl)
            want = apply_boundary_conditions(u, as_int(per), as_int(refl))
        except Exception as e:  # noqa
            return f"SamplerConfig accepts periodic={per!r} reflective={refl!r} (n_dim={d}); apply_boundary_conditions raised {type(e).__name__}: {e}"
        if [f2hex(x) for x in got] != [f2hex(x) for x in want]:
            return (f"SamplerConfig accepts the bool index list periodic={per!r} reflective={refl!r} (n_dim={d}); on u={u.tolist()!r} "
                    f"numpy reads it as a mask: result {got.tolist()!r}, with the integer indices {want.tolist()!r}")
        return None
    for pt in ([1.5] * d, [-0.25] * d, [0.5] * d, [2.75 + i for i in range(d)]):
        try:
            msg = oracle(per, refl, pt)
        except Exception as e:  # noqa
            msg = f"raised {type(e).__name__}: {e}"
        if msg:
            return f"SamplerConfig accepts periodic={per!r} reflective={refl!r} (n_dim={d}); on u={pt!r}: {msg}"
    return None


# ------------------------------------------------------------------ call SEQUENCES: the two functions are functions of their arguments
# (seeded change C16f: a module-level memo keyed by the IDENTITY of the index containers went stale when a container was
#  changed in place between calls).  Two index containers A, B (list or int64 ndarray) live through a whole sequence, are
#  mutated in place between calls (item assignment, append / pop, slice assignment, clear), swap roles, are passed with a
#  different n_dim, alternate with None and with fresh copies.  Every single call is judged on its own against the contents the
#  containers have AT THAT CALL: (a) model-free, by the exact fold / bounds reference; (b) bit for bit against the Float model.
def seq_gen(rng, rand_double):
    d = rng.randint(2, 5)
    kinds = {k: rng.choice(["list", "list", "array"]) for k in "AB"}
    init = {k: sorted(rng.sample(range(d), rng.randint(1, min(3, d)))) for k in "AB"}
    length = dict((k, len(v)) for k, v in init.items())
    steps = []
    for _ in range(rng.randint(3, 8)):
        ops = []
        for k in "AB":
            r = rng.random()
            if r < 0.45 and length[k] > 0:
                ops.append(["set", k, rng.randrange(length[k]), rng.randrange(d)])
            elif r < 0.6:
                ops.append(["fill", k, [rng.randrange(d) for _ in range(length[k])]])      # slice assignment c[:] = ...
            elif r < 0.7 and kinds[k] == "list":
                ops.append(["append", k, rng.randrange(d)])
                length[k] += 1
            elif r < 0.77 and kinds[k] == "list" and length[k] > 0:
                ops.append(["pop", k])
                length[k] -= 1
            elif r < 0.8 and kinds[k] == "list":
                ops.append(["clear", k])
                length[k] = 0
        slots = rng.choice([("A", "B"), ("A", "B"), ("A", "B"), ("B", "A"), ("A", None), (None, "A"), ("B", None), (None, "B"),
                            ("A", "A"), ("copyA", "B"), ("A", "copyB"), (None, None)])
        dd = d + (1 if rng.random() < 0.2 else 0)                  # the same objects with another n_dim
        nd = 1 if rng.random() < 0.6 else 2
        rows = [[rng.uniform(-6, 6) if rng.random() < 0.7 else rand_double(rng) for _ in range(dd)]
                for _ in range(1 if nd == 1 else rng.randint(1, 3))]
        steps.append({"ops": ops, "per": slots[0], "refl": slots[1], "fn": rng.choice(["apply", "apply", "check", "both"]),
                      "nd": nd, "u": [[f2hex(x) for x in r] for r in rows]})
    return {"d": d, "kinds": kinds, "init": init, "steps": steps}


def seq_run(seq):
    """execute the sequence on the REAL functions; returns per step (per_snapshot, refl_snapshot, a, v or None, cb or None)"""
    from tempest.mcmc import apply_boundary_conditions, check_bounds
    box = {k: (list(seq["init"][k]) if seq["kinds"][k] == "list" else np.array(seq["init"][k], dtype=np.int64)) for k in "AB"}
    out = []
    for st in seq["steps"]:
        for op in st["ops"]:
            c = box[op[1]]
            if op[0] == "set":
                c[op[2]] = op[3]
            elif op[0] == "fill":
                c[:] = op[2]
            elif op[0] == "append":
                c.append(op[2])
            elif op[0] == "pop":
                c.pop()
            elif op[0] == "clear":
                del c[:]

        def slot(s):
            if s is None:
                return None
            if s.startswith("copy"):
                c = box[s[4:]]
                return list(c) if isinstance(c, list) else c.copy()
            return box[s]
        per, refl = slot(st["per"]), slot(st["refl"])
        p_snap = None if per is None else [int(i) for i in per]
        r_snap = None if refl is None else [int(i) for i in refl]
        rows = [[hex2f(h) for h in r] for r in st["u"]]
        a = np.array(rows[0] if st["nd"] == 1 else rows, dtype=float)
        v = cb = None
        with warnings.catch_warnings():
            warnings.simplefilter("ignore")
            if st["fn"] in ("apply", "both"):
                v = apply_boundary_conditions(a.copy(), per, refl)
            if st["fn"] in ("check", "both"):
                cb = check_bounds(a.copy(), per, refl)
        out.append((p_snap, r_snap, a, v, cb))
    return out


def seq_judge(step_no, p_snap, r_snap, a, v, cb):
    """one call judged on its own (model-free): exact fold of the designated coordinates, untouched bits elsewhere,
    check_bounds = all remaining coordinates in [0,1] — with the index contents the containers had at this call"""
    from . import c16
    a2 = np.atleast_2d(a)
    per_s, refl_s = set(p_snap or []), set(r_snap or [])
    strict = [i for i in range(a2.shape[1]) if i not in per_s and i not in refl_s]
    where = f"call {step_no} (periodic={p_snap}, reflective={r_snap}, u={a.tolist()!r})"
    if v is not None:
        if np.shape(v) != np.shape(a):
            return f"{where}: result shape {np.shape(v)}"
        v2 = np.atleast_2d(v)
        for r in range(a2.shape[0]):
            want_cb = all(0.0 <= a2[r][i] <= 1.0 for i in strict)
            msg = c16._oracle_core(p_snap, r_snap, a2[r].tolist(), v2[r].tolist(), want_cb, v2[r].tolist(), Fraction(1, 2 ** 52), f2hex)
            if msg:
                return f"{where}: {msg}"
    if cb is not None:
        try:
            flags = np.broadcast_to(np.asarray(cb), (a2.shape[0],))
        except ValueError:
            return f"{where}: check_bounds result of shape {np.shape(cb)}"
        for r in range(a2.shape[0]):
            want_cb = all(0.0 <= a2[r][i] <= 1.0 for i in strict)
            if bool(flags[r]) != want_cb:
                return (f"{where}: check_bounds={bool(flags[r])} but the remaining coordinates {strict} "
                        f"{'are' if want_cb else 'are not'} all in [0,1]")
    return None


def seq_oracle(seq):
    try:
        res = seq_run(seq)
    except Exception as e:  # noqa
        return f"raised {type(e).__name__}: {e}"
    for k, (p, r, a, v, cb) in enumerate(res):
        msg = seq_judge(k, p, r, a, v, cb)
        if msg:
            return msg + " — after the same container objects were used with other contents in earlier calls of the sequence"
    return None


def sequence_suite(tier, gens):
    n = {"quick": 400, "thorough": 8000}[tier]
    drv = common.Driver()
    rng = common.rng_for("C16.seq")
    c = Corr("sequence-F", "call sequences re-using and mutating the same index containers; every call judged on its own: "
                           "exact property oracle (model-free) + bit-exact Float model")
    lines, metas = [], []
    for _ in range(n):
        seq = seq_gen(rng, gens["rand_double"])
        try:
            res = seq_run(seq)
        except Exception as ex:  # noqa
            c.case(("raised", str(seq)), True)
            c.disagree(input=str(seq)[:300], impl=f"raised {type(ex).__name__}: {ex}", model="runs", seq=seq)
            continue
        c.case((str(seq),), True)
        c.count("calls", len(res))
        for st in seq["steps"]:
            for op in st["ops"]:
                c.count("op_" + op[0])
            c.count(f"slots_{st['per']}_{st['refl']}")
        c.count("kinds_" + seq["kinds"]["A"] + "_" + seq["kinds"]["B"])
        bad = None
        for k, ((p, r, a, v, cb), st) in enumerate(zip(res, seq["steps"])):
            if a.shape[-1] != seq["d"]:
                c.count("same_objects_other_n_dim")
            msg = seq_judge(k, p, r, a, v, cb)
            if msg and bad is None:
                bad = msg
            rows = np.atleast_2d(a).tolist()
            lines.append(f"c16py.F per={enc_opt(p)} refl={enc_opt(r)} nd={st['nd']} ncols={a.shape[-1]} u={enc_rows(rows, f2hex)}")
            metas.append((seq, k, v, cb, a.shape[-1]))
        if bad:
            c.disagree(input=str(seq)[:300], impl=bad, model="property oracle, call by call", seq=seq)
    res = drv.batch(lines)
    flagged = set()
    for (seq, k, v, cb, ncols), line, ans in zip(metas, lines, res):
        toks = ans.split(" ")
        ok = len(toks) == 3
        if ok and v is not None:
            vv = np.asarray(v)
            impl_arr = "1:" + flist(vv.tolist(), f2hex) if vv.ndim == 1 else f"2:{ncols}:" + enc_rows(vv.tolist(), f2hex)
            ok = impl_arr == toks[0]
        if ok and cb is not None:
            ok = enc_res(cb) == toks[1]
        if not ok and id(seq) not in flagged:
            flagged.add(id(seq))
            c.disagree(input=f"call {k} of a sequence: {line}", impl=f"{None if v is None else np.asarray(v).tolist()} {None if cb is None else enc_res(cb)}",
                       model=ans, seq=seq)
        c.sample({"op": line, "call": k, "model": ans})
    return c
