"""C01 — weighted posterior samples estimate posterior expectations consistently (PARTIAL: algebraic skeleton + pipeline tie)."""
import math
import warnings

import numpy as np

from . import common, pipeline, ensemble
from .common import Corr

ID = "C01"
LEAN_MODULES = ["TempestVerif.Props.C01", "TempestVerif.Props.C01Stat", "TempestVerif.Props.C01Meas", "TempestVerif.Props.C01X",
                "TempestVerif.Props.C03", "TempestVerif.Props.C06"]   # C03 / C06: kernel and resampler the pipeline composes
RULE = ("whole-pipeline trace replay: real Sampler runs (kernel x resampler, clustering off, ESS mode, with and without a "
        "zero-likelihood prior region, 1-3 dimensions) are recorded with all randomness observed (prior draws, resampling "
        "uniforms, proposals with their log-likelihoods and Hastings factors, Metropolis uniforms); the Lean pipeline model "
        "(composition of the C04 weights, C20 ESS, C05 reweighting, C06 resampling, C03 acceptance, C11 warm-up and C07 record "
        "models) consumes the same tape at Float and must reproduce, for every iteration, beta, ESS, logZ, the resampled "
        "indices, the accept masks and the committed batches (tags exact, logl bit for bit; values within 1e-9). "
        "Non-trivial = a run with at least one annealing iteration (resampling + mutation). "
        "extended-trace-replay: the same against the EXTENDED model (Model/PipelineX.lean) over the lattice kernel x resampler x clustering "
        "{on,off} x reweighting mode {ESS, volume variation} x boundary kind {hard, periodic, reflective, mixed} x target {plain, "
        "zero-likelihood region, two well-separated modes}: the tape carries only the innovations (gamma / normal / uniform draws), the "
        "user's log-likelihood values, the trainer's modes and the mode index of every resampled walker; the model computes every "
        "proposal (per mode, adapted step size), fold, hard-boundary rejection, Hastings factor, decision, the per-cluster step-size "
        "adaptation, the NUMBER of steps (stopping rule) and state['acceptance'/'efficiency'/'steps'], all compared (1e-9; decisions "
        "exact). posterior-of-run: real Sampler.run(n_total) calls recorded (the model must follow the loop guard to the same end), then "
        "Sampler.posterior() for four option sets (default trim; plain; trim+resample; resample) against the model's posterior on its "
        "final pool: returned rows = pool positions (bytes of x, logl exact), weights and logw within 1e-9.")
MODELLED = ["PARTIAL: the statement is about the sampling distribution of an adaptive finite-particle estimator; what is proved is the "
            "exact-arithmetic skeleton (balance-heuristic identity: the mean unnormalised weight is exactly Z_beta and weighted sums are "
            "unbiased for the tempered integrals when batches have their nominal laws and normalisers; invariance of the tempered law under a "
            "reversible kernel; the mean-field recursion keeps every batch at its nominal law) — NOT a rate for the finite-N deviation",
            "the trainer (weight trimming for clustering, hierarchical GMM, Student-t fit) is opaque: the fitted modes and the mode index of "
            "every resampled walker (clusterer.predict + ModeStatistics.mode_index: C14/C15/C19) arrive on the tape of the extended model",
            "volume-variation mode: the DECISION logic runs in the extended model on the pool's own ESS values; the metric value "
            "volume_variation(u, w) of every beta evaluated is tabulated on the tape (its matrix algebra is C20's)",
            "with clustering the label -> mode map is fixed during a mutation; per-mode reversible kernels compose to an invariant one only "
            "if moves do not cross labels (C01_label_kernel_invariant_of_no_crossing; counter-example C01_label_kernel_not_invariant) — for "
            "overlapping clusters the mutation is NOT exactly invariant (not a finite-N effect; design property of the sampler)",
            "the DEFAULT posterior() trims the weights (ess_trim = 0.99): it returns the self-normalised estimator restricted to "
            "{w >= theta} (C01_trimmed_estimate_is_restricted_ratio), which targets E[f | w >= theta] (C01_trimmed_estimator_targets_"
            "restriction) and is within 2(1-ess_trim)*sup|f| of the untrimmed one (C01_trim_bias_le_ess); the offset does not shrink "
            "with N: finding F35_default_trim_bias (witness in harness/witnesses.py; the ensemble search uses the untrimmed estimator)",
            "exact finite-N unbiasedness is a theorem only for the warm-up pool (C01_warmup_pool_unbiased); with estimated normalisers it is "
            "false already for a fixed schedule and a perfect kernel (C01_estimated_normaliser_biased: E = 7877/4725 vs Z = 5/3)",
            "known findings F16/F17/F21 (C03) bias boundary-abutting / folded targets; the ensemble search attributes such cells to them"]
ASSUMPTIONS = ["user likelihood and prior transform are pure"]


def translators():
    from translate import g4_kernel
    return [g4_kernel.generate()]


def make_target(rng, d, with_hole):
    mu = np.array([rng.uniform(-1.5, 1.5) for _ in range(d)])
    s2 = rng.uniform(0.3, 1.5)
    # one target in six is very narrow relative to the prior: the first positive temperature is then far below 1e-4
    half = 500.0 if rng.random() < 1 / 6 else 4.0

    def prior(u):
        return 2.0 * half * u - half

    def like(x):
        if with_hole and x[0] < -0.5 * half:
            return -np.inf
        return -0.5 * float(np.sum((x - mu) ** 2)) / s2
    return prior, like


def correspond(tier):
    drv = common.Driver()
    rng = common.rng_for("C01")
    c = Corr("pipeline-trace-replay", "toleranced Float (decisions exact, near-ties counted)")
    configs = [(k, r) for k in ("tpcn", "rwm") for r in ("syst", "mult")]
    n_runs = 24 if tier == "quick" else 160
    recs, lines = [], []
    for i in range(n_runs):
        kernel, resample = configs[i % 4]
        d = rng.choice([1, 2, 3])
        n = rng.choice([8, 16, 24])
        hole = rng.random() < 0.4
        prior, like = make_target(rng, d, hole)
        seed = rng.randrange(2 ** 31)
        np.random.seed(seed)
        rec = pipeline.Recorder(kernel, resample, n, d, like, prior, ess_ratio=rng.choice([1.5, 2.0, 3.0]))
        rec.s._core._initialize_fresh()
        rec.s._core.n_total = 3 * n
        ok = True
        try:
            k = 0
            while rec.s._core._not_termination() and k < 14:
                rec.iteration()
                k += 1
        except Exception as e:  # noqa
            c.disagree(input={"kernel": kernel, "resample": resample, "d": d, "n": n, "seed": seed}, impl=f"raised {type(e).__name__}: {e}", model="runs")
            ok = False
        if not ok:
            continue
        recs.append((rec, {"kernel": kernel, "resample": resample, "d": d, "n": n, "seed": seed, "hole": hole}))
        lines.append(rec.model_line())
        annealed = sum(1 for it in rec.impl if it["beta"] > 0)
        c.case((kernel, resample, d, n, seed), annealed >= 1)
        c.count(f"{kernel}/{resample}")
        c.count("iterations", len(rec.impl))
        c.count("annealing_iterations", annealed)
        c.count("mcmc_steps", sum(len(it["masks"]) for it in rec.impl))
    for (rec, cfg), line, ans in zip(recs, lines, drv.batch(lines)):
        prob, tie = pipeline.compare(rec, ans)
        if tie:
            c.near_ties += 1
        if prob:
            c.disagree(input=cfg, impl=prob, model=ans[:300])
        c.sample({"config": cfg, "iterations": len(rec.impl), "betas": [round(it["beta"], 4) for it in rec.impl], "model": ans[:120]})
    from . import pipelinex
    cx = pipelinex.suite_replay(tier, "C01.x")
    cp = pipelinex.suite_real_runs(tier, "C01.p", "posterior")
    from . import psoracles
    ct = psoracles.suite_same_temperature(tier, "C01")
    cr = psoracles.suite_records_folded(tier)
    cm = psoracles.suite_modes(tier)
    return [c, cx, cp, ct, cr, cm] + _dependency_suites(tier)


def _dependency_suites(tier):
    """the part of the pipeline the trace replay takes from the tape — proposal generation and its precomputed statistics — is
    C03's model; its correspondence suites are re-run here so that a broken kernel also breaks THIS property's obligations"""
    from . import c03, c06
    out = c03.correspond(tier)
    for s_ in out:
        s_.name = "dep:C03:" + s_.name
    # the trace replay runs with clustering off; the resampling step as the pipeline uses it WITH clustering (gather of the
    # drawn indices, labels of the resampled particles) is C06's `Resampler.run` suite against its model `resamplerRun`
    drv = common.Driver()
    r = c06._resampler_suite(tier, drv)
    r.name = "dep:C06:" + r.name
    return out + [r]


def search(tier, hints):
    # 1. the exact contract of what posterior() hands out (deterministic; cannot fire on correct code)
    from . import psoracles
    found = psoracles.search("posterior", tier)
    if found:
        return found
    # 2. the statement's own (statistical) oracle: ensemble bias over seeds, thresholds at |z| > 6 AND beyond the allowance
    return ensemble.search_posterior(tier)


def replay(obj):
    f = obj.get("failing_input", obj)
    if "witness" in f.get("replay", {}):
        from . import witnesses
        return witnesses.ALL[f["replay"]["witness"]]()
    if "contract" in f.get("replay", {}):
        from . import psoracles
        r = f["replay"]
        return psoracles.replay(r["contract"], r["cell"], r["seed"])
    r = ensemble.run_cell(f["cell"], "posterior", f.get("R", 24))
    return {"fails": r["fails"], "detail": r}
