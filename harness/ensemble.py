"""Ensemble (many-seed) oracles of C01 / C02 on analytically solvable targets.

Only ever used as a FAILING-INPUT SEARCH after an obligation has broken, or to replay a recorded cell: never a pass
criterion.  Deterministic: seeds are fixed functions of VERIF_SEED and the cell.
A cell fails when the ensemble-mean error is both statistically significant (|z| > 6 over R independent seeds) and
practically large (beyond the finite-particle allowance), so correct code cannot trip it.
"""
import contextlib
import io
import math
import multiprocessing as mp
import warnings

import numpy as np

from . import common

TARGETS = {}


def _phi(z):
    return 0.5 * (1.0 + math.erf(z / math.sqrt(2.0)))


def target_interior():
    mu, s = np.array([0.5, -0.3]), 0.6
    like = lambda x: -0.5 * float(np.sum((x - mu) ** 2)) / s ** 2
    logz = math.log(2 * math.pi * s * s) - math.log(64.0)
    return dict(d=2, like=like, stat=lambda x: x[:, 0], truth=0.5, scale=s, logz=logz, periodic=None, reflective=None, tags=[])


def target_boundary():
    s = 0.6
    like = lambda x: -0.5 * (float(x[0] - 4.0) ** 2 + float(x[1]) ** 2) / s ** 2
    truth = 4.0 - s * math.sqrt(2.0 / math.pi)
    logz = math.log(2 * math.pi * s * s) + math.log(0.5) - math.log(64.0)
    return dict(d=2, like=like, stat=lambda x: x[:, 0], truth=truth, scale=s, logz=logz, periodic=None, reflective=None,
                tags=["hard-boundary"])


def target_periodic():
    kappa = 2.0
    like = lambda x: kappa * math.cos(2 * math.pi * (float(x[0]) + 4.0) / 8.0) - 0.5 * float(x[1]) ** 2 / 0.36
    # I0, I1 by series
    i0 = sum((kappa / 2) ** (2 * k) / math.factorial(k) ** 2 for k in range(30))
    i1 = sum((kappa / 2) ** (2 * k + 1) / (math.factorial(k) * math.factorial(k + 1)) for k in range(30))
    logz = math.log(i0) + 0.5 * math.log(2 * math.pi * 0.36) - math.log(8.0)
    return dict(d=2, like=like, stat=lambda x: np.cos(2 * math.pi * (x[:, 0] + 4.0) / 8.0), truth=i1 / i0, scale=0.6, logz=logz,
                periodic=[0], reflective=None, tags=["periodic"])


def target_reflective_edge():
    # half Gaussian piled up at the face x0 = +4 of a REFLECTIVE coordinate: accepted moves cross the face and are folded back
    s = 0.6
    like = lambda x: -0.5 * (float(x[0] - 4.0) ** 2 + float(x[1]) ** 2) / s ** 2
    truth = 4.0 - s * math.sqrt(2.0 / math.pi)
    logz = math.log(2 * math.pi * s * s) + math.log(0.5) - math.log(64.0)
    return dict(d=2, like=like, stat=lambda x: x[:, 0], truth=truth, scale=s, logz=logz, periodic=None, reflective=[0],
                tags=["reflective"])


def target_narrow():
    # posterior 1e4 times narrower than the prior (unit-cube sd 1e-4): unit-scale bivariate Student-t kernel (nu = 10) under
    # U(-5000, 5000)^2 — anything absolute (not relative to the fitted covariance ~1e-8) in the proposal machinery shows here
    from scipy import stats
    like = lambda x: -6.0 * float(np.log1p(np.sum(x ** 2) / 10.0))
    truth = 2.0 * stats.t.cdf(1.0, 10.0) - 1.0          # P(|x0| < 1), marginal t_10
    # int (1 + r^2/nu)^(-(nu+2)/2) d^2x = 2 pi
    logz = math.log(2.0 * math.pi) - 2.0 * math.log(1.0e4)
    return dict(d=2, like=like, stat=lambda x: (np.abs(x[:, 0]) < 1.0).astype(float), truth=truth, scale=0.5, logz=logz, periodic=None,
                reflective=None, tags=["narrow"], half=5000.0, n=128, n_total=1024)


def target_bimodal():
    s = 0.35
    m1, m2 = np.array([-2.0, -2.0]), np.array([2.0, 2.0])

    def like(x):
        a = -0.5 * float(np.sum((x - m1) ** 2)) / s ** 2
        b = -0.5 * float(np.sum((x - m2) ** 2)) / s ** 2
        return float(np.logaddexp(a, b))
    logz = math.log(2.0) + math.log(2 * math.pi * s * s) - math.log(64.0)
    return dict(d=2, like=like, stat=lambda x: (x[:, 0] > 0).astype(float), truth=0.5, scale=0.5, logz=logz, periodic=None,
                reflective=None, tags=["bimodal"])


def target_cauchy():
    # product Cauchy(0,1) likelihood, uniform prior on [-20,20]^2: heavy tails -> the fitted Student-t has small nu
    like = lambda x: -float(np.sum(np.log1p(x ** 2)))
    m = math.atan(20.0)
    truth = math.atan(1.0) / m                      # P(|x0| < 1)
    logz = 2.0 * math.log(2.0 * m) - 2.0 * math.log(40.0)
    return dict(d=2, like=like, stat=lambda x: (np.abs(x[:, 0]) < 1.0).astype(float), truth=truth, scale=0.5, logz=logz,
                periodic=None, reflective=None, tags=["heavy-tailed"], half=20.0)


def target_correlated():
    # equicorrelated Gaussian (rho = 0.9) in 3-D, well inside the prior box [-10,10]^3
    d, rho, s2 = 3, 0.9, 0.25
    S = s2 * ((1 - rho) * np.eye(d) + rho * np.ones((d, d)))
    Si = np.linalg.inv(S)
    like = lambda x: -0.5 * float(x @ Si @ x)
    logz = 0.5 * d * math.log(2 * math.pi) + 0.5 * math.log(np.linalg.det(S)) - d * math.log(20.0)
    return dict(d=d, like=like, stat=lambda x: x[:, 0] * x[:, 1], truth=rho * s2, scale=s2, logz=logz, periodic=None, reflective=None,
                tags=["correlated"], half=10.0)


def target_minor():
    # a 3 % minor mode next to a dominant one, long accumulation phase so that the clusterer resolves it: with clustering on,
    # anything that gives the small mode more (or fewer) active particles than its weight shows up in its estimated mass
    wm = 0.03
    A, sa, B, sb = np.array([-5.0, 0.0]), 0.5, np.array([4.0, 0.0]), 1.0

    def like(x):
        la = -0.5 * float(np.sum((x - A) ** 2)) / sa ** 2 - 2.0 * math.log(sa) + math.log(wm)
        lb = -0.5 * float(np.sum((x - B) ** 2)) / sb ** 2 - 2.0 * math.log(sb) + math.log(1.0 - wm)
        return float(np.logaddexp(la, lb))
    logz = math.log(2 * math.pi) - math.log(400.0)
    return dict(d=2, like=like, stat=lambda x: (x[:, 0] < 0).astype(float), truth=wm, scale=0.2, logz=logz, periodic=None,
                reflective=None, tags=["minor-mode"], n=128, n_total=2048, half=10.0)


def target_sharp():
    # likelihood very narrow relative to the prior (unit Gaussian under U(-500, 500)^2): the first positive temperature the
    # ESS bisection reaches is far below 1e-4, so anything that treats a small positive beta as "still warm-up" shows
    like = lambda x: -0.5 * float(np.sum(x ** 2))
    logz = math.log(2 * math.pi) - 2.0 * math.log(1000.0)
    return dict(d=2, like=like, stat=lambda x: x[:, 0], truth=0.0, scale=1.0, logz=logz, periodic=None, reflective=None,
                tags=["sharp"], half=500.0)


TARGETS = {"narrow": target_narrow, "reflective_edge": target_reflective_edge, "minor": target_minor, "sharp": target_sharp, "interior": target_interior, "boundary": target_boundary, "periodic": target_periodic, "bimodal": target_bimodal,
           "cauchy": target_cauchy, "correlated": target_correlated}


def _one(args):
    cell, seed = args
    from tempest import Sampler
    t = TARGETS[cell["target"]]()
    np.random.seed(seed)
    try:
        with contextlib.redirect_stdout(io.StringIO()), warnings.catch_warnings():
            warnings.simplefilter("ignore")
            half = t.get("half", 4.0)
            s = Sampler(lambda u: 2.0 * half * u - half, t["like"], t["d"], n_particles=t.get("n", cell["n"]), clustering=cell["clustering"],
                        sample=cell["kernel"], resample=cell["resample"], periodic=t["periodic"], reflective=t["reflective"])
            s.run(n_total=t.get("n_total", cell["n_total"]), progress=False)
            # the UNTRIMMED estimator: the default weight trimming is a deliberate truncation with its own recorded finding
            # (F35_default_trim_bias) and its own bound (C01_trim_bias_le_ess); the ensemble oracle is about the mixture-
            # importance estimator the statement's mechanism clauses describe
            x, w, l = s.posterior(trim_importance_weights=False)
            est = float(np.sum(w * t["stat"](x)))
            return est, float(s.evidence()[0])
    except Exception as e:  # noqa
        return None, f"{type(e).__name__}: {e}"


def run_cell(cell, what, R):
    t = TARGETS[cell["target"]]()
    base = (common.seed() * 1000003 + int(common.digest([cell["target"], cell["kernel"], cell["resample"], cell["clustering"], cell["n"]]), 16) % 100000) % (2 ** 31 - R - 1)
    with mp.get_context("fork").Pool(min(16, R)) as pool:
        res = pool.map(_one, [(cell, base + i) for i in range(R)])
    errs = [r for r in res if r[0] is None]
    # a few runs aborting on a degenerate proposal covariance are C18's recorded finding (small clusters / few distinct
    # points), not a statement about the estimator: they are left out of the ensemble as long as they stay a small minority
    degenerate = [r for r in errs if "LinAlgError" in r[1] or "scale < 0" in r[1]]
    if errs and (len(degenerate) < len(errs) or len(errs) > R // 4):
        return {"fails": True, "what": f"run raised: {errs[0][1]}", "cell": cell, "R": R}
    res = [r for r in res if r[0] is not None]
    R = len(res)
    vals = np.array([r[0] for r in res]) if what == "posterior" else np.array([r[1] for r in res])
    truth = t["truth"] if what == "posterior" else t["logz"]
    err = float(np.mean(vals) - truth)
    se = float(np.std(vals, ddof=1) / math.sqrt(R)) + 1e-12
    z = err / se
    allowance = (0.05 * t["scale"]) if what == "posterior" else 0.05
    fails = abs(z) > 6.0 and abs(err) > allowance
    identical = bool(np.all(vals == vals[0])) and R > 1
    out = {"fails": bool(fails or identical), "cell": cell, "R": R, "mean_error": err, "se": se, "z": z, "truth": truth,
           "what": (f"{R} differently seeded runs returned the identical value {vals[0]!r}" if identical else
                    f"ensemble mean of the {'posterior estimate' if what == 'posterior' else 'log-evidence'} is off by {err:+.4f} "
                    f"(SE {se:.4f}, z = {z:+.1f}) on target `{cell['target']}`")}
    if out["fails"] and not identical:
        if "hard-boundary" in t["tags"]:
            out["known_id"] = "F16_hard_boundary_redraw"
        elif ("periodic" in t["tags"] or "reflective" in t["tags"]) and cell["kernel"] == "tpcn":
            out["known_id"] = "F17_tpcn_fold"
    return out


def _cells(tier):
    cells = []
    # `periodic` (von-Mises peak AT the seam) and `reflective_edge` have posterior mass at a folded face; with tpCN they are F17
    for target in ("narrow", "reflective_edge", "periodic", "minor", "sharp", "cauchy", "correlated", "interior", "bimodal", "boundary"):
        for kernel in ("tpcn", "rwm"):
            if target in ("sharp", "narrow") and kernel == "rwm":
                continue        # finite-particle error of the random-walk kernel on this target is large on correct code too
            for resample, clustering in (("mult", target in ("bimodal", "minor")), ("syst", target == "minor")):
                cells.append(dict(target=target, kernel=kernel, resample=resample, clustering=clustering, n=64, n_total=256))
    return cells if tier == "thorough" else cells[::2]


def search_posterior(tier):
    found = []
    for cell in _cells(tier):
        r = run_cell(cell, "posterior", 24 if tier == "quick" else 64)
        if r["fails"]:
            found.append(r)
    return found


def search_evidence(tier):
    found = []
    for cell in _cells(tier):
        if cell["target"] == "narrow":
            # log Z-hat of a 64-particle run on a posterior 1e8 times smaller than the prior spreads by ~2 nats per run, so its MEAN is
            # below log Z by Jensen's inequality on correct code too (soak on the unchanged tree: -3.6, z = -9): the cell says
            # nothing about C02 and is used for the posterior oracle (C01) only
            continue
        r = run_cell(cell, "evidence", 24 if tier == "quick" else 64)
        if r["fails"]:
            found.append(r)
    return found
