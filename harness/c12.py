"""C12 — run() postconditions and the posterior()/evidence() contract."""
import contextlib
import io
import itertools
import math
import warnings

import numpy as np

from . import common
from .common import Corr, f2hex

ID = "C12"
LEAN_MODULES = ["TempestVerif.Props.C12", "TempestVerif.Props.C12Run", "TempestVerif.Props.C12PostX", "TempestVerif.Props.C12Bridge",
                "TempestVerif.Props.C12Source"]
RULE = ("posterior(): on finished real runs (both kernels x both resamplers x blob form in {none, float, (float,3) from 3 scalars, "
        "(float,3) from one array, structured [('a',float),('b',int)], (float,(2,2)) from two rows, (float,(2,2)) from one 2x2 array, "
        "mixed structured with a sub-array field}) all 16 option combinations x (ess_trim,bins_trim) in {(0.99,1000),(0.9,50),(0.5,7)} "
        "(thorough: + (0.999,1000),(0.2,1),(0.75,2)); the trimming / resampling index vectors the real code used are captured and fed to "
        "the Lean model (Model.Posterior.body over the gather tables regenerated from source), which predicts for every output row the "
        "history particle each returned array must show; compared exactly (values, lengths, tuple layout, weights; blobs byte-wise, and "
        "each returned blob must be the blob of the returned x in the same row). Non-trivial = trimming or resampling on. "
        "posterior-composition: for the same calls, what the whole-routine model Model.Posterior.posterior assumes: trim_weights called "
        "iff trimming, once, with (arange(N), untrimmed weights, ess_trim, bins_trim); systematic_resample called iff resampling, once, "
        "with (len(w), w) for w the trimmed (else untrimmed) weights bit-identically; untrimmed weights vs the model's Float "
        "exp(logw-max)/sum within 1e-9; resampled weights bit-equal to the model's 1/n. "
        "_not_termination(): real guard vs Model.Run.notTerm at Float (bit-exact) on real states with beta and n_total placed on "
        "both sides of the thresholds; guard-from-history: the whole guard incl. the ESS computed from the stored log-weights "
        "(Model.Run.notTermination, Float; ESS within 1e-9, decision exact unless ESS is within rounding of n_total), also on a sampler "
        "with an empty history. run(): the real run returned, beta <= 1, and both model guards say stop on its final state; evidence() "
        "equals the recomputation from the stored history bit for bit; also for runs resumed from a checkpoint with a larger n_total. "
        "All posterior / guard / epilogue suites also run on CONSTRUCTED runs that stop with beta strictly inside (1-1e-4, 1) (a seeded "
        "fresh run of a Gaussian likelihood whose width is solved from the seed's warm-up draws so that the first annealing step "
        "lands on 1-2^-14): evidence(), posterior weights / logw and the guard's ESS must be those at beta = 1; run-epilogue also "
        "compares evidence() with an independent numpy recomputation of the MIS evidence at beta = 1 (1e-8 relative). "
        "Second pass: the posterior suites also run on UNDECLARED blobs (blobs_dtype=None, likelihood returns a float / three floats / "
        "a string -> object dtype) through the whole-routine model with optional blobs (Model.PosteriorX.computePosteriorWith: blob gate "
        "from (declared, current blobs present, committed blob arrays), guarded gathers, return selector). "
        "run-entry: per kernel a fresh run(48, save_every=2), a second run(24) and run(96.5) on the same sampler, run(160 / 12, "
        "resume_state_path=checkpoint) in new samplers, load_state(checkpoint)+run(100) (manual resume) against run(100, "
        "resume_state_path=same checkpoint), and both forms on a file saved before any iteration; for every call the real entry "
        "(which initialiser ran, t0, n_total attribute, iter / calls / beta / history length at the first loop test, whether the "
        "stream was reseeded, evidence() before) vs Model.RunEntry.prologue, and EVERY evaluation of the loop guard vs "
        "Model.Run.notTermination with THIS call's int(n_total); on return: iterations = number of true guards, history grew by "
        "exactly that, the old history is a bit-identical prefix, n_total attribute = int(argument), evidence() = Z(1) recomputed; "
        "manual and path resume give bit-identical histories. before-run: a new sampler's evidence() / n_total / posterior() "
        "(all 16 combinations raise) / results(), a sampler that loaded a pre-run file, and a declared-but-never-returned blob "
        "(posterior raises for all 16) vs the models' `none`.")
MODELLED = ["trim_weights and systematic_resample inside the whole-routine model are the executable models of C20 (Model.Trim) and C06 "
            "(Model.Resample); their tie to the real functions is C20's / C06's correspondence (here: the index vectors they returned in "
            "the real call are passed to the gather model, and the call arguments are compared)",
            "compute_logw_and_logz(1.0) is a parameter (the log-weight vector / Z(1) of a history): its content is C04/C11's",
            "execute_iteration is an arbitrary state transformer in the run-loop theorems",
            "termination of run() is not claimed (liveness)",
            "beta <= 1 on return: proved on the closed-loop model (Props.C12.C12x_run_post, from C05's range theorem by induction over "
            "the run) and asserted on every real run",
            "the closed-loop model Model.ClosedLoop (C10) is tied to the real sampler by C10's closed-loop replay suites; here its "
            "entry / guard / epilogue / n_total flow are tied by run-entry and by translator G12; since the source pass the tests, "
            "arithmetic and literals of run_sampling / _not_termination / _initialize_fresh / execute_iteration's save test are "
            "COMPILED from core.py on every run (Gen/RunEntrySrc.lean) and Props/C12Source.lean proves the model unfolds to them",
            "which loop-top states save_every writes is C14's; the theorems hold for every loop-top state",
            "the stream position after load/reseed is C09's (only 'reseeded or not' is compared here)"]
ASSUMPTIONS = ["np.percentile / sorting inside trim_weights are outside this property (C20)",
               "the flat history arrays x, logl, blobs and the log-weight vector have one common length: an assumption of the first-pass "
               "theorems on an arbitrary history; proved as a run invariant of the closed-loop model in the second pass "
               "(Props.C12.posteriorArrs_lengths) and observed exactly by the row-identity suite",
               "n_total is an int: for a non-integer argument the guarantee is for int(n_total)",
               "Float rounding of exp/sum in the untrimmed weights and the ESS is bridged by tolerance only"]


def translators():
    from translate import g5_tables, g1_constants, g12_entry
    return [g5_tables.generate(), g1_constants.generate(), g12_entry.generate(), g12_entry.generate_src()]


def _quiet():
    return contextlib.redirect_stdout(io.StringIO())


def _L1(x):
    return -0.5 * float(np.sum((x - 0.5) ** 2)) * 3.0


# every documented blob form (docs/examples/blobs.md): name -> (blobs_dtype, blob items of x); the likelihood returns
# `(logl, *items)`.  `(float, k)` is documented both with k separate scalars ("vec3") and with ONE array of length k
# ("vec3-array", runs since /repo 6caa7d6 = F26); likewise `(float, (2, 2))` with two row lists or one 2x2 array.
BLOB_FORMS = {
    "scalar": (float, lambda x: (float(x[0]) * 2.0 + 1.0,)),
    "vec3": ((float, 3), lambda x: (float(x[0]) * 2.0 + 1.0, float(x[-1]), float(np.sum(x)))),
    "struct": ([("a", float), ("b", int)], lambda x: (float(x[0]) * 2.0 + 1.0, int(x[-1] > 0))),
    "mat": ((float, (2, 2)), lambda x: ([1.0, float(x[0])], [float(x[-1]), 2.0])),
    "vec3-array": ((float, 3), lambda x: (np.array([float(x[0]) * 2.0 + 1.0, float(x[-1]), float(np.sum(x))]),)),
    "mat-array": ((float, (2, 2)), lambda x: (np.outer([1.0, float(x[0])], [float(x[-1]), 2.0]),)),
    "mixed": ([("t", float), ("v", float, 2)], lambda x: (float(np.sum(x)), [float(x[0]) * 2.0, float(x[-1]) - 1.0])),
}


# UNDECLARED blobs (docs: "return logl, blob" without blobs_dtype; handled since /repo 9130321): name -> blob items of x.
# `_log_like` packs them with dtype `np.atleast_1d(blob[0]).dtype` (strings: object).
UNDECLARED = {
    "u-scalar": lambda x: (float(x[0]) * 2.0 + 1.0,),
    "u-vec3": lambda x: (float(x[0]) * 2.0 + 1.0, float(x[-1]), float(np.sum(x))),
    "u-str": lambda x: ("p%+.3f" % float(x[0]),),
}


def _items(form):
    return UNDECLARED[form] if form in UNDECLARED else BLOB_FORMS[form][1]


def _dtype(form):
    return None if form in UNDECLARED else BLOB_FORMS[form][0]


def _form(blobs):
    """normalise the blob selector (older failing inputs carry a bool)"""
    if blobs is True:
        return "scalar"
    return blobs or None


def _blob_of(form, x):
    """the blob row the likelihood attaches to the point x, as stored under the form's dtype"""
    if form in UNDECLARED:
        it = UNDECLARED[form](x)
        if form == "u-str":
            return np.array(it[0], dtype=object)
        return np.array(it, dtype=float) if len(it) > 1 else np.array(it[0], dtype=float)
    dt, items = BLOB_FORMS[form]
    it = items(x)
    if len(it) == 1 and isinstance(it[0], np.ndarray):      # one array-valued blob: the row IS that array
        return np.asarray(it[0], dtype=np.dtype(dt).base)
    return np.array([it], dtype=dt)[0]


def _blob_eq(a, b):
    a, b = np.asarray(a), np.asarray(b)
    if a.dtype.kind in "OU" or b.dtype.kind in "OU":      # object rows (a lone element comes out as a Python str): compare values
        return a.shape == b.shape and bool(np.all(a.astype(object) == b.astype(object)))
    return a.dtype == b.dtype and a.size == b.size and a.tobytes() == b.tobytes()   # (a lone blob is stored squeezed)


def _make_run(rng, kernel, resample, blobs, n_total=96):
    from tempest import Sampler
    d = 2
    form = _form(blobs)

    def prior(u):
        return 8.0 * u - 4.0
    if form is None:
        like = _L1
    else:
        items = _items(form)

        def like(x):
            return (_L1(x),) + tuple(items(x))
    seed = rng.randrange(2 ** 31)
    np.random.seed(seed)
    s = Sampler(prior, like, d, n_particles=32, clustering=False, sample=kernel, resample=resample,
                blobs_dtype=(_dtype(form) if form else None), n_steps=1, n_max_steps=2)
    with _quiet(), warnings.catch_warnings():
        warnings.simplefilter("ignore")
        s.run(n_total=n_total, progress=False)
    return s, seed


def _close(a, b, scale=None):
    a, b = np.asarray(a, dtype=float), np.asarray(b, dtype=float)
    if a.shape != b.shape:
        return False
    sc = float(np.max(np.abs(b))) if (scale is None and b.size) else (scale or 0.0)
    return bool(np.all(np.abs(a - b) <= 1e-9 * (1.0 + sc)))


def _posterior_cases(c, cc, drv, rng, s, form, tier, seed, runinfo=None):
    """all 16 option combinations x trimming parameters on one finished run.
    c: row identity through the captured index vectors (exact).  cc: the composition the whole-routine model
    `Model.Posterior.posterior` assumes — which routine is called with which arguments — and its own arithmetic."""
    import tempest.tools as tools
    st = s.state
    blobs = form is not None
    pool = {"x": st.get_history("x", flat=True), "l": st.get_history("logl", flat=True),
            "b": st.get_history("blobs", flat=True) if blobs else None}
    logw_full, _ = st.compute_logw_and_logz(1.0)
    N = len(pool["l"])
    decl = s._core.config.blobs_dtype is not None
    curb = st.get_current("blobs") is not None
    bh = ",".join(str(len(b)) for b in st._history["blobs"]) or "-"
    c.count(f"blobs:{'declared' if decl else ('undeclared' if curb else 'none')}")
    w0_model = drv.batch(["post.w0 logw=" + ",".join(f2hex(float(v)) for v in logw_full)])[0]
    w0_model = None if w0_model in ("none", "bad-op") else np.array([common.hex2f(t) for t in w0_model.split(",")])
    # ess_trim = 1.0 (and above): nothing may be trimmed away; the loop must stop at the bottom of the grid (F28, /repo 8ceb8ba)
    params = [(0.99, 1000), (0.9, 50), (0.5, 7), (1.0, 1000)]
    if tier == "thorough":
        params += [(0.999, 1000), (0.2, 1), (0.75, 2), (math.nextafter(1.0, 0.0), 50), (math.nextafter(1.0, 2.0), 7), (1.5, 3)]
    lines, recs = [], []
    for (res, trim, rb, rl), (ess_t, bins_t) in itertools.product(itertools.product([False, True], repeat=4), params):
        if not trim and (ess_t, bins_t) != params[0]:
            continue
        if trim:
            c.count(f"ess_trim{'<' if ess_t < 1.0 else ('=' if ess_t == 1.0 else '>')}1")
        cap = {"tidx": None, "tw": None, "ridx": None, "tcalls": [], "rcalls": []}
        real_trim, real_sr = tools.trim_weights, tools.systematic_resample

        def spy_trim(samples, weights, ess=0.99, bins=1000):
            cap["tcalls"].append({"samples": np.array(samples), "weights": np.array(weights), "ess": ess, "bins": bins})
            i, w = real_trim(samples, weights, ess=ess, bins=bins)
            cap["tidx"], cap["tw"] = [int(v) for v in i], np.array(w)
            return i, w

        def spy_sr(size, weights, random_state=None):
            cap["rcalls"].append({"size": size, "weights": np.array(weights)})
            r = real_sr(size, weights)
            cap["ridx"] = [int(v) for v in r]
            return r
        u0 = rng.random()
        with common.patched(tools, "trim_weights", spy_trim), common.patched(tools, "systematic_resample", spy_sr), \
                common.patched(np.random, "random", lambda *a: u0), warnings.catch_warnings():
            warnings.simplefilter("ignore")
            try:
                out = s.posterior(resample=res, return_blobs=rb, trim_importance_weights=trim, return_logw=rl,
                                  ess_trim=ess_t, bins_trim=bins_t)
            except Exception as e:  # noqa
                c.disagree(input={"resample": res, "trim": trim, "return_blobs": rb, "return_logw": rl, "blob_form": form},
                           impl=f"raised {type(e).__name__}: {e}", model="returns", run=runinfo, params=[ess_t, bins_t])
                continue
        # the whole routine with OPTIONAL blobs (Model.PosteriorX): the blob gate sees (declared, current blobs present, the
        # committed blob arrays); the trimming / resampling index vectors are the captured ones
        line = (f"c12x.post n={N} decl={int(decl)} cur={int(curb)} bh={bh} empty=0 trim={int(trim)} res={int(res)} rb={int(rb)} rl={int(rl)} "
                f"tidx={','.join(map(str, cap['tidx'])) if cap['tidx'] else '-'} ridx={','.join(map(str, cap['ridx'])) if cap['ridx'] else '-'}")
        lines.append(line)
        recs.append((out, cap, (res, trim, rb, rl, ess_t, bins_t)))
    answers = drv.batch(lines)
    unif = {}
    need = sorted({len(r[0][1]) for r in recs if r[2][0]})
    for n, a in zip(need, drv.batch([f"post.unif n={n}" for n in need])):
        unif[n] = a
    for (out, cap, opts), line, ans in zip(recs, lines, answers):
        res, trim, rb, rl, ess_t, bins_t = opts
        c.case((line, seed, form), trim or res)
        c.count(f"trim={int(trim)},res={int(res)}")
        c.count(f"blob_form={form}")
        c.count(f"returns={'+'.join(n for n, f in (('blobs', rb and blobs), ('logw', rl)) if f) or 'x,weights,logl only'}")
        # ---- composition (what Model.Posterior.posterior assumes about the calls) ----
        cc.case((line, seed, form, ess_t, bins_t), True)
        cc.count(f"trim={int(trim)},res={int(res)}")
        comp = None
        w_in = None     # the untrimmed weights the real routine computed
        if len(cap["tcalls"]) != int(trim) or len(cap["rcalls"]) != int(res):
            comp = f"{len(cap['tcalls'])} calls of trim_weights, {len(cap['rcalls'])} of systematic_resample"
        else:
            if trim:
                t = cap["tcalls"][0]
                w_in = t["weights"]
                if not np.array_equal(t["samples"], np.arange(N)):
                    comp = "trim_weights not called with np.arange(len(weights))"
                elif t["ess"] != ess_t or t["bins"] != bins_t:
                    comp = f"trim_weights called with ess={t['ess']!r}, bins={t['bins']!r}"
                elif len(cap["tidx"]) != len(cap["tw"]):
                    comp = "trim_weights returned different numbers of indices and weights"
            if res and comp is None:
                r = cap["rcalls"][0]
                if trim:
                    if not np.array_equal(r["weights"], cap["tw"]):
                        comp = "systematic_resample not called with the trimmed weights"
                else:
                    w_in = r["weights"]
                if comp is None and r["size"] != len(r["weights"]):
                    comp = f"systematic_resample called with size={r['size']} for {len(r['weights'])} weights"
            if not trim and not res:
                w_in = out[1]
            if comp is None and (w0_model is None or not _close(w_in, w0_model)):
                comp = "untrimmed weights differ from the model's exp(logw-max)/sum"
            if comp is None and res:
                n = len(out[1])
                if unif.get(n) in (None, "-", "bad-op") or not np.array_equal(out[1], np.full(n, common.hex2f(unif[n]))):
                    comp = f"weights after resampling are not the model's 1/n (n={n})"
        if comp:
            cc.disagree(input=line[:200], impl=comp, model="posterior = weights0 >>= trim(arange n) >>= systematic(len w) >>= body",
                        opts={"resample": res, "trim_importance_weights": trim, "ess_trim": ess_t, "bins_trim": bins_t, "blob_form": form})
        # ---- row identity ----
        if not ans.startswith("names="):
            c.disagree(input=line, impl=f"returned {len(out)} arrays", model=ans)
            continue
        kv = dict(t.split("=", 1) for t in ans.split(" "))
        names = kv["names"].split(",")
        tags = {k: ([] if kv[k] == "-" else [int(t) for t in kv[k].split(",")]) for k in ("x", "l", "b", "lw")}
        nw = int(kv["nw"])
        problem = None
        if len(out) != len(names):
            problem = f"tuple of {len(out)} arrays, model says {names}"
        else:
            got = dict(zip(names, out))
            lens = {k: len(v) for k, v in got.items()}
            if len(set(lens.values())) != 1 or lens["weights"] != nw:
                problem = f"lengths {lens}, model says {nw} rows"
            else:
                if not np.array_equal(got["x"], pool["x"][tags["x"]]):
                    problem = "x rows are not the particles the model predicts"
                elif not np.array_equal(got["logl"], pool["l"][tags["l"]]):
                    problem = "logl rows are not the particles the model predicts"
                elif "blobs" in got and not _blob_eq(got["blobs"], pool["b"][tags["b"]]):
                    problem = "blobs rows are not the particles the model predicts"
                elif "blobs" in got and got["blobs"].shape[1:] != pool["b"].shape[1:]:
                    problem = f"blob rows of shape {got['blobs'].shape[1:]}, stored rows have {pool['b'].shape[1:]}"
                elif "blobs" in got and not all(_blob_eq(got["blobs"][k], _blob_of(form, got["x"][k])) for k in range(nw)):
                    problem = "a returned blob is not the blob of the returned x in the same row"
                elif "logw" in got and not np.array_equal(got["logw"], logw_full[tags["lw"]]):
                    problem = "logw rows are not the particles the model predicts"
                else:
                    w = got["weights"]
                    if res:
                        if not np.array_equal(w, np.ones(nw) / nw):
                            problem = "weights after resampling are not uniform 1/n"
                    elif trim:
                        if not np.array_equal(w, cap["tw"]):
                            problem = "weights are not the trimmed weights"
                    else:
                        ww = np.exp(logw_full - np.max(logw_full))
                        ww /= np.sum(ww)
                        if not np.array_equal(w, ww):
                            problem = "weights are not the normalised importance weights"
                    if problem is None and (np.any(w < 0) or abs(float(np.sum(w)) - 1.0) > 1e-9):
                        problem = f"weights negative or not summing to one (sum={float(np.sum(w))!r})"
        if problem:
            c.disagree(input=line, impl=problem, model=ans[:200], opts={"resample": res, "trim_importance_weights": trim,
                       "return_blobs": rb, "return_logw": rl, "ess_trim": ess_t, "bins_trim": bins_t, "blob_form": form},
                       run=runinfo, params=[ess_t, bins_t])
        c.sample({"op": line[:160], "model": ans[:160], "blob_form": form})
    cc.sample({"n": N, "blob_form": form, "w0_model_head": None if w0_model is None else [float(v) for v in w0_model[:3]]})


def _guard_history_cases(c, drv, rng, s):
    """the whole `_not_termination()` (ESS computed from the stored history) vs Model.Run.notTermination at Float"""
    from tempest.tools import effective_sample_size
    from translate import g1_constants
    tol = g1_constants.extract()["TERM_BETA_TOL"]
    core, st = s._core, s.state
    logw, _ = st.compute_logw_and_logz(1.0)
    ess = float(effective_sample_size(np.exp(logw - np.max(logw)))) if len(logw) else None
    lw = ",".join(f2hex(float(v)) for v in logw) if len(logw) else "-"
    beta0, nt0 = st.get_current("beta"), getattr(core, "n_total", 0)
    betas = [1.0, math.nextafter(1.0 - 1e-4, 2.0), 1.0 - 1e-4, 0.5, 1.0 - 1e-4 * rng.uniform(0.5, 1.5)]
    nts = [1, 10 ** 9] if ess is None else [1, math.floor(ess), math.ceil(ess), round(ess * rng.uniform(0.5, 1.5)), math.ceil(ess * 2)]
    lines, impl, meta = [], [], []
    try:
        for b in betas:
            for nt in nts:
                st.set_current("beta", b)
                core.n_total = nt
                impl.append(bool(core._not_termination()))
                lines.append(f"term.H tol={f2hex(tol)} beta={f2hex(b)} logw={lw} ntotal={f2hex(float(nt))}")
                meta.append((b, nt))
    finally:
        st.set_current("beta", beta0)
        core.n_total = nt0
    for line, i, m, (b, nt) in zip(lines, impl, drv.batch(lines), meta):
        c.case((line[:60], line[-40:], len(logw), digest_arr(logw)), True)
        c.count("empty-history" if ess is None else ("continue" if i else "stop"))
        parts = m.split(" ")
        if len(parts) != 2 or parts[0] not in ("0", "1"):
            c.disagree(input={"beta": b, "n_total": nt, "n": len(logw)}, impl=i, model=m[:80])
            continue
        if ess is None:
            if parts != ["1", "-"] or i is not True:
                c.disagree(input={"beta": b, "n_total": nt, "n": 0}, impl=i, model=m)
            continue
        ess_m = common.hex2f(parts[1])
        if abs(ess_m - ess) > 1e-9 * (1.0 + abs(ess)):
            c.disagree(input={"beta": b, "n_total": nt, "n": len(logw)}, impl={"ess": ess}, model={"ess": ess_m})
        elif (parts[0] == "1") != i:
            if abs(ess - nt) <= 1e-9 * (1.0 + abs(ess)):
                c.near_ties += 1
            else:
                c.disagree(input={"beta": b, "n_total": nt, "n": len(logw), "ess": ess}, impl=i, model=parts[0])
    c.sample({"n": len(logw), "ess": ess, "first": {"beta": meta[0][0], "n_total": meta[0][1], "impl": impl[0]}})


def digest_arr(a):
    return common.digest(np.asarray(a, dtype=float).tobytes().hex()[:4096])


def _term_cases(c, drv, rng, s):
    """real _not_termination() vs the Float model on real states pushed to both sides of the thresholds"""
    from tempest.tools import effective_sample_size
    from translate import g1_constants
    consts = g1_constants.extract()
    tol = consts["TERM_BETA_TOL"]
    core = s._core
    st = s.state
    logw, _ = st.compute_logw_and_logz(1.0)
    w = np.exp(logw - np.max(logw))
    ess = float(effective_sample_size(w))
    beta0, nt0 = st.get_current("beta"), core.n_total
    betas = [1.0, 1.0 - 1e-4, math.nextafter(1.0 - 1e-4, 2.0), math.nextafter(1.0 - 1e-4, 0.0), 0.9999, 0.99990000000001,
             0.5, 0.0, 1.0 - 0.99e-4, 1.0 - 1.01e-4] + [1.0 - 1e-4 * rng.uniform(0.5, 1.5) for _ in range(6)]
    nts = [0, 1, math.floor(ess), math.ceil(ess), ess, math.nextafter(ess, math.inf), math.nextafter(ess, 0.0), ess * 2]
    lines, impl = [], []
    try:
        for b in betas:
            for nt in nts:
                st.set_current("beta", b)
                core.n_total = nt
                impl.append(bool(core._not_termination()))
                lines.append(f"term.F tol={f2hex(tol)} beta={f2hex(b)} ess={f2hex(ess)} ntotal={f2hex(float(nt))}")
    finally:
        st.set_current("beta", beta0)
        core.n_total = nt0
    for line, i, m in zip(lines, impl, drv.batch(lines)):
        c.case(line, True)
        c.count("continue" if i else "stop")
        if (m == "1") != i:
            c.disagree(input=line, impl=i, model=m)
    c.sample({"op": lines[1], "impl": impl[1]})


# ------------------------------------------------------------------ runs that STOP with beta strictly inside (1 - 1e-4, 1)
# The termination test guarantees only 1 - beta < 1e-4.  A generic run ends on exactly 1.0 (about 1 in 10^3 does not), so such
# runs are CONSTRUCTED: an ordinary seeded fresh run of a Gaussian likelihood `c * g(x) + K` whose width c is solved for, from
# the seed's own warm-up draws, such that the ESS-limited temperature of the first annealing step lies in the middle of the top
# cell [1 - 2^-14, 1) of the bisection of `_find_beta_upper_limit` (BETA_TOLERANCE = 1e-4): with one warm-up batch the weights
# are exp(beta * c * g), so the ESS depends on beta * c only.  The step lands on beta = 1 - 2^-14; with n_total <= ESS the run
# stops there.  K is the additive constant of a 10^4-point likelihood: it makes Z(beta_T) and Z(1) differ by ~0.5 nats.
_K_INSIDE = -9189.385332046727


def _g2(x):
    return -2.0 * float(np.sum(x ** 2))


def _ess_c(c, v):
    a = c * v
    w = np.exp(a - np.max(a))
    return float(np.sum(w) ** 2 / np.sum(w * w))


def _inside_run(seed, kernel, n_total=1, resample="mult", n=32, ratio=0.5):
    """-> (sampler, likelihood, info) of a run that returned with 1 - 1e-4 < beta < 1, or None if the construction did not
    land there (then nothing is claimed)"""
    from tempest import Sampler

    def mk(like):
        return Sampler(lambda u: 20.0 * u - 10.0, like, 2, n_particles=n, ess_ratio=ratio, clustering=False, sample=kernel,
                       resample=resample, random_state=seed, n_steps=1, n_max_steps=2)
    with _quiet(), warnings.catch_warnings():
        warnings.simplefilter("ignore")
        s0 = mk(lambda x: _g2(x) + _K_INSIDE)
        s0.run(n_total=1, progress=False)
        x0 = s0.state.get_history("x", index=0)
        v = np.array([_g2(x) for x in x0])
        lo, hi = 0.0, 1.0
        while _ess_c(hi, v) >= ratio * n and hi < 1e12:
            hi *= 2.0
        for _ in range(200):
            mid = 0.5 * (lo + hi)
            if _ess_c(mid, v) >= ratio * n:
                lo = mid
            else:
                hi = mid
        c = lo / (1.0 - 2.0 ** -15)

        def like(x):
            return c * _g2(x) + _K_INSIDE
        s = mk(like)
        s.run(n_total=n_total, progress=False)
    beta = s.state.get_current("beta")
    if not (np.array_equal(s.state.get_history("x", index=0), x0) and 1.0 - 1e-4 < beta < 1.0):
        return None
    return s, like, {"inside": True, "seed": seed, "kernel": kernel, "resample": resample, "n_total": n_total, "c": c, "beta": beta}


def _mis_at_one(state):
    """independent recomputation (plain numpy, max-shifted) of the balance-heuristic MIS log-weights and evidence at beta = 1
    from the stored history: logw_s = l_s - log sum_t (n_t/N) exp(beta_t l_s - z_t),  Z = log mean exp(logw)"""
    T = state.get_history_length()
    beta_t = np.array([float(b) for b in state.get_history("beta")])
    logz_t = np.array([float(z) for z in state.get_history("logz")])
    logl_t = [np.asarray(state.get_history("logl", index=t), dtype=float) for t in range(T)]
    n_t = np.array([len(l) for l in logl_t], dtype=float)
    logl = np.concatenate(logl_t)
    comp = logl[:, None] * beta_t[None, :] - logz_t[None, :] + np.log(n_t / n_t.sum())[None, :]
    m = comp.max(axis=1)
    logw = logl - (m + np.log(np.exp(comp - m[:, None]).sum(axis=1)))
    M = logw.max()
    lse = M + np.log(np.exp(logw - M).sum())
    return logw - lse, lse - np.log(logw.size)


# ------------------------------------------------------------------ second pass: the entry of run_sampling, n_total flow
def _observed_run(s, n_total, resume=None, save_every=None):
    """run `s.run(n_total, resume_state_path=resume, save_every=save_every)` on the REAL sampler, observing — without changing —
    which initialiser ran, whether the stream was reseeded, every evaluation of the loop guard (with the attribute it read, beta
    and the log-weights it computed) and the state at the first loop test (= right after the prologue)."""
    import dill
    from tempest.core import SamplerCore
    core, st = s._core, s.state
    hl = st.get_history_length()
    pre = {"hist": hl, "iter": st.get_current("iter"), "calls": st.get_current("calls"), "beta": st.get_current("beta"),
           "logz": st.get_current("logz"), "nt": getattr(core, "n_total", None), "ev0": s.evidence()[0],
           "betas": [float(b) for b in st.get_history("beta")] if hl else [],
           "logl": st.get_history("logl", flat=True) if hl else np.array([]),
           "x": st.get_history("x", flat=True) if hl else np.array([]),
           "rs": core.config.random_state is not None}
    ck = None
    if resume is not None:
        with open(resume, "rb") as fh:
            d = dill.load(fh)
        cur = d["_current"]
        ck = {"hist": len(d["_history"]["beta"]), "iter": cur.get("iter"), "calls": cur.get("calls"), "beta": cur.get("beta"),
              "logz": cur.get("logz"), "nt": d.get("n_total"), "rng": d.get("rng_state") is not None,
              "betas": [float(b) for b in d["_history"]["beta"]],
              "logl": np.concatenate(d["_history"]["logl"]) if d["_history"]["logl"] else np.array([])}
    rec = {"fresh": 0, "from_resume": 0, "seed": 0, "guards": [], "iters": 0, "first": None}
    o_nt, o_fresh, o_res, o_it, o_seed = (SamplerCore._not_termination, SamplerCore._initialize_fresh,
                                          SamplerCore._initialize_from_resume, SamplerCore.execute_iteration, np.random.seed)

    def spy_nt(self_):
        r = o_nt(self_)
        if self_ is core:
            lw, _ = self_.state.compute_logw_and_logz(1.0)
            if rec["first"] is None:
                rec["first"] = {"iter": self_.state.get_current("iter"), "calls": self_.state.get_current("calls"),
                                "beta": self_.state.get_current("beta"), "logz": self_.state.get_current("logz"),
                                "hist": self_.state.get_history_length(), "t0": self_.t0, "nt": getattr(self_, "n_total", None)}
            rec["guards"].append({"attr": getattr(self_, "n_total", 0), "beta": self_.state.get_current("beta"),
                                  "logw": np.array(lw), "res": bool(r)})
        return r

    def spy_fresh(self_):
        if self_ is core:
            rec["fresh"] += 1
        return o_fresh(self_)

    def spy_res(self_, path):
        if self_ is core:
            rec["from_resume"] += 1
        return o_res(self_, path)

    def spy_it(self_, save_every, t0):
        if self_ is core:
            rec["iters"] += 1
        return o_it(self_, save_every=save_every, t0=t0)

    def spy_seed(*a, **k):
        rec["seed"] += 1
        return o_seed(*a, **k)
    with common.patched(SamplerCore, "_not_termination", spy_nt), common.patched(SamplerCore, "_initialize_fresh", spy_fresh), \
            common.patched(SamplerCore, "_initialize_from_resume", spy_res), common.patched(SamplerCore, "execute_iteration", spy_it), \
            common.patched(np.random, "seed", spy_seed), _quiet(), warnings.catch_warnings():
        warnings.simplefilter("ignore")
        s.run(n_total=n_total, progress=False, resume_state_path=resume, save_every=save_every)
    return pre, ck, rec


def _h(v):
    return f2hex(0.0 if v is None else float(v))


def _entry_line(pre, ck, n_total):
    line = (f"c12x.entry hist={pre['hist']} iter={int(pre['iter'] or 0)} calls={int(pre['calls'] or 0)} beta={_h(pre['beta'])} "
            f"logz={_h(pre['logz'])} started={int(pre['logz'] is not None)} nt={'-' if pre['nt'] is None else int(pre['nt'])} "
            f"call={int(n_total)} rs={int(pre['rs'])} ck={int(ck is not None)}")
    if ck is not None:
        # load_sampler_state fills the defaults of a file written before anything ran (iter 0, calls 0, beta 0.0, logz 0.0)
        line += (f" ckhist={ck['hist']} ckiter={int(ck['iter'] or 0)} ckcalls={int(ck['calls'] or 0)} ckbeta={_h(ck['beta'])} "
                 f"cklogz={_h(ck['logz'])} cknt={'-' if ck['nt'] is None else int(ck['nt'])} ckrng={int(ck['rng'])}")
    return line


def _entry_check(c, drv, s, n_total, pre, ck, rec, tol, label, info):
    """one observed call against Model.RunEntry.prologue, every loop test against Model.Run.notTermination with THIS call's
    int(n_total), and the return against what Props.C12.C12x_run_post states of the model"""
    core, st = s._core, s.state
    line = _entry_line(pre, ck, n_total)
    glines = [f"term.H tol={f2hex(tol)} beta={f2hex(g['beta'])} logw={','.join(f2hex(float(v)) for v in g['logw']) or '-'} "
              f"ntotal={f2hex(float(int(n_total)))}" for g in rec["guards"]]
    ans = drv.batch([line] + glines)
    m = dict(t.split("=", 1) for t in ans[0].split(" ")) if ans[0].startswith("branch=") else None
    c.case((label, line, info.get("seed")), True)
    c.count(f"entry:{label}")
    bad = None
    first = rec["first"]
    real_branch = "resume" if rec["from_resume"] else ("fresh" if rec["fresh"] else "continue")
    if m is None:
        bad = f"model: {ans[0][:80]}"
    elif rec["from_resume"] + rec["fresh"] > 1 or real_branch != m["branch"]:
        bad = f"entry arm {real_branch} (initialisers: resume x{rec['from_resume']}, fresh x{rec['fresh']}), model says {m['branch']}"
    elif first is None:
        bad = "the loop guard was never evaluated"
    else:
        c.count(f"arm:{m['branch']}")
        want = {"t0": int(m["t0"]), "nt": int(m["nt"]), "hist": int(m["hist"]), "iter": int(m["iter"]), "calls": int(m["calls"])}
        got = {"t0": first["t0"], "nt": first["nt"], "hist": first["hist"], "iter": first["iter"], "calls": first["calls"]}
        if got != want:
            bad = f"after the entry: {got}, model says {want}"
        elif f2hex(first["beta"]) != m["beta"] or f2hex(first["logz"]) != m["logz"]:
            bad = f"after the entry beta={first['beta']!r} logz={first['logz']!r}, model says beta={common.hex2f(m['beta'])!r} logz={common.hex2f(m['logz'])!r}"
        elif (rec["seed"] > 0) != (m["g"] == "99"):
            bad = f"np.random.seed called {rec['seed']}x, model says reseeded={m['g'] == '99'}"
        elif (pre["ev0"] is None) != (m["ev0"] == "none") or (pre["ev0"] is not None and f2hex(pre["ev0"]) != m["ev0"]):
            bad = f"evidence() before the call {pre['ev0']!r}, model says {m['ev0']}"
        elif any(g["attr"] != int(n_total) for g in rec["guards"]):
            bad = f"the loop guard read n_total={[g['attr'] for g in rec['guards']][:3]}…, this call asked for {int(n_total)}"
    if bad:
        c.disagree(input=line[:300], impl=bad, model=ans[0][:300], scenario=label, **info)
    # every evaluation of the guard
    from tempest.tools import effective_sample_size
    for g, gl, a in zip(rec["guards"], glines, ans[1:]):
        c.case((label, "guard", len(g["logw"]), f2hex(g["beta"]), int(n_total), digest_arr(g["logw"])), True)
        c.count("guard:continue" if g["res"] else "guard:stop")
        parts = a.split(" ")
        if len(parts) != 2 or parts[0] not in ("0", "1"):
            c.disagree(input=gl[:120], impl=g["res"], model=a[:60], scenario=label, **info)
        elif (parts[0] == "1") != g["res"]:
            ess = float(effective_sample_size(np.exp(g["logw"] - np.max(g["logw"])))) if len(g["logw"]) else None
            if ess is not None and abs(ess - int(n_total)) <= 1e-9 * (1.0 + abs(ess)):
                c.near_ties += 1
            else:
                c.disagree(input={"beta": g["beta"], "n": len(g["logw"]), "n_total_of_this_call": int(n_total), "ess": ess},
                           impl=f"real guard says {'continue' if g['res'] else 'stop'} (it read n_total={g['attr']})",
                           model=f"{'continue' if parts[0] == '1' else 'stop'} for this call's n_total", scenario=label, **info)
    # the return (C12x_run_post on the model)
    c.case((label, "return", line), True)
    n_true = sum(1 for g in rec["guards"] if g["res"])
    hist0 = first["hist"] if first else 0
    base = ck if ck is not None else pre
    logw, z1 = st.compute_logw_and_logz(1.0)
    post = None
    if rec["iters"] != n_true or (rec["guards"] and rec["guards"][-1]["res"]):
        post = f"{rec['iters']} iterations for {n_true} true guards (last guard {rec['guards'][-1]['res'] if rec['guards'] else None})"
    elif st.get_history_length() != hist0 + rec["iters"]:
        post = f"history length {st.get_history_length()} != {hist0} + {rec['iters']} iterations"
    elif getattr(core, "n_total", None) != int(n_total):
        post = f"n_total attribute {getattr(core, 'n_total', None)!r} after run({n_total!r})"
    elif f2hex(s.evidence()[0]) != f2hex(z1):
        post = f"evidence() {s.evidence()[0]!r} != recomputed {z1!r}"
    elif not (st.get_current("beta") <= 1.0):
        post = f"beta {st.get_current('beta')!r} > 1"
    else:
        # the stored history only grew: the history the call started from is a bit-identical prefix
        if base["hist"] and m is not None and m["branch"] != "fresh":
            nb = len(base["betas"])
            hb = [float(b) for b in st.get_history("beta")]
            fl = st.get_history("logl", flat=True)
            if hb[:nb] != base["betas"] or not np.array_equal(fl[:len(base["logl"])], base["logl"]):
                post = "the history the call started from is not a prefix of the history it left"
    if post:
        c.disagree(input=line[:300], impl=post, model="C12x_run_post: iterations = true guards, history grows by them, n_total = int(arg), "
                   "evidence = Z(1), beta <= 1, old history is a prefix", scenario=label, **info)
    c.sample({"scenario": label, "entry": ans[0][:200], "guards": len(rec["guards"]), "iterations": rec["iters"]})


def _entry_suite(c, drv, rng, tier):
    import os
    import shutil
    import tempfile
    from tempest import Sampler
    from translate import g1_constants
    tol = g1_constants.extract()["TERM_BETA_TOL"]
    kernels = [("rwm", None), ("tpcn", 7)] if tier == "quick" else [("rwm", None), ("tpcn", 7), ("rwm", 11), ("tpcn", None)] * 2
    for kernel, rs in kernels:
        d = tempfile.mkdtemp(prefix="tv12e_")
        try:
            seed = rng.randrange(2 ** 31)
            info = {"kernel": kernel, "random_state": rs, "seed": seed}

            def mk():
                return Sampler(lambda u: 8.0 * u - 4.0, _L1, 2, n_particles=24, clustering=False, sample=kernel, output_dir=d,
                               n_steps=1, n_max_steps=2, random_state=rs)
            np.random.seed(seed)
            # a file written before anything ran
            pre_file = os.path.join(d, "pre.state")
            with _quiet():
                mk().save_state(pre_file)
            s = mk()
            for label, n, kw in (("fresh", 48, {"save_every": 2}), ("second-run-smaller", 24, {}), ("second-run-larger-noninteger", 96.5, {})):
                pre, ck, rec = _observed_run(s, n, **kw)
                _entry_check(c, drv, s, n, pre, ck, rec, tol, label, info)
                if label == "second-run-smaller" and (rec["iters"] != 0 or f2hex(pre["ev0"]) != f2hex(s.evidence()[0])):
                    # Props.C12.C12x_second_run_noop: asking for no more than the first call delivered executes nothing
                    c.disagree(input={"first": 48, "second": 24}, impl=f"{rec['iters']} iterations, evidence {pre['ev0']!r} -> {s.evidence()[0]!r}",
                               model="no iteration, same evidence", scenario=label, **info)
            cks = sorted((f for f in os.listdir(d) if f.endswith(".state") and f[:-6].split("_")[-1].isdigit()),
                         key=lambda f: int(f[:-6].split("_")[-1]))
            mid = os.path.join(d, cks[len(cks) // 2])
            for label, n, path in (("resume-larger", 160, mid), ("resume-smaller", 12, os.path.join(d, cks[-1])),
                                   ("resume-file-without-history", 40, pre_file)):
                s2 = mk()
                pre, ck, rec = _observed_run(s2, n, resume=path)
                _entry_check(c, drv, s2, n, pre, ck, rec, tol, label, info)
            # manual resume = path resume (Props.C12.C12x_manual_resume_eq), on the real code: bit-identical histories
            s3 = mk()
            with _quiet():
                s3.load_state(mid)
            pre, ck, rec = _observed_run(s3, 100)
            _entry_check(c, drv, s3, 100, pre, ck, rec, tol, "manual-resume", info)
            s4 = mk()
            pre4, ck4, rec4 = _observed_run(s4, 100, resume=mid)
            _entry_check(c, drv, s4, 100, pre4, ck4, rec4, tol, "resume-same-file", info)
            c.case(("manual-vs-path", seed, kernel), True)
            same = (np.array_equal(s3.state.get_history("logl", flat=True), s4.state.get_history("logl", flat=True))
                    and np.array_equal(s3.state.get_history("x", flat=True), s4.state.get_history("x", flat=True))
                    and f2hex(s3.evidence()[0]) == f2hex(s4.evidence()[0]) and s3._core.t0 == s4._core.t0
                    and s3.state.get_current("iter") == s4.state.get_current("iter")
                    and s3.state.get_current("calls") == s4.state.get_current("calls"))
            if not same:
                c.disagree(input={"file": os.path.basename(mid), "n_total": 100}, impl="load_state()+run() and run(resume_state_path=) differ "
                           f"(iter {s3.state.get_current('iter')} / {s4.state.get_current('iter')}, calls {s3.state.get_current('calls')} / "
                           f"{s4.state.get_current('calls')}, evidence {s3.evidence()[0]!r} / {s4.evidence()[0]!r})",
                           model="the same call (C12x_manual_resume_eq)", scenario="manual-vs-path", **info)
            # the manual form on a file without history takes the fresh arm
            s5 = mk()
            with _quiet():
                s5.load_state(pre_file)
            pre, ck, rec = _observed_run(s5, 40)
            _entry_check(c, drv, s5, 40, pre, ck, rec, tol, "manual-resume-file-without-history", info)
        finally:
            shutil.rmtree(d, ignore_errors=True)


def _before_run_suite(c, drv, rng):
    """error paths: a sampler that has not run; one that loaded a pre-run file; blobs declared but never returned"""
    import os
    import shutil
    import tempfile
    from tempest import Sampler
    combos = list(itertools.product([False, True], repeat=4))

    def post_lines(n, decl, cur, bh, empty):
        return [f"c12x.post n={n} decl={int(decl)} cur={int(cur)} bh={bh} empty={int(empty)} trim={int(t)} res={int(r)} rb={int(rb)} rl={int(rl)} "
                f"tidx={'-' if not t else ','.join(map(str, range(n)))} ridx={'-' if not r else ','.join(map(str, range(n)))}"
                for (r, t, rb, rl) in combos]

    def raises(s, r, t, rb, rl):
        try:
            with warnings.catch_warnings():
                warnings.simplefilter("ignore")
                s.posterior(resample=r, trim_importance_weights=t, return_blobs=rb, return_logw=rl)
            return None
        except Exception as e:  # noqa
            return type(e).__name__
    s = Sampler(lambda u: 8.0 * u - 4.0, _L1, 2, n_particles=24, clustering=False)
    ans = drv.batch(["c12x.entry hist=0 iter=0 calls=0 beta=0000000000000000 logz=0000000000000000 started=0 nt=- call=1 rs=0 ck=0"]
                    + post_lines(0, False, False, "-", True))
    m = dict(t.split("=", 1) for t in ans[0].split(" "))
    c.case("new-sampler", True)
    c.count("new-sampler")
    res = s.results()
    if s.evidence()[0] is not None or m["ev0"] != "none" or s.n_total is not None or len(res["logw"]) != 0:
        c.disagree(input="new sampler", impl={"evidence": s.evidence(), "n_total": s.n_total, "len(results()['logw'])": len(res["logw"])},
                   model={"evidence": m["ev0"], "n_total": "none", "logw": "empty"})
    for (r, t, rb, rl), a in zip(combos, ans[1:]):
        c.case(("new-sampler-posterior", r, t, rb, rl), True)
        c.count("posterior-before-run")
        e = raises(s, r, t, rb, rl)
        if (e is None) != (a != "raise") or e not in (None, "ValueError"):
            c.disagree(input={"resample": r, "trim": t, "return_blobs": rb, "return_logw": rl}, impl=f"posterior() on a new sampler: {e or 'returned'}",
                       model=a[:40])
    d = tempfile.mkdtemp(prefix="tv12b_")
    try:
        f = os.path.join(d, "pre.state")
        with _quiet():
            s.save_state(f)
            s2 = Sampler(lambda u: 8.0 * u - 4.0, _L1, 2, n_particles=24, clustering=False)
            s2.load_state(f)
        a = drv.batch(["c12x.entry hist=0 iter=0 calls=0 beta=0000000000000000 logz=0000000000000000 started=0 nt=- call=1 rs=0 ck=1 "
                       "ckhist=0 ckiter=0 ckcalls=0 ckbeta=0000000000000000 cklogz=0000000000000000 cknt=- ckrng=1"])[0]
        m = dict(t.split("=", 1) for t in a.split(" "))
        c.case("loaded-pre-run-file", True)
        c.count("loaded-pre-run-file")
        if s2.evidence()[0] is None or f2hex(s2.evidence()[0]) != m["ev"] or s2.n_total is not None or raises(s2, False, True, False, False) != "ValueError":
            c.disagree(input="load_state(file saved before any run)", impl={"evidence": s2.evidence(), "n_total": s2.n_total},
                       model={"evidence": m["ev"], "n_total": "none", "posterior": "raise"})
    finally:
        shutil.rmtree(d, ignore_errors=True)
    # blobs_dtype declared, the likelihood returns no blob (a configuration error): nothing is ever committed under "blobs" and
    # posterior() raises for every flag combination, as Props.C12.C12x_posterior_declared_without_blobs says of the model
    np.random.seed(rng.randrange(2 ** 31))
    s3 = Sampler(lambda u: 8.0 * u - 4.0, _L1, 2, n_particles=24, clustering=False, blobs_dtype=float, n_steps=1, n_max_steps=2)
    with _quiet(), warnings.catch_warnings():
        warnings.simplefilter("ignore")
        try:        # (the run itself stops at the first resampling for the same reason; the warm-up batch is committed by then)
            s3.run(n_total=48, progress=False)
        except ValueError:
            c.count("declared-never-returned: run() raised too")
    if s3.state.get_history_length() == 0:
        return
    n = len(s3.state.get_history("logl", flat=True))
    bh = ",".join(str(len(b)) for b in s3.state._history["blobs"]) or "-"
    for (r, t, rb, rl), a in zip(combos, drv.batch(post_lines(n, True, s3.state.get_current("blobs") is not None, bh, False))):
        c.case(("declared-never-returned", r, t, rb, rl), True)
        c.count("declared-never-returned")
        e = raises(s3, r, t, rb, rl)
        if (e is None) != (a != "raise"):
            c.disagree(input={"blobs_dtype": "float", "likelihood": "no blob", "resample": r, "trim": t, "return_blobs": rb, "return_logw": rl},
                       impl=f"posterior(): {e or 'returned'}", model=a[:40])
    c.sample({"new": ans[0][:160], "posterior_before_run": ans[1]})


def correspond(tier):
    drv = common.Driver()
    rng = common.rng_for("C12")
    cp = Corr("posterior-16-combinations", "exact (row identity through captured index vectors)")
    cc = Corr("posterior-composition", "call arguments and uniform weights exact; untrimmed weights toleranced Float (1e-9)")
    ct = Corr("not-termination-guard", "bit-exact Float")
    ch = Corr("guard-from-history", "toleranced Float (ESS 1e-9 relative; decision exact away from ESS = n_total)")
    cr = Corr("run-epilogue", "exact")
    ce = Corr("run-entry", "exact (entry arm, t0, n_total, counters, evidence bits, history prefix); loop-guard decisions exact away from ESS = n_total")
    cb = Corr("before-run", "exact (raises / returns, None / value)")
    _before_run_suite(cb, drv, rng)
    _entry_suite(ce, drv, common.rng_for("C12.entry"), tier)
    # every blob form (none + the five documented ones) x both kernels x both resamplers over the runs
    configs = [("tpcn", "mult", "scalar"), ("rwm", "syst", None), ("rwm", "mult", "vec3"), ("tpcn", "syst", "struct"),
               ("rwm", "syst", "mat"), ("tpcn", "mult", "mixed"), ("tpcn", "syst", "vec3-array"), ("rwm", "mult", "mat-array"),
               ("rwm", "mult", "u-scalar"), ("tpcn", "syst", "u-vec3"), ("rwm", "syst", "u-str")]
    if tier == "thorough":
        forms = [None] + list(BLOB_FORMS) + list(UNDECLARED)
        configs += [(k, r, f) for k in ("tpcn", "rwm") for r in ("mult", "syst") for f in forms] * 2
    # the guard on a sampler that has not run yet (empty history => continue)
    from tempest import Sampler
    s_fresh = Sampler(lambda u: 8.0 * u - 4.0, _L1, 2, n_particles=32, clustering=False)
    _guard_history_cases(ch, drv, rng, s_fresh)
    # runs that stop with beta STRICTLY inside the tolerance (constructed, see _inside_run): evidence(), the posterior weights and
    # the guard's ESS must still be those at beta = 1
    irng = common.rng_for("C12.inside")
    configs += [(k, r, "@inside") for k, r in ((("rwm", "mult"), ("tpcn", "syst")) if tier == "quick" else
                                                (("rwm", "mult"), ("tpcn", "syst"), ("rwm", "syst"), ("tpcn", "mult")) * 3)]
    for kernel, resample, form in configs:
        if form == "@inside":
            seed = irng.randrange(2 ** 31)
            got = _inside_run(seed, kernel, n_total=irng.choice([1, 8]), resample=resample)
            if got is None:
                cr.count("inside-tolerance construction did not land (nothing claimed)")
                continue
            s, form = got[0], None
            blobs = None
            _posterior_cases(cp, cc, drv, rng, s, None, tier, seed, runinfo=None)
        else:
            blobs = form
            s, seed = _make_run(rng, kernel, resample, form)
            _posterior_cases(cp, cc, drv, rng, s, form, tier, seed,
                             runinfo={"kernel": kernel, "resample": resample, "blobs": form, "n_total": 96, "seed": seed})
        _term_cases(ct, drv, rng, s)
        _guard_history_cases(ch, drv, rng, s)
        # run epilogue: run() returned => model guard says stop; evidence() == Z(1) recomputed from the stored history
        st = s.state
        logw, z1 = st.compute_logw_and_logz(1.0)
        from tempest.tools import effective_sample_size
        from translate import g1_constants
        ess = float(effective_sample_size(np.exp(logw - np.max(logw))))
        tol = g1_constants.extract()["TERM_BETA_TOL"]
        line = f"term.F tol={f2hex(tol)} beta={f2hex(st.get_current('beta'))} ess={f2hex(ess)} ntotal={f2hex(float(s._core.n_total))}"
        lineh = (f"term.H tol={f2hex(tol)} beta={f2hex(st.get_current('beta'))} logw={','.join(f2hex(float(v)) for v in logw)} "
                 f"ntotal={f2hex(float(s._core.n_total))}")
        m, mh = drv.batch([line, lineh])
        cr.case((kernel, resample, blobs, seed), True)
        cr.count(f"blob_form={form}")
        ev = s.evidence()[0]
        beta_f = st.get_current("beta")
        cr.count("beta at return == 1" if beta_f == 1.0 else "beta at return strictly inside (1-1e-4, 1)")
        # independent recomputation of the MIS evidence at beta = 1 (toleranced: different summation order)
        _, z_ind = _mis_at_one(st)
        if abs(float(ev) - float(z_ind)) > 1e-8 * (1.0 + abs(float(z_ind))):
            cr.disagree(input={"kernel": kernel, "resample": resample, "blobs": blobs, "seed": seed, "beta": beta_f},
                        impl={"evidence": ev}, model={"MIS evidence at beta=1, independent recomputation": z_ind})
        # the whole-guard model must say stop too, unless the ESS sits within rounding of n_total
        mh_ok = mh.split(" ")[0] == "0" or abs(ess - s._core.n_total) <= 1e-9 * (1.0 + ess)
        if m != "0" or not mh_ok or f2hex(ev) != f2hex(z1) or not (beta_f <= 1.0):
            cr.disagree(input={"kernel": kernel, "resample": resample, "blobs": blobs, "seed": seed},
                        impl={"returned": True, "evidence": ev, "recomputed": z1, "beta": beta_f},
                        model={"guard_continue": m, "guard_from_history": mh[:20]})
        cr.sample({"config": [kernel, resample, blobs], "beta": st.get_current("beta"), "ess": ess, "n_total": s._core.n_total, "evidence": ev})
    # run() entered through a checkpoint, asking for MORE samples than the run that wrote it: the postconditions are about the
    # n_total passed to THIS run()
    import os
    import shutil
    import tempfile
    from tempest import Sampler
    from tempest.tools import effective_sample_size
    from translate import g1_constants
    tol = g1_constants.extract()["TERM_BETA_TOL"]
    for kernel, n_a, n_b in (("rwm", 48, 192), ("tpcn", 64, 64)) if tier == "quick" else (("rwm", 48, 192), ("tpcn", 64, 64), ("tpcn", 48, 256), ("rwm", 96, 97)):
        d = tempfile.mkdtemp(prefix="tv12_")
        try:
            seed = rng.randrange(2 ** 31)
            mk = lambda: Sampler(lambda u: 8.0 * u - 4.0, lambda x: -0.5 * float(np.sum((x - 0.5) ** 2)) * 3.0, 2, n_particles=24,
                                 clustering=False, sample=kernel, output_dir=d, n_steps=1, n_max_steps=2)
            np.random.seed(seed)
            with _quiet(), warnings.catch_warnings():
                warnings.simplefilter("ignore")
                mk().run(n_total=n_a, progress=False, save_every=2)
                cks = sorted(f for f in os.listdir(d) if f.endswith(".state"))
                s2 = mk()
                s2.run(n_total=n_b, progress=False, resume_state_path=os.path.join(d, cks[len(cks) // 2]))
            logw, z1 = s2.state.compute_logw_and_logz(1.0)
            ess = float(effective_sample_size(np.exp(logw - np.max(logw))))
            line = f"term.F tol={f2hex(tol)} beta={f2hex(s2.state.get_current('beta'))} ess={f2hex(ess)} ntotal={f2hex(float(n_b))}"
            m = drv.batch([line])[0]
            key = {"kernel": kernel, "first_n_total": n_a, "resumed_n_total": n_b, "checkpoint": cks[len(cks) // 2], "seed": seed}
            cr.case(key, True)
            cr.count("resumed_with_larger_n_total" if n_b > n_a else "resumed_same_n_total")
            if m != "0" or f2hex(s2.evidence()[0]) != f2hex(z1):
                cr.disagree(input=key, impl={"returned": True, "beta": s2.state.get_current("beta"), "ess": ess, "evidence": s2.evidence()[0], "recomputed": z1},
                            model={"guard_continue_for_requested_n_total": m}, resume=True)
        finally:
            shutil.rmtree(d, ignore_errors=True)
    return [cp, cc, ct, ch, cr, ce, cb]


# ------------------------------------------------------------------ property oracle on the real code
def oracle_run(s, blobs, extra_params=(), like=None):
    """postconditions of run() + posterior contract for all 16 combinations; returns list of violations.
    `like`: the (pure) log-likelihood of the run, default `_L1`"""
    like = like or _L1
    from tempest.tools import effective_sample_size
    bad = []
    form = _form(blobs)
    blobs = form is not None
    st = s.state
    beta = st.get_current("beta")
    logw, z1 = st.compute_logw_and_logz(1.0)
    ess = float(effective_sample_size(np.exp(logw - np.max(logw))))
    if not (beta <= 1.0):
        bad.append({"what": f"run() returned with beta={beta!r} > 1"})
    if not (1.0 - beta < 1e-4):
        bad.append({"what": f"run() returned with beta={beta!r} (1-beta >= 1e-4)"})
    if not ess >= s._core.n_total:
        bad.append({"what": f"run() returned with ESS {ess!r} < n_total {s._core.n_total}"})
    if s.evidence()[0] != z1:
        bad.append({"what": f"evidence() {s.evidence()[0]!r} != evidence recomputed from the stored history {z1!r}"})
    # the same two, against a recomputation that shares no code with the package (tolerance: summation order only)
    lw_ind, z_ind = _mis_at_one(st)
    if abs(float(s.evidence()[0]) - float(z_ind)) > 1e-8 * (1.0 + abs(float(z_ind))):
        bad.append({"what": f"run() returned at beta={beta!r}: evidence() {float(s.evidence()[0])!r} != MIS evidence at beta=1 recomputed from the "
                            f"stored history {float(z_ind)!r}"})
    with warnings.catch_warnings():
        warnings.simplefilter("ignore")
        try:
            pw = s.posterior(resample=False, trim_importance_weights=False, return_logw=True)
        except Exception:  # noqa  (reported by the loop below)
            pw = None
    if pw is not None and len(pw) == 4 and len(pw[1]) == len(logw):
        w1 = np.exp(logw - np.max(logw))
        w1 /= np.sum(w1)
        if not np.array_equal(pw[1], w1) or not np.array_equal(pw[3], logw) \
                or not np.allclose(pw[1], np.exp(lw_ind), rtol=1e-7, atol=1e-12):
            bad.append({"what": f"run() returned at beta={beta!r}: posterior(trim_importance_weights=False) weights / logw are not the normalised "
                                f"beta=1 weights of the stored history (max |dw| = {float(np.max(np.abs(pw[1] - np.exp(lw_ind)))):.3e})"})
    if bad:
        return bad
    pool_x = st.get_history("x", flat=True)
    pool_l = st.get_history("logl", flat=True)
    pool_b = st.get_history("blobs", flat=True) if blobs else None
    index = {}
    for i, row in enumerate(pool_x):
        index.setdefault(row.tobytes(), []).append(i)
    for res, trim, rb, rl in itertools.product([False, True], repeat=4):
        for ess_t, bins_t in [(0.99, 1000), (0.5, 7), (1.0, 1000)] + [tuple(p) for p in extra_params]:
            opts = {"resample": res, "trim_importance_weights": trim, "return_blobs": rb, "return_logw": rl, "ess_trim": ess_t, "bins_trim": bins_t}
            try:
                with warnings.catch_warnings():
                    warnings.simplefilter("ignore")
                    out = s.posterior(**opts)
            except Exception as e:  # noqa
                bad.append({"what": f"posterior raised {type(e).__name__}: {e}", "opts": opts})
                continue
            n_expected = 3 + (1 if (rb and blobs) else 0) + (1 if rl else 0)
            if any(a is None for a in out):
                bad.append({"what": f"posterior returned a tuple with None at position {[a is None for a in out].index(True)}", "opts": opts})
                continue
            lens = [len(a) for a in out]
            if len(out) != n_expected or len(set(lens)) != 1:
                bad.append({"what": f"posterior returned arrays of lengths {lens}", "opts": opts})
                continue
            x, w, l = out[0], out[1], out[2]
            bl = out[3] if (rb and blobs) else None
            lw = out[-1] if rl else None
            if np.any(w < 0) or abs(float(np.sum(w)) - 1.0) > 1e-9:
                bad.append({"what": f"weights negative or sum {float(np.sum(w))!r} != 1", "opts": opts})
            if res and not np.allclose(w, 1.0 / len(w), rtol=0, atol=1e-15):
                bad.append({"what": "weights not uniform with resample=True", "opts": opts})
            for k in range(len(x)):
                cands = index.get(x[k].tobytes(), [])
                ok = any(pool_l[i] == l[k] and (bl is None or _blob_eq(pool_b[i], bl[k])) and (lw is None or logw[i] == lw[k]) for i in cands)
                if not ok:
                    bad.append({"what": f"posterior row {k}: no stored particle has this (x, logl, blob, logw) combination", "opts": opts})
                    break
                # the likelihood is a pure function: the row's logl / blob must be those of the row's x
                if like(x[k]) != l[k] or (bl is not None and not _blob_eq(bl[k], _blob_of(form, x[k]))):
                    bad.append({"what": f"posterior row {k}: logl / blob are not those of the x in the same row (blob form {form})", "opts": opts})
                    break
            if bad:
                return bad
    return bad


def oracle_guard(s):
    """the loop guard itself, on real states: run() returns exactly when the guard says stop, so a state with
    1 - beta >= 1e-4 (or ESS < n_total) at which the real guard says stop is a state at which run() returns too early"""
    from tempest.tools import effective_sample_size
    core, st = s._core, s.state
    logw, _ = st.compute_logw_and_logz(1.0)
    ess = float(effective_sample_size(np.exp(logw - np.max(logw))))
    beta0, nt0 = st.get_current("beta"), core.n_total
    bad = []
    try:
        for b in [0.0, 0.5, 0.9, 0.99, 0.995, 0.999, 0.9995, 0.9998, 1.0 - 1.0001e-4, 1.0 - 0.9999e-4, 0.99995, 1.0]:
            for nt in [1, int(ess), int(ess) + 1, int(2 * ess)]:
                st.set_current("beta", b)
                core.n_total = nt
                want_continue = (1.0 - b >= 1e-4) or (ess < nt)
                got = bool(core._not_termination())
                if got != want_continue:
                    bad.append({"what": f"at beta={b!r}, ESS={ess!r}, n_total={nt} the loop guard says "
                                        f"{'continue' if got else 'stop'}: run() would {'not return although' if got else 'return although'} "
                                        f"1-beta {'<' if 1.0 - b < 1e-4 else '>='} 1e-4 and ESS {'>=' if ess >= nt else '<'} n_total",
                                "beta": b, "n_total": nt, "ess": ess})
                    return bad
    finally:
        st.set_current("beta", beta0)
        core.n_total = nt0
    return bad


def _post_ok(s, n_b):
    """the statement's postconditions of run() for the n_total of the LAST call"""
    from tempest.tools import effective_sample_size
    logw, z1 = s.state.compute_logw_and_logz(1.0)
    ess = float(effective_sample_size(np.exp(logw - np.max(logw))))
    beta = s.state.get_current("beta")
    if not (beta <= 1.0 and 1.0 - beta < 1e-4):
        return f"beta={beta!r}"
    if not ess >= int(n_b):
        return f"beta={beta!r}, ESS={ess:.1f} < {int(n_b)}"
    if s.evidence()[0] != z1:
        return f"evidence() {s.evidence()[0]!r} != recomputed {z1!r}"
    return None


def oracle_resume(rng):
    """every way of entering run() on top of an existing history, each with ANOTHER n_total than the run that made the history:
    run(B, resume_state_path=checkpoint of a run with n_total=A); run(A) then run(B) on the same sampler; load_state(checkpoint)
    then run(B).  Each must end within 1e-4 of beta = 1 (from below) with ESS >= B over the whole history and evidence() equal to
    the recomputation."""
    import os
    import shutil
    import tempfile
    from tempest import Sampler
    bad = []
    for kernel, n_a, n_b in (("rwm", 48, 192), ("tpcn", 48, 256)):
        d = tempfile.mkdtemp(prefix="tv12_")
        try:
            seed = rng.randrange(2 ** 31)
            mk = lambda: Sampler(lambda u: 8.0 * u - 4.0, lambda x: -0.5 * float(np.sum((x - 0.5) ** 2)) * 3.0, 2, n_particles=24,
                                 clustering=False, sample=kernel, output_dir=d, n_steps=1, n_max_steps=2)
            cfg = {"kernel": kernel, "resample": "mult", "blobs": False, "n_total": n_a}
            np.random.seed(seed)
            with _quiet(), warnings.catch_warnings():
                warnings.simplefilter("ignore")
                s1 = mk()
                s1.run(n_total=n_a, progress=False, save_every=2)
                cks = sorted(f for f in os.listdir(d) if f.endswith(".state"))
                for ck in cks:
                    s2 = mk()
                    s2.run(n_total=n_b, progress=False, resume_state_path=os.path.join(d, ck))
                    why = _post_ok(s2, n_b)
                    if why:
                        bad.append({"what": f"run(n_total={n_b}, resume_state_path={ck}) of a run written with n_total={n_a} returned with {why}",
                                    "config": cfg, "seed": seed, "resume": True})
                        return bad
                # a second run() on the same sampler, asking for more
                s1.run(n_total=n_b, progress=False)
                why = _post_ok(s1, n_b)
                if why:
                    bad.append({"what": f"run(n_total={n_a}) followed by run(n_total={n_b}) on the same sampler returned with {why}",
                                "config": cfg, "seed": seed, "resume": True})
                    return bad
                # manual resume: load_state() then run() without a path
                for ck in cks[:: max(1, len(cks) // 3)]:
                    s3 = mk()
                    s3.load_state(os.path.join(d, ck))
                    s3.run(n_total=n_b + 0.5, progress=False)
                    why = _post_ok(s3, n_b + 0.5) or (None if s3.n_total == n_b else f"n_total attribute {s3.n_total!r} after run({n_b + 0.5})")
                    if why:
                        bad.append({"what": f"load_state({ck}) of a run written with n_total={n_a}, then run(n_total={n_b + 0.5}) returned with {why}",
                                    "config": cfg, "seed": seed, "resume": True})
                        return bad
        finally:
            shutil.rmtree(d, ignore_errors=True)
    return bad


def oracle_inside(seeds, kernels=("rwm", "tpcn"), n_totals=(1, 8)):
    """the statement on runs that stop with beta strictly inside (1 - 1e-4, 1)"""
    bad = []
    for seed in seeds:
        for kernel in kernels:
            for nt in n_totals:
                got = _inside_run(seed, kernel, n_total=nt)
                if got is None:
                    continue
                s, like, info = got
                for b in oracle_run(s, None, like=like):
                    b.update({"config": {"kernel": kernel, "resample": "mult", "blobs": False, "n_total": nt,
                                         "likelihood": f"{info['c']!r} * (-2 |x|^2) + {_K_INSIDE!r}, prior 20u-10, n_particles=32, ess_ratio=0.5, "
                                                       f"clustering=False, n_steps=1, n_max_steps=2, random_state={seed}"},
                              "seed": seed, "inside": True, "beta_at_return": info["beta"]})
                    bad.append(b)
                if bad:
                    return bad
    return bad


class _Fixed:
    """stands in for the rng in _make_run: replays a recorded seed"""
    def __init__(self, seed):
        self.seed = seed

    def randrange(self, n):
        return self.seed


def search(tier, hints):
    rng = common.rng_for("C12.search")
    found = []
    try:
        found += oracle_inside([rng.randrange(2 ** 31) for _ in range(2 if tier == "quick" else 6)])
    except Exception as e:  # noqa
        found.append({"what": f"run stopping inside the tolerance raised {type(e).__name__}: {e}", "config": ["inside"]})
    try:
        found += oracle_resume(rng)
    except Exception as e:  # noqa
        found.append({"what": f"resumed run raised {type(e).__name__}: {e}", "config": ["resume"]})
    try:
        s0, seed0 = _make_run(rng, "rwm", "syst", False, 64)
        for b in oracle_guard(s0):
            b.update({"config": {"kernel": "rwm", "resample": "syst", "blobs": False, "n_total": 64}, "seed": seed0, "guard_level": True})
            found.append(b)
    except Exception as e:  # noqa
        found.append({"what": f"run raised {type(e).__name__}: {e}", "config": ["rwm", "syst", False, 64]})
    # the very runs (and trimming parameters) on which a correspondence suite disagreed, first
    seen = set()
    for h in hints or []:
        ri = h.get("run")
        if not ri or (ri["seed"], ri["kernel"]) in seen or len(seen) >= 4:
            continue
        seen.add((ri["seed"], ri["kernel"]))
        try:
            s, _ = _make_run(_Fixed(ri["seed"]), ri["kernel"], ri["resample"], ri["blobs"], ri["n_total"])
            for b in oracle_run(s, ri["blobs"], extra_params=[h["params"]] if h.get("params") else ()):
                b.update({"config": {k: ri[k] for k in ("kernel", "resample", "blobs", "n_total")}, "seed": ri["seed"],
                          "extra_params": [h["params"]] if h.get("params") else []})
                found.append(b)
        except Exception as e:  # noqa
            found.append({"what": f"run raised {type(e).__name__}: {e}", "config": ri})
    n = 6 if tier == "quick" else 40
    for _ in range(n):
        kernel = rng.choice(["tpcn", "rwm"])
        resample = rng.choice(["mult", "syst"])
        blobs = rng.choice([None, None] + list(BLOB_FORMS) + list(UNDECLARED))
        n_total = rng.choice([64, 128, 256])
        try:
            s, seed = _make_run(rng, kernel, resample, blobs, n_total)
        except Exception as e:  # noqa
            found.append({"what": f"run raised {type(e).__name__}: {e}", "config": [kernel, resample, blobs, n_total]})
            continue
        for b in oracle_run(s, blobs):
            b.update({"config": {"kernel": kernel, "resample": resample, "blobs": blobs, "n_total": n_total}, "seed": seed})
            found.append(b)
        if len(found) >= 3:
            break
    return found


def replay(obj):
    f = obj.get("failing_input", obj)
    if "witness" in f.get("replay", {}):
        from . import witnesses
        return witnesses.ALL[f["replay"]["witness"]]()
    import random
    if f.get("resume"):
        b = oracle_resume(common.rng_for("C12.search"))
        return {"fails": bool(b), "detail": b[:1]}
    if f.get("inside"):
        b = oracle_inside([f["seed"]], kernels=(f["config"]["kernel"],), n_totals=(f["config"]["n_total"],))
        return {"fails": bool(b), "detail": b[:1]}
    cfg, seed = f["config"], f["seed"]
    from tempest import Sampler
    blobs = _form(cfg["blobs"])
    s, _ = _make_run(_Fixed(seed), cfg["kernel"], cfg["resample"], blobs, cfg["n_total"])
    bad = oracle_run(s, blobs, extra_params=f.get("extra_params", ())) + oracle_guard(s)
    return {"fails": bool(bad), "detail": bad[:1]}
