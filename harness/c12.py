"""C12 — run() postconditions and the posterior()/evidence() contract."""
import contextlib
import io
import itertools
import math
import warnings

import numpy as np

from . import common
from .common import Corr, f2hex

ID = "C12"
LEAN_MODULES = ["TempestVerif.Props.C12"]
RULE = ("posterior(): on finished real runs (kernels x resamplers x blobs on/off) all 16 option combinations x "
        "(ess_trim,bins_trim) in {(0.99,1000),(0.9,50),(0.5,7)}; the trimming / resampling index vectors the real code used are "
        "captured and fed to the Lean model (Model.Posterior over the gather tables regenerated from source), which predicts for "
        "every output row the history particle each returned array must show; compared exactly (values, lengths, tuple layout, "
        "weights). Non-trivial = trimming or resampling on. "
        "_not_termination(): real guard vs Model.Run.notTerm at Float (bit-exact) on real states with beta and n_total placed on "
        "both sides of the thresholds. run(): the real run returned and the model guard says stop on its final state; evidence() "
        "equals the recomputation from the stored history.")
MODELLED = ["trim_weights and systematic_resample are parameters of the posterior model (their own contracts are C20 and C06); "
            "the index vectors they returned in the real call are passed to the model",
            "termination of run() is not claimed (liveness)"]
ASSUMPTIONS = ["np.percentile / sorting inside trim_weights are outside this property (C20)"]


def translators():
    from translate import g5_tables, g1_constants
    return [g5_tables.generate(), g1_constants.generate()]


def _quiet():
    return contextlib.redirect_stdout(io.StringIO())


def _make_run(rng, kernel, resample, blobs, n_total=96):
    from tempest import Sampler
    d = 2

    def prior(u):
        return 8.0 * u - 4.0

    def like(x):
        l = -0.5 * float(np.sum((x - 0.5) ** 2)) * 3.0
        return (l, float(x[0]) * 2.0 + 1.0) if blobs else l
    seed = rng.randrange(2 ** 31)
    np.random.seed(seed)
    s = Sampler(prior, like, d, n_particles=32, clustering=False, sample=kernel, resample=resample,
                blobs_dtype=("f8" if blobs else None), n_steps=1, n_max_steps=2)
    with _quiet(), warnings.catch_warnings():
        warnings.simplefilter("ignore")
        s.run(n_total=n_total, progress=False)
    return s, seed


def _posterior_cases(c, drv, rng, s, blobs, tier):
    import tempest.tools as tools
    st = s.state
    pool = {"x": st.get_history("x", flat=True), "l": st.get_history("logl", flat=True),
            "b": st.get_history("blobs", flat=True) if blobs else None}
    logw_full, _ = st.compute_logw_and_logz(1.0)
    N = len(pool["l"])
    params = [(0.99, 1000), (0.9, 50), (0.5, 7)]
    lines, recs = [], []
    for (res, trim, rb, rl), (ess_t, bins_t) in itertools.product(itertools.product([False, True], repeat=4), params):
        if not trim and (ess_t, bins_t) != params[0]:
            continue
        cap = {"tidx": None, "tw": None, "ridx": None}
        real_trim, real_sr = tools.trim_weights, tools.systematic_resample

        def spy_trim(samples, weights, ess=0.99, bins=1000):
            i, w = real_trim(samples, weights, ess=ess, bins=bins)
            cap["tidx"], cap["tw"] = [int(v) for v in i], np.array(w)
            return i, w

        def spy_sr(size, weights, random_state=None):
            r = real_sr(size, weights)
            cap["ridx"] = [int(v) for v in r]
            return r
        u0 = rng.random()
        with common.patched(tools, "trim_weights", spy_trim), common.patched(tools, "systematic_resample", spy_sr), \
                common.patched(np.random, "random", lambda *a: u0), warnings.catch_warnings():
            warnings.simplefilter("ignore")
            try:
                out = s.posterior(resample=res, return_blobs=rb, trim_importance_weights=trim, return_logw=rl,
                                  ess_trim=ess_t, bins_trim=bins_t)
            except Exception as e:  # noqa
                c.disagree(input={"resample": res, "trim": trim, "return_blobs": rb, "return_logw": rl}, impl=f"raised {type(e).__name__}: {e}", model="returns")
                continue
        line = (f"post.run n={N} trim={int(trim)} res={int(res)} blobs={int(blobs)} rb={int(rb)} rl={int(rl)} "
                f"tidx={','.join(map(str, cap['tidx'])) if cap['tidx'] else '-'} ridx={','.join(map(str, cap['ridx'])) if cap['ridx'] else '-'}")
        lines.append(line)
        recs.append((out, cap, (res, trim, rb, rl, ess_t, bins_t)))
    answers = drv.batch(lines)
    for (out, cap, opts), line, ans in zip(recs, lines, answers):
        res, trim, rb, rl, ess_t, bins_t = opts
        c.case((line, id(s)), trim or res)
        c.count(f"trim={int(trim)},res={int(res)}")
        if not ans.startswith("names="):
            c.disagree(input=line, impl=f"returned {len(out)} arrays", model=ans)
            continue
        kv = dict(t.split("=", 1) for t in ans.split(" "))
        names = kv["names"].split(",")
        tags = {k: ([] if kv[k] == "-" else [int(t) for t in kv[k].split(",")]) for k in ("x", "l", "b", "lw")}
        nw = int(kv["nw"])
        problem = None
        if len(out) != len(names):
            problem = f"tuple of {len(out)} arrays, model says {names}"
        else:
            got = dict(zip(names, out))
            lens = {k: len(v) for k, v in got.items()}
            if len(set(lens.values())) != 1 or lens["weights"] != nw:
                problem = f"lengths {lens}, model says {nw} rows"
            else:
                if not np.array_equal(got["x"], pool["x"][tags["x"]]):
                    problem = "x rows are not the particles the model predicts"
                elif not np.array_equal(got["logl"], pool["l"][tags["l"]]):
                    problem = "logl rows are not the particles the model predicts"
                elif "blobs" in got and not np.array_equal(got["blobs"], pool["b"][tags["b"]]):
                    problem = "blobs rows are not the particles the model predicts"
                elif "logw" in got and not np.array_equal(got["logw"], logw_full[tags["lw"]]):
                    problem = "logw rows are not the particles the model predicts"
                else:
                    w = got["weights"]
                    if res:
                        if not np.array_equal(w, np.ones(nw) / nw):
                            problem = "weights after resampling are not uniform 1/n"
                    elif trim:
                        if not np.array_equal(w, cap["tw"]):
                            problem = "weights are not the trimmed weights"
                    else:
                        ww = np.exp(logw_full - np.max(logw_full))
                        ww /= np.sum(ww)
                        if not np.array_equal(w, ww):
                            problem = "weights are not the normalised importance weights"
                    if problem is None and (np.any(w < 0) or abs(float(np.sum(w)) - 1.0) > 1e-9):
                        problem = f"weights negative or not summing to one (sum={float(np.sum(w))!r})"
        if problem:
            c.disagree(input=line, impl=problem, model=ans[:200], opts={"resample": res, "trim_importance_weights": trim,
                       "return_blobs": rb, "return_logw": rl, "ess_trim": ess_t, "bins_trim": bins_t})
        c.sample({"op": line[:160], "model": ans[:160]})


def _term_cases(c, drv, rng, s):
    """real _not_termination() vs the Float model on real states pushed to both sides of the thresholds"""
    from tempest.tools import effective_sample_size
    from translate import g1_constants
    consts = g1_constants.extract()
    tol = consts["TERM_BETA_TOL"]
    core = s._core
    st = s.state
    logw, _ = st.compute_logw_and_logz(1.0)
    w = np.exp(logw - np.max(logw))
    ess = float(effective_sample_size(w))
    beta0, nt0 = st.get_current("beta"), core.n_total
    betas = [1.0, 1.0 - 1e-4, math.nextafter(1.0 - 1e-4, 2.0), math.nextafter(1.0 - 1e-4, 0.0), 0.9999, 0.99990000000001,
             0.5, 0.0, 1.0 - 0.99e-4, 1.0 - 1.01e-4] + [1.0 - 1e-4 * rng.uniform(0.5, 1.5) for _ in range(6)]
    nts = [0, 1, math.floor(ess), math.ceil(ess), ess, math.nextafter(ess, math.inf), math.nextafter(ess, 0.0), ess * 2]
    lines, impl = [], []
    try:
        for b in betas:
            for nt in nts:
                st.set_current("beta", b)
                core.n_total = nt
                impl.append(bool(core._not_termination()))
                lines.append(f"term.F tol={f2hex(tol)} beta={f2hex(b)} ess={f2hex(ess)} ntotal={f2hex(float(nt))}")
    finally:
        st.set_current("beta", beta0)
        core.n_total = nt0
    for line, i, m in zip(lines, impl, drv.batch(lines)):
        c.case(line, True)
        c.count("continue" if i else "stop")
        if (m == "1") != i:
            c.disagree(input=line, impl=i, model=m)
    c.sample({"op": lines[1], "impl": impl[1]})


def correspond(tier):
    drv = common.Driver()
    rng = common.rng_for("C12")
    cp = Corr("posterior-16-combinations", "exact (row identity through captured index vectors)")
    ct = Corr("not-termination-guard", "bit-exact Float")
    cr = Corr("run-epilogue", "exact")
    configs = [("tpcn", "mult", True), ("rwm", "syst", False)]
    if tier == "thorough":
        configs += [("tpcn", "syst", False), ("rwm", "mult", True), ("tpcn", "mult", False), ("rwm", "syst", True)] * 3
    for kernel, resample, blobs in configs:
        s, seed = _make_run(rng, kernel, resample, blobs)
        _posterior_cases(cp, drv, rng, s, blobs, tier)
        _term_cases(ct, drv, rng, s)
        # run epilogue: run() returned => model guard says stop; evidence() == Z(1) recomputed from the stored history
        st = s.state
        logw, z1 = st.compute_logw_and_logz(1.0)
        from tempest.tools import effective_sample_size
        from translate import g1_constants
        ess = float(effective_sample_size(np.exp(logw - np.max(logw))))
        tol = g1_constants.extract()["TERM_BETA_TOL"]
        line = f"term.F tol={f2hex(tol)} beta={f2hex(st.get_current('beta'))} ess={f2hex(ess)} ntotal={f2hex(float(s._core.n_total))}"
        m = drv.batch([line])[0]
        cr.case((kernel, resample, blobs, seed), True)
        ev = s.evidence()[0]
        if m != "0" or f2hex(ev) != f2hex(z1):
            cr.disagree(input={"kernel": kernel, "resample": resample, "blobs": blobs, "seed": seed},
                        impl={"returned": True, "evidence": ev, "recomputed": z1}, model={"guard_continue": m})
        cr.sample({"config": [kernel, resample, blobs], "beta": st.get_current("beta"), "ess": ess, "n_total": s._core.n_total, "evidence": ev})
    # run() entered through a checkpoint, asking for MORE samples than the run that wrote it: the postconditions are about the
    # n_total passed to THIS run()
    import os
    import shutil
    import tempfile
    from tempest import Sampler
    from tempest.tools import effective_sample_size
    from translate import g1_constants
    tol = g1_constants.extract()["TERM_BETA_TOL"]
    for kernel, n_a, n_b in (("rwm", 48, 192), ("tpcn", 64, 64)) if tier == "quick" else (("rwm", 48, 192), ("tpcn", 64, 64), ("tpcn", 48, 256), ("rwm", 96, 97)):
        d = tempfile.mkdtemp(prefix="tv12_")
        try:
            seed = rng.randrange(2 ** 31)
            mk = lambda: Sampler(lambda u: 8.0 * u - 4.0, lambda x: -0.5 * float(np.sum((x - 0.5) ** 2)) * 3.0, 2, n_particles=24,
                                 clustering=False, sample=kernel, output_dir=d, n_steps=1, n_max_steps=2)
            np.random.seed(seed)
            with _quiet(), warnings.catch_warnings():
                warnings.simplefilter("ignore")
                mk().run(n_total=n_a, progress=False, save_every=2)
                cks = sorted(f for f in os.listdir(d) if f.endswith(".state"))
                s2 = mk()
                s2.run(n_total=n_b, progress=False, resume_state_path=os.path.join(d, cks[len(cks) // 2]))
            logw, z1 = s2.state.compute_logw_and_logz(1.0)
            ess = float(effective_sample_size(np.exp(logw - np.max(logw))))
            line = f"term.F tol={f2hex(tol)} beta={f2hex(s2.state.get_current('beta'))} ess={f2hex(ess)} ntotal={f2hex(float(n_b))}"
            m = drv.batch([line])[0]
            key = {"kernel": kernel, "first_n_total": n_a, "resumed_n_total": n_b, "checkpoint": cks[len(cks) // 2], "seed": seed}
            cr.case(key, True)
            cr.count("resumed_with_larger_n_total" if n_b > n_a else "resumed_same_n_total")
            if m != "0" or f2hex(s2.evidence()[0]) != f2hex(z1):
                cr.disagree(input=key, impl={"returned": True, "beta": s2.state.get_current("beta"), "ess": ess, "evidence": s2.evidence()[0], "recomputed": z1},
                            model={"guard_continue_for_requested_n_total": m}, resume=True)
        finally:
            shutil.rmtree(d, ignore_errors=True)
    return [cp, ct, cr]


# ------------------------------------------------------------------ property oracle on the real code
def oracle_run(s, blobs):
    """postconditions of run() + posterior contract for all 16 combinations; returns list of violations"""
    from tempest.tools import effective_sample_size
    bad = []
    st = s.state
    beta = st.get_current("beta")
    logw, z1 = st.compute_logw_and_logz(1.0)
    ess = float(effective_sample_size(np.exp(logw - np.max(logw))))
    if not (1.0 - beta < 1e-4):
        bad.append({"what": f"run() returned with beta={beta!r} (1-beta >= 1e-4)"})
    if not ess >= s._core.n_total:
        bad.append({"what": f"run() returned with ESS {ess!r} < n_total {s._core.n_total}"})
    if s.evidence()[0] != z1:
        bad.append({"what": f"evidence() {s.evidence()[0]!r} != evidence recomputed from the stored history {z1!r}"})
    pool_x = st.get_history("x", flat=True)
    pool_l = st.get_history("logl", flat=True)
    pool_b = st.get_history("blobs", flat=True) if blobs else None
    index = {}
    for i, row in enumerate(pool_x):
        index.setdefault(row.tobytes(), []).append(i)
    for res, trim, rb, rl in itertools.product([False, True], repeat=4):
        for ess_t, bins_t in [(0.99, 1000), (0.5, 7)]:
            opts = {"resample": res, "trim_importance_weights": trim, "return_blobs": rb, "return_logw": rl, "ess_trim": ess_t, "bins_trim": bins_t}
            try:
                with warnings.catch_warnings():
                    warnings.simplefilter("ignore")
                    out = s.posterior(**opts)
            except Exception as e:  # noqa
                bad.append({"what": f"posterior raised {type(e).__name__}: {e}", "opts": opts})
                continue
            n_expected = 3 + (1 if (rb and blobs) else 0) + (1 if rl else 0)
            lens = [len(a) for a in out]
            if len(out) != n_expected or len(set(lens)) != 1:
                bad.append({"what": f"posterior returned arrays of lengths {lens}", "opts": opts})
                continue
            x, w, l = out[0], out[1], out[2]
            bl = out[3] if (rb and blobs) else None
            lw = out[-1] if rl else None
            if np.any(w < 0) or abs(float(np.sum(w)) - 1.0) > 1e-9:
                bad.append({"what": f"weights negative or sum {float(np.sum(w))!r} != 1", "opts": opts})
            if res and not np.allclose(w, 1.0 / len(w), rtol=0, atol=1e-15):
                bad.append({"what": "weights not uniform with resample=True", "opts": opts})
            for k in range(len(x)):
                cands = index.get(x[k].tobytes(), [])
                ok = any(pool_l[i] == l[k] and (bl is None or np.array_equal(pool_b[i], bl[k])) and (lw is None or logw[i] == lw[k]) for i in cands)
                if not ok:
                    bad.append({"what": f"posterior row {k}: no stored particle has this (x, logl, blob, logw) combination", "opts": opts})
                    break
            if bad:
                return bad
    return bad


def oracle_guard(s):
    """the loop guard itself, on real states: run() returns exactly when the guard says stop, so a state with
    1 - beta >= 1e-4 (or ESS < n_total) at which the real guard says stop is a state at which run() returns too early"""
    from tempest.tools import effective_sample_size
    core, st = s._core, s.state
    logw, _ = st.compute_logw_and_logz(1.0)
    ess = float(effective_sample_size(np.exp(logw - np.max(logw))))
    beta0, nt0 = st.get_current("beta"), core.n_total
    bad = []
    try:
        for b in [0.0, 0.5, 0.9, 0.99, 0.995, 0.999, 0.9995, 0.9998, 1.0 - 1.0001e-4, 1.0 - 0.9999e-4, 0.99995, 1.0]:
            for nt in [1, int(ess), int(ess) + 1, int(2 * ess)]:
                st.set_current("beta", b)
                core.n_total = nt
                want_continue = (1.0 - b >= 1e-4) or (ess < nt)
                got = bool(core._not_termination())
                if got != want_continue:
                    bad.append({"what": f"at beta={b!r}, ESS={ess!r}, n_total={nt} the loop guard says "
                                        f"{'continue' if got else 'stop'}: run() would {'not return although' if got else 'return although'} "
                                        f"1-beta {'<' if 1.0 - b < 1e-4 else '>='} 1e-4 and ESS {'>=' if ess >= nt else '<'} n_total",
                                "beta": b, "n_total": nt, "ess": ess})
                    return bad
    finally:
        st.set_current("beta", beta0)
        core.n_total = nt0
    return bad


def oracle_resume(rng):
    """run(n_total=B, resume_state_path=checkpoint of a run with n_total=A < B) must end with ESS >= B"""
    import os
    import shutil
    import tempfile
    from tempest import Sampler
    from tempest.tools import effective_sample_size
    bad = []
    for kernel, n_a, n_b in (("rwm", 48, 192), ("tpcn", 48, 256)):
        d = tempfile.mkdtemp(prefix="tv12_")
        try:
            seed = rng.randrange(2 ** 31)
            mk = lambda: Sampler(lambda u: 8.0 * u - 4.0, lambda x: -0.5 * float(np.sum((x - 0.5) ** 2)) * 3.0, 2, n_particles=24,
                                 clustering=False, sample=kernel, output_dir=d, n_steps=1, n_max_steps=2)
            np.random.seed(seed)
            with _quiet(), warnings.catch_warnings():
                warnings.simplefilter("ignore")
                mk().run(n_total=n_a, progress=False, save_every=2)
                for ck in sorted(f for f in os.listdir(d) if f.endswith(".state")):
                    s2 = mk()
                    s2.run(n_total=n_b, progress=False, resume_state_path=os.path.join(d, ck))
                    logw, _ = s2.state.compute_logw_and_logz(1.0)
                    ess = float(effective_sample_size(np.exp(logw - np.max(logw))))
                    beta = s2.state.get_current("beta")
                    if not (1.0 - beta < 1e-4 and ess >= n_b):
                        bad.append({"what": f"run(n_total={n_b}, resume_state_path={ck}) of a run written with n_total={n_a} returned with beta={beta!r}, ESS={ess:.1f} < {n_b}",
                                    "config": {"kernel": kernel, "resample": "mult", "blobs": False, "n_total": n_a}, "seed": seed, "resume": True})
                        return bad
        finally:
            shutil.rmtree(d, ignore_errors=True)
    return bad


def search(tier, hints):
    rng = common.rng_for("C12.search")
    found = []
    try:
        found += oracle_resume(rng)
    except Exception as e:  # noqa
        found.append({"what": f"resumed run raised {type(e).__name__}: {e}", "config": ["resume"]})
    try:
        s0, seed0 = _make_run(rng, "rwm", "syst", False, 64)
        for b in oracle_guard(s0):
            b.update({"config": {"kernel": "rwm", "resample": "syst", "blobs": False, "n_total": 64}, "seed": seed0, "guard_level": True})
            found.append(b)
    except Exception as e:  # noqa
        found.append({"what": f"run raised {type(e).__name__}: {e}", "config": ["rwm", "syst", False, 64]})
    n = 6 if tier == "quick" else 40
    for _ in range(n):
        kernel = rng.choice(["tpcn", "rwm"])
        resample = rng.choice(["mult", "syst"])
        blobs = rng.random() < 0.5
        n_total = rng.choice([64, 128, 256])
        try:
            s, seed = _make_run(rng, kernel, resample, blobs, n_total)
        except Exception as e:  # noqa
            found.append({"what": f"run raised {type(e).__name__}: {e}", "config": [kernel, resample, blobs, n_total]})
            continue
        for b in oracle_run(s, blobs):
            b.update({"config": {"kernel": kernel, "resample": resample, "blobs": blobs, "n_total": n_total}, "seed": seed})
            found.append(b)
        if len(found) >= 3:
            break
    return found


def replay(obj):
    f = obj.get("failing_input", obj)
    if "witness" in f.get("replay", {}):
        from . import witnesses
        return witnesses.ALL[f["replay"]["witness"]]()
    import random
    if f.get("resume"):
        b = oracle_resume(common.rng_for("C12.search"))
        return {"fails": bool(b), "detail": b[:1]}
    cfg, seed = f["config"], f["seed"]
    from tempest import Sampler
    blobs = cfg["blobs"]

    class R:
        def randrange(self, n):
            return seed
    s, _ = _make_run(R(), cfg["kernel"], cfg["resample"], blobs, cfg["n_total"])
    bad = oracle_run(s, blobs) + oracle_guard(s)
    return {"fails": bool(bad), "detail": bad[:1]}
